"""C07 - a load's result depends on its input alone: no history or interleaving effects.   (PARTIAL, see notes)

tie A (translator)   translators/tr_state.py -> Gen_C07.v (defaults / fields / globals table)
                     Inst_C07_{defaults,fields,globals}.v : the three table obligations (vm_compute)
                     Props/C07.v : generic theorems (always) + instance theorems over Gen_C07.table (when the table is clean)
tie B (correspondence, always runs; also the witness search)
  (a) histories of real loader calls over a generated file pool, every call compared with the same call in a
      fresh (forked) process, and with the Coq loader model under the modes of the generated table
  (b) schedules of two real NetworkBuilder instances (generated op streams, and handler streams recorded from the
      real HDF5/XML parsers), each builder compared with its solo run in a fresh process and with the Coq
      builder model under the placement of the generated table
  (c) OptimizedList's default `indices` dict: directed check
"""
import json
import os
import shutil
import subprocess
import tempfile

from lib.vcommon import PY, VERIF, coq_list, coq_str, coq_z, impl_env

MARK = "(* ==== INSTANCE ===="
KINDS = ["iaf_cells", "pulse_generators", "exp_one_synapses", "izhikevich_cells"]
INSTANCE_THEOREMS = ["C07_state_ok", "C07_loads_history_independent", "C07_builders_do_not_interfere",
                     "C07_no_default_is_mutated", "C07_every_field_is_per_instance", "C07_no_written_global_is_read",
                     "C07_class_metadata_is_constant", "C07_process_state_is_restored", "C07_handlers_do_not_write_argument_objects", "C07_no_set_order_reaches_documents"]


# --------------------------------------------------------------------------------------- translator
def translate(ck):
    p = subprocess.run([PY, os.path.join(VERIF, "translators", "tr_state.py")], capture_output=True, text=True,
                       env=impl_env(), timeout=300)
    lines = [l for l in p.stdout.splitlines() if l.strip()]
    if p.returncode != 0 or not lines:
        ck.oblige("translate:tr_state", False, p.stderr[-2000:], kind="translate")
        return None
    ck.oblige("translate:tr_state", True, kind="translate")
    d = json.loads(lines[-1])
    for u in d["untranslatable"]:
        ck.oblige("translate:%s:%s:%s" % (u["file"], u["qualname"], u["reason"][:120]), False, json.dumps(u), kind="translate")
    return d


def b(x):
    return "true" if x else "false"


def gen_table(d):
    ds = ["{| ds_module := %s; ds_func := %s; ds_param := %s; ds_mutated := %s; ds_escapes := %s |}"
          % (coq_str(x["module"]), coq_str(x["func"]), coq_str(x["param"]), b(x["mutated"]), b(x["escapes"]))
          for x in d["defaults"]]
    kind = {"mutable": "KMutable", "immutable": "KImmutable", "logger": "KLogger"}
    fs = ["{| fs_module := %s; fs_cls := %s; fs_attr := %s; fs_kind := %s; fs_rebound := %s; fs_mutated := %s; "
          "fs_class_assigned := %s |}" % (coq_str(x["module"]), coq_str(x["cls"]), coq_str(x["attr"]), kind[x["kind"]],
                                         b(x["rebound_in_init"]), b(x["mutated_in_place"]), b(x["class_assigned"]))
          for x in d["fields"]]
    gs = ["{| gs_module := %s; gs_name := %s; gs_writers := %s; gs_readers := %s |}"
          % (coq_str(x["module"]), coq_str(x["name"]), coq_list([coq_str(w) for w in x["writers"]]),
             coq_list([coq_str(r) for r in x["readers"]])) for x in d["globals"]]
    cm = ["{| cm_module := %s; cm_attr := %s; cm_kind := %s; cm_classes := %s; cm_mutated := %s; cm_aliases := %s |}"
          % (coq_str(x["module"]), coq_str(x["attr"]), "MMemo" if x["kind"] == "memo" else "MMetadata", coq_z(x["classes"]),
             b(x["mutated"]), b(x["aliases"])) for x in d.get("classmeta", [])]
    psk = {"cwd": "KCwd", "environ": "KEnviron", "sys.path": "KSysPath", "warnings": "KWarnings", "logging": "KLogging",
           "recursionlimit": "KRecursion", "locale": "KLocale", "stdio": "KStdio", "module-attribute": "KModuleAttr"}
    ps = ["{| ps_module := %s; ps_func := %s; ps_kind := %s; ps_import_time := %s; ps_restored := %s |}"
          % (coq_str(x["module"]), coq_str(x["func"]), psk[x["kind"]], b(x["scope"] != "function"), b(x["restored"]))
          for x in d.get("process_state", [])]
    aw = ["{| aw_module := %s; aw_class := %s; aw_func := %s; aw_param := %s; aw_attr := %s; aw_handler := %s |}"
          % (coq_str(x["module"]), coq_str(x["cls"]), coq_str(x["func"]), coq_str(x["param"]), coq_str(x["attr"]), b(x["handler"]))
          for x in d.get("argument_writes", [])]
    mode = {"none": "DNone", "shared": "DSharedList"}
    ms = d["entry_defaults"].get("modes", {})
    lines = ["From Coq Require Import String List Bool ZArith.", "From LNML Require Import Model.State.",
             "Import ListNotations.", "Open Scope string_scope.",
             "Definition table : state_table := {|",
             "  st_defaults := %s;" % coq_list(ds).replace("; {|", ";\n    {|"),
             "  st_fields := %s;" % coq_list(fs).replace("; {|", ";\n    {|"),
             "  st_globals := %s;" % coq_list(gs).replace("; {|", ";\n    {|"),
             "  st_classmeta := %s;" % coq_list(cm).replace("; {|", ";\n    {|"),
             "  st_process := %s;" % coq_list(ps).replace("; {|", ";\n    {|"),
             "  st_argwrites := %s;" % coq_list(aw).replace("; {|", ";\n    {|"),
             "  st_setorder := %s |}." % coq_list(["{| so_module := %s; so_func := %s; so_expr := %s |}"
                                                  % (coq_str(x["module"]), coq_str(x["func"]), coq_str(x["expr"]))
                                                  for x in d.get("set_iteration_order", [])])]
    shp = d["entry_defaults"].get("shape", {})
    lines += ["(* the version-dependent places of loaders.py / NetworkBuilder.py, read off the source *)",
              "Definition shape : lshape := {| sh_mark_entry := %s; sh_append_first := %s; sh_h5_threads := %s |}."
              % (b(shp.get("mark_entry")), b(shp.get("append_first")), b(shp.get("h5_threads"))),
              "Definition elec_guard : bool := %s." % b(d.get("builder_shape", {}).get("elec_weight_guard"))]
    if all(ms.get(k) in mode for k in ("read_neuroml2_file", "read_neuroml2_string", "_read_neuroml2", "NeuroMLHdf5Loader.load")):
        lines += ["(* cross-check: what the translator itself says about the loader defaults and the placements *)",
                  "Lemma modes_agree : modes_of table = {| m_file := %s; m_string := %s; m_inner := %s; m_h5 := %s |}."
                  % (mode[ms["read_neuroml2_file"]], mode[ms["read_neuroml2_string"]], mode[ms["_read_neuroml2"]],
                     mode[ms["NeuroMLHdf5Loader.load"]]),
                  "Proof. vm_compute. reflexivity. Qed."]
    lines += ["Lemma placements_agree : map field_shared (st_fields table) = %s."
              % coq_list([b(x["placement"] == "Shared") for x in d["fields"]]),
              "Proof. vm_compute. reflexivity. Qed."]
    return "\n".join(lines) + "\n"


INST = {
    "defaults": "Lemma defaults_ok : mutated_defaults Gen_C07.table = [].\nProof. vm_compute. reflexivity. Qed.\n",
    "fields": "Lemma fields_ok : all_own Gen_C07.table = true.\nProof. vm_compute. reflexivity. Qed.\n",
    "globals": "Lemma globals_ok : globals_read Gen_C07.table = [].\nProof. vm_compute. reflexivity. Qed.\n",
    "setorder": "Lemma set_order_ok : set_iteration_sites Gen_C07.table = [].\nProof. vm_compute. reflexivity. Qed.\n",
    "argwrites": "Lemma argument_writes_ok : argument_writes Gen_C07.table = [].\nProof. vm_compute. reflexivity. Qed.\n",
    "process": "Lemma process_state_ok : process_leaks Gen_C07.table = [].\nProof. vm_compute. reflexivity. Qed.\n",
    "classmeta": "Lemma classmeta_ok : mutated_class_attrs Gen_C07.table = [].\nProof. vm_compute. reflexivity. Qed.\n",
}
HEAD = ("From Coq Require Import String List Bool ZArith.\nFrom LNML Require Import Model.State Proofs.StateP.\n"
        "From Run Require Import Gen_C07.\nImport ListNotations.\nOpen Scope string_scope.\n")


def table_and_props(ck, d):
    g = ck.gen_v("Gen_C07.v", gen_table(d))
    ok, out = ck.compile_obligations(g, kind="translate")
    if not ok:
        return {}
    inst_ok = {}
    for name, body in INST.items():
        path = ck.gen_v("Inst_C07_%s.v" % name, HEAD + body)
        inst_ok[name], _ = ck.compile_obligations(path, kind="instance")
    src = open(os.path.join(VERIF, "coq", "Props", "C07.v")).read()
    assert MARK in src
    if all(inst_ok.values()):
        ck.compile_props()
    else:
        generic = ck.gen_v("Props_C07_generic.v", src[:src.index(MARK)])
        ck.compile_obligations(generic, kind="theorem")
        failed = [k for k, v in inst_ok.items() if not v]
        for t in INSTANCE_THEOREMS:
            ck.oblige("Props_C07.v:" + t, False, "instance obligation(s) failed: " + ",".join(failed), kind="theorem")
        # what the model says about THIS table: the property is refuted in the model (witnesses are replayed below)
        ref = [HEAD]
        if not inst_ok["defaults"]:
            ref.append("Lemma defaults_refuted : mutated_defaults Gen_C07.table <> [].\nProof. vm_compute. discriminate. Qed.\n")
            if d["entry_defaults"].get("modes", {}).get("read_neuroml2_string") == "shared":
                ref.append("Lemma history_refuted_for_this_table :\n"
                           "  fst (exec_call 10 (modes_of Gen_C07.table) Gen_C07.shape wit_fs wit_call\n"
                           "         (run_hist 10 (modes_of Gen_C07.table) Gen_C07.shape wit_fs [wit_call] w_empty))\n"
                           "  <> fst (exec_call 10 (modes_of Gen_C07.table) Gen_C07.shape wit_fs wit_call w_empty).\n"
                           "Proof. vm_compute. discriminate. Qed.\n")
        if not inst_ok["fields"]:
            ref.append("Lemma fields_refuted : shared_fields Gen_C07.table <> [].\nProof. vm_compute. discriminate. Qed.\n")
            if any(f["cls"] == "NetworkBuilder" and f["attr"] == "populations" and f["placement"] == "Shared" for f in d["fields"]):
                ref.append("Lemma interleave_refuted_for_this_table :\n"
                           "  bdump (placement_of Gen_C07.table) WA (brun Gen_C07.elec_guard (placement_of Gen_C07.table) wit_sched bsys0)\n"
                           "  <> solo_dump Gen_C07.elec_guard (ops_of WA wit_sched).\nProof. vm_compute. discriminate. Qed.\n")
        if not inst_ok["setorder"]:
            ref.append("Lemma set_order_refuted : set_iteration_sites Gen_C07.table <> [].\nProof. vm_compute. discriminate. Qed.\n")
        if not inst_ok["argwrites"]:
            ref.append("Lemma argument_writes_refuted : argument_writes Gen_C07.table <> [].\nProof. vm_compute. discriminate. Qed.\n")
        if not inst_ok["process"]:
            ref.append("Lemma process_state_refuted : process_leaks Gen_C07.table <> [].\nProof. vm_compute. discriminate. Qed.\n")
        if not inst_ok["classmeta"]:
            ref.append("Lemma classmeta_refuted : mutated_class_attrs Gen_C07.table <> [].\nProof. vm_compute. discriminate. Qed.\n")
        if not inst_ok["globals"]:
            ref.append("Lemma globals_refuted : globals_read Gen_C07.table <> [].\nProof. vm_compute. discriminate. Qed.\n")
        rp = ck.gen_v("Refuted_C07.v", "".join(ref))
        rok, rout = ck.coqc(rp)
        ck.extra["model_refutations_for_this_table"] = {"compiled": rok, "lemmas": [l.split()[1] for l in "".join(ref).splitlines()
                                                                                    if l.startswith("Lemma")]}
    return inst_ok


# --------------------------------------------------------------------------------------- (a) pool + histories
W_POOL = [
    {"name": "w_cell.nml", "kind": "xml", "items": [["iaf_cells", "iaf0"]], "includes": []},
    {"name": "w_syn.nml", "kind": "xml", "items": [["exp_one_synapses", "syn0"]], "includes": ["w_cell.nml"]},
    {"name": "w_main.nml", "kind": "xml", "items": [["pulse_generators", "pg0"]], "includes": ["w_cell.nml"]},
    {"name": "w_net.nml.h5", "kind": "h5", "items": [["pulse_generators", "pg1"]], "includes": ["w_syn.nml"],
     "net": {"id": "wnet", "pops": [{"id": "p0", "comp": "iaf0", "size": 2},
                                    {"id": "p1", "comp": "iaf0", "size": 1, "instances": [[0, 1, 2, 3]]}],
             "projs": [{"id": "pr0", "pre": "p0", "post": "p1", "syn": "syn0", "conns": [[0, "../p0[0]", "../p1/0/iaf0"]]}],
             "ilists": [{"id": "il0", "comp": "pg1", "pop": "p0", "inputs": [[0, "../p0[1]"]]}]}},
]
W_POOL.append({"name": "w_plain.nml.h5", "kind": "h5", "items": [["iaf_cells", "iafp"]], "includes": [],
               "net": {"id": "wplain", "pops": [{"id": "p0", "comp": "iafp", "size": 2},
                                                {"id": "p1", "comp": "iafp", "size": 1, "instances": [[0, 1, 2, 3]]}],
                       "projs": [{"id": "pr0", "pre": "p0", "post": "p1", "syn": "nosyn", "conns": [[0, "../p0[0]", "../p1/0/iafp"]]}]}})
W_POOL += [
    # X: top-level <annotation/> and a population whose component is defined nowhere (a LEMS-style reference)
    {"name": "w_x.nml", "kind": "xml", "items": [], "includes": [], "annotation": True,
     "net": {"id": "netX", "pops": [{"id": "popX", "comp": "lemsOscillator", "size": 2}], "projs": [], "ilists": []}},
    {"name": "w_x.nml.h5", "kind": "h5", "items": [], "includes": [], "annotation": True,
     "net": {"id": "netX", "pops": [{"id": "popX", "comp": "lemsOscillator", "size": 2}], "projs": [], "ilists": []}},
    # Y: everything resolves, so the builders call nml_doc.append(component_obj)
    {"name": "w_y.nml", "kind": "xml", "items": [["izhikevich_cells", "izh0"]], "includes": [],
     "net": {"id": "netY", "pops": [{"id": "popY", "comp": "izh0", "size": 3}], "projs": [], "ilists": []}},
    {"name": "w_y.nml.h5", "kind": "h5", "items": [["izhikevich_cells", "izh0"]], "includes": [],
     "net": {"id": "netY", "pops": [{"id": "popY", "comp": "izh0", "size": 3}], "projs": [], "ilists": []}},
]
XSI_DOC = ('<neuroml xmlns="http://www.neuroml.org/schema/neuroml2" xmlns:xsi="http://www.w3.org/2001/XMLSchema-instance" '
           'id="doc_w_xsi">\n    <iafCell xsi:type="IafRefCell" id="iafref" refract="5ms" leakReversal="-60mV" thresh="-50mV" '
           'reset="-65mV" C="1nF" leakConductance="0.05uS"/>\n</neuroml>\n')
W_POOL += [
    # relative paths / working directory: the same include name exists in the pool root and in sub/
    {"name": "w_rcell.nml", "kind": "xml", "items": [["iaf_cells", "iafroot"]], "includes": []},
    {"name": "sub/w_rcell.nml", "kind": "xml", "items": [["iaf_cells", "iafsub"]], "includes": []},
    {"name": "w_rnet.nml", "kind": "xml", "items": [["pulse_generators", "pgr"]], "includes": ["w_rcell.nml"]},
    {"name": "sub/w_broken.nml", "kind": "xml", "raw": '<neuroml xmlns="http://www.neuroml.org/schema/neuroml2" id="b"><network',
     "items": [], "includes": [], "model_kind": "FH5"},      # not well formed: parsing it as XML raises
    {"name": "w_morph.h5", "kind": "rawh5", "items": [], "includes": [], "model_kind": "FXml"},   # HDF5, but not NeuroML
    # xsi:type on a polymorphic child
    {"name": "w_xsi.nml", "kind": "xml", "raw": XSI_DOC, "items": [["iaf_cells", "iafref"]], "includes": []},
    # a population with a property (handlers with and without a `properties` parameter)
    {"name": "w_props.nml.h5", "kind": "h5", "items": [["iaf_cells", "iafq"]], "includes": [],
     "net": {"id": "wprops", "pops": [{"id": "p0", "comp": "iafq", "size": 2, "props": [["color", "1 0 0"], ["radius", "5"]]}],
             "projs": [], "ilists": []}},
    {"name": "w_swc.swc", "kind": "xml", "raw": "1 1 0 0 0 1 -1\n2 3 1 0 0 1 1\n3 3 2 0 0 1 2\n", "items": [], "includes": [],
     "model_kind": "FH5"},
]
def _xdoc(tag, thresh):
    return ('<neuroml xmlns="http://www.neuroml.org/schema/neuroml2" id="doc_w_x%s">\n'
            '    <iafCell id="cell0" leakReversal="-65mV" thresh="%s" reset="-65mV" C="1.0 nF" leakConductance="10 nS"/>\n'
            '    <network id="netx%s">\n        <population id="p0" component="cell0" size="2"/>\n    </network>\n</neuroml>\n'
            % (tag, thresh, tag))


# two files that call their cell `cell0` but define it differently (parser-driven builds must not confuse them)
W_POOL += [
    {"name": "w_xa.nml", "kind": "xml", "raw": _xdoc("a", "-50mV"), "items": [["iaf_cells", "cell0"]], "includes": [],
     "net": {"id": "netxa", "pops": [{"id": "p0", "comp": "cell0", "size": 2}], "projs": [], "ilists": []}},
    {"name": "w_xb.nml", "kind": "xml", "raw": _xdoc("b", "-40mV"), "items": [["iaf_cells", "cell0"]], "includes": [],
     "net": {"id": "netxb", "pops": [{"id": "p0", "comp": "cell0", "size": 2}], "projs": [], "ilists": []}},
]
def _vdoc(tag):
    return ('<neuroml xmlns="http://www.neuroml.org/schema/neuroml2" id="doc_net_%s">\n    <include href="cell.nml"/>\n'
            '    <pulseGenerator id="pg%s" delay="0ms" duration="10ms" amplitude="1nA"/>\n</neuroml>\n' % (tag, tag))


W_POOL += [
    # a diamond of includes: top1 -> {common, b}, b -> common, top2 -> b
    {"name": "w_dcommon.nml", "kind": "xml", "items": [["iaf_cells", "iafcommon"]], "includes": []},
    {"name": "w_db.nml", "kind": "xml", "items": [["exp_one_synapses", "synb"]], "includes": ["w_dcommon.nml"]},
    {"name": "w_dtop1.nml", "kind": "xml", "items": [["pulse_generators", "pgt1"]], "includes": ["w_dcommon.nml", "w_db.nml"]},
    {"name": "w_dtop2.nml", "kind": "xml", "items": [["pulse_generators", "pgt2"]], "includes": ["w_db.nml"]},
    # an XML network file with an include (parser-driven builds)
    {"name": "w_xnet.nml", "kind": "xml", "items": [["pulse_generators", "pgx"]], "includes": ["w_cell.nml"],
     "net": {"id": "netxn", "pops": [{"id": "p0", "comp": "iaf0", "size": 2}], "projs": [], "ilists": []}},
    # a second HDF5 network whose projection runs between populations of other names
    {"name": "w_proj2.nml.h5", "kind": "h5", "items": [["iaf_cells", "iafr"]], "includes": [],
     "net": {"id": "wproj2", "pops": [{"id": "q0", "comp": "iafr", "size": 2}, {"id": "q1", "comp": "iafr", "size": 2}],
             "projs": [{"id": "prq", "pre": "q0", "post": "q1", "syn": "nosyn",
                        "conns": [[0, "../q0[0]", "../q1[1]"], [1, "../q0[1]", "../q1[0]"]]}], "ilists": []}},
    # two versions of a model side by side: the same relative name `model/net.nml` from two working directories
    {"name": "va/model/cell.nml", "kind": "xml", "items": [["iaf_cells", "cellva"]], "includes": []},
    {"name": "va/model/net.nml", "kind": "xml", "raw": _vdoc("va"), "items": [["pulse_generators", "pgva"]], "includes": ["cell.nml"]},
    {"name": "vb/model/cell.nml", "kind": "xml", "items": [["iaf_cells", "cellvb"]], "includes": []},
    {"name": "vb/model/net.nml", "kind": "xml", "raw": _vdoc("vb"), "items": [["pulse_generators", "pgvb"]], "includes": ["cell.nml"]},
]
_NS = '<neuroml xmlns="http://www.neuroml.org/schema/neuroml2" id="%s">\n'
_IAF = '    <iafCell id="%s" leakReversal="-65mV" thresh="-50mV" reset="-65mV" C="1.0 nF" leakConductance="10 nS"/>\n'
W_POOL += [
    # an HDF5 network whose projection names a population that does not exist: the build fails inside parse_group (KeyError)
    {"name": "w_badproj.nml.h5", "kind": "h5", "items": [["iaf_cells", "iafz"]], "includes": [], "model_kind": "FXml", "no_opt": True,
     "net": {"id": "wbad", "pops": [{"id": "p0", "comp": "iafz", "size": 2}],
             "projs": [{"id": "prz", "pre": "pX", "post": "p0", "syn": "nosyn", "conns": [[0, "../pX[0]", "../p0[1]"]]}], "ilists": []}},
    # a document id that build-time validation refuses (ValueError in NetworkBuilder.handle_document_start .. add)
    {"name": "w_badid.nml", "kind": "xml", "items": [], "includes": [], "model_kind": "FH5", "only_eps": ["xmlparser"],
     "raw": (_NS % "net-1") + (_IAF % "c0") + '    <network id="n1">\n        <population id="p0" component="c0" size="1"/>\n'
            '    </network>\n</neuroml>\n'},
    # defines the component id that w_x.nml leaves dangling
    {"name": "w_xdef.nml", "kind": "xml", "items": [["iaf_cells", "lemsOscillator"]], "includes": [],
     "net": {"id": "netXdef", "pops": [{"id": "popD", "comp": "lemsOscillator", "size": 1}], "projs": [], "ilists": []}},
    # the same <explicitInput> twice
    {"name": "w_expl.nml", "kind": "xml", "items": [["iaf_cells", "ce"], ["pulse_generators", "pge"]], "includes": [],
     "net": {"id": "netexpl", "pops": [{"id": "pe", "comp": "ce", "size": 2}], "projs": [], "ilists": []},
     "raw": (_NS % "doc_w_expl") + (_IAF % "ce") + '    <pulseGenerator id="pge" delay="0ms" duration="10ms" amplitude="1nA"/>\n'
            '    <network id="netexpl">\n        <population id="pe" component="ce" size="2"/>\n'
            '        <explicitInput target="pe[0]" input="pge"/>\n        <explicitInput target="pe[0]" input="pge"/>\n'
            '    </network>\n</neuroml>\n'},
]
W_HIST = [
    ("a failing HDF5 build (unknown population), then a parser-driven build that build-time validation refuses",
     [{"ep": "h5", "name": "w_badproj.nml.h5"}, {"ep": "xmlparser", "name": "w_badid.nml"},
      {"ep": "file", "name": "w_badproj.nml.h5", "incl": True}, {"ep": "xmlparser", "name": "w_badid.nml"}]),
    ("XML-parser builds: a dangling component id first, then a file that defines that id",
     [{"ep": "xmlparser", "name": "w_x.nml"}, {"ep": "xmlparser", "name": "w_xdef.nml"}, {"ep": "file", "name": "w_xdef.nml", "incl": True}]),
    ("two XML-parser builds of a network with a repeated <explicitInput>",
     [{"ep": "xmlparser", "name": "w_expl.nml"}, {"ep": "xmlparser", "name": "w_expl.nml"}]),
    ("a diamond of includes met in another order by an earlier load",
     [{"ep": "file", "name": "w_dtop1.nml", "incl": True}, {"ep": "file", "name": "w_dtop2.nml", "incl": True},
      {"ep": "string", "name": "w_dtop2.nml", "incl": True}, {"ep": "file", "name": "w_dtop1.nml", "incl": True}]),
    ("two XML-parser builds of a network file with an include",
     [{"ep": "xmlparser", "name": "w_xnet.nml"}, {"ep": "xmlparser", "name": "w_xnet.nml"}]),
    ("optimized HDF5 loads of two networks whose projections run between different populations (earlier result looked at again)",
     [{"ep": "h5", "name": "w_net.nml.h5", "opt": True}, {"ep": "h5", "name": "w_proj2.nml.h5", "opt": True},
      {"ep": "h5", "name": "w_net.nml.h5", "opt": True}]),
    ("the same relative file name read from two working directories",
     [{"ep": "file", "name": "model/net.nml", "incl": True, "rel": True, "cwd": "va"},
      {"ep": "file", "name": "model/net.nml", "incl": True, "rel": True, "cwd": "vb"},
      {"ep": "inner_path", "name": "model/net.nml", "incl": True, "rel": True, "cwd": "va"}]),
    ("XML-parser builds of two files that use the same component id with different definitions",
     [{"ep": "xmlparser", "name": "w_xa.nml"}, {"ep": "xmlparser", "name": "w_xb.nml"}, {"ep": "xmlparser", "name": "w_xa.nml"}]),
    ("optimized HDF5 load of a population with properties, twice, then another optimized load",
     [{"ep": "h5", "name": "w_props.nml.h5", "opt": True}, {"ep": "h5", "name": "w_props.nml.h5", "opt": True},
      {"ep": "h5", "name": "w_net.nml.h5", "opt": True}, {"ep": "file", "name": "w_props.nml.h5", "incl": True, "opt": True}]),
    ("a load that fails in a sub-folder, then the same relative-path load / string load with a relative include as before",
     [{"ep": "file", "name": "w_rnet.nml", "incl": True, "rel": True},
      {"ep": "string", "name": "w_rnet.nml", "incl": True, "base": "none"},
      {"ep": "file", "name": "sub/w_broken.nml", "incl": True},
      {"ep": "file", "name": "w_rnet.nml", "incl": True, "rel": True},
      {"ep": "string", "name": "w_rnet.nml", "incl": True, "base": "none"},
      {"ep": "string", "name": "w_rnet.nml", "incl": True}]),
    ("failing loads of every kind between two identical loads",
     [{"ep": "file", "name": "w_main.nml", "incl": True}, {"ep": "file", "name": "nonexistent_top.nml", "incl": True},
      {"ep": "string", "name": "sub/w_broken.nml", "incl": True}, {"ep": "h5", "name": "w_morph.h5"},
      {"ep": "file", "name": "w_morph.h5", "incl": True}, {"ep": "file", "name": "w_main.nml", "incl": True},
      {"ep": "h5", "name": "w_plain.nml.h5"}]),
    ("xsi:type after another file load",
     [{"ep": "file", "name": "w_cell.nml", "incl": False}, {"ep": "file", "name": "w_xsi.nml", "incl": False},
      {"ep": "string", "name": "w_xsi.nml", "incl": False}]),
    ("HDF5 parser with a handler without `properties`, then an ordinary HDF5 load of a population with properties",
     [{"ep": "h5_noprops", "name": "w_props.nml.h5"}, {"ep": "h5", "name": "w_props.nml.h5"}]),
    ("XML parser with an old-API (camelCase) handler after another XML-parser build",
     [{"ep": "xmlparser", "name": "w_y.nml"}, {"ep": "xmlparser_oldapi", "name": "w_y.nml"}]),
    ("HDF5 loads X, Y, X: X has a top-level annotation and an unresolved component; Y's build calls nml_doc.append()",
     [{"ep": "h5", "name": "w_x.nml.h5"}, {"ep": "h5", "name": "w_y.nml.h5"}, {"ep": "h5", "name": "w_x.nml.h5"}]),
    ("XML-parser driven NetworkBuilder builds X, Y, X",
     [{"ep": "xmlparser", "name": "w_x.nml"}, {"ep": "xmlparser", "name": "w_y.nml"}, {"ep": "xmlparser", "name": "w_x.nml"}]),
    ("read_neuroml2_file on HDF5: Y then X",
     [{"ep": "file", "name": "w_y.nml.h5", "incl": True}, {"ep": "file", "name": "w_x.nml.h5", "incl": True}]),
    ("optimized HDF5 load without includes, document used (append + iterate), second optimized load: the default index "
     "table of the new document's lists is the one the first document wrote into",
     [{"ep": "h5", "name": "w_plain.nml.h5", "opt": True, "use": True}, {"ep": "h5", "name": "w_plain.nml.h5", "opt": True}]),
    ("string twice (default already_included list)",
     [{"ep": "string", "name": "w_main.nml", "incl": True}, {"ep": "string", "name": "w_main.nml", "incl": True}]),
    ("HDF5 load twice (embedded XML read with the default list)",
     [{"ep": "h5", "name": "w_net.nml.h5"}, {"ep": "h5", "name": "w_net.nml.h5"}]),
    ("string load, then a file whose HDF5 include embeds the same include",
     [{"ep": "string", "name": "w_syn.nml", "incl": True}, {"ep": "h5", "name": "w_net.nml.h5", "opt": True}]),
    ("optimized HDF5 load, document used (append + iterate), second optimized load",
     [{"ep": "h5", "name": "w_net.nml.h5", "opt": True, "use": True}, {"ep": "h5", "name": "w_net.nml.h5", "opt": True}]),
]


def gen_net(rng, tag, comps, syns, pgs):
    pops = []
    ids = rng.sample(["p0", "p1", "p2"], rng.choice([2, 2, 3]))
    for pid in ids:
        p = {"id": pid, "comp": rng.choice(comps) if rng.random() < 0.7 else "lems_" + tag, "size": rng.randint(1, 3)}
        if rng.random() < 0.4:
            p["props"] = [["color", "%d 0 0" % rng.randint(0, 1)]] + ([["radius", str(rng.randint(1, 9))]] if rng.random() < 0.5 else [])
        if rng.random() < 0.5:
            p["instances"] = [[i, rng.randint(0, 9), rng.randint(0, 9), rng.randint(0, 9)] for i in range(p["size"])]
        pops.append(p)

    def path(p, i):
        return "../%s/%d/%s" % (p["id"], i, p["comp"]) if p.get("instances") else "../%s[%d]" % (p["id"], i)
    projs = []
    for k in range(rng.choice([1, 1, 2])):
        a, c = rng.choice(pops), rng.choice(pops)
        pr = {"id": "pr%d" % k, "pre": a["id"], "post": c["id"], "syn": rng.choice(syns) if rng.random() < 0.7 else "lemsSyn_" + tag,
              "conns": [], "conn_wds": []}
        for cid in range(rng.randint(1, 3)):
            pr["conns"].append([cid, path(a, rng.randrange(a["size"])), path(c, rng.randrange(c["size"]))])
        projs.append(pr)
    ils = []
    if rng.random() < 0.7:
        a = rng.choice(pops)
        ils.append({"id": "il0", "comp": rng.choice(pgs) if rng.random() < 0.7 else "lemsInput_" + tag, "pop": a["id"],
                    "inputs": [[i, path(a, rng.randrange(a["size"]))] for i in range(rng.randint(1, 2))]})
    return {"id": "net" + tag, "pops": pops, "projs": projs, "ilists": ils}


def gen_pool(rng, n_xml):
    pool = [dict(f) for f in W_POOL]
    names = ["f%d.%s" % (i, "xml" if i == 3 else "nml") for i in range(n_xml)]
    h5 = ["n0.nml.h5", "n1.nml.h5"]
    specs = {}
    for i in reversed(range(n_xml)):
        items = []
        for k in range(rng.choice([1, 1, 2])):
            kind = rng.choice(KINDS)
            cid = rng.choice(["shared0", "shared1"]) if rng.random() < 0.25 else "c%d_%d" % (i, k)
            if [kind, cid] not in items:
                items.append([kind, cid])
        later = names[i + 1:]
        incs = [x for x in later if rng.random() < min(0.9, 1.6 / max(1, len(later)))]
        if i < 3 and rng.random() < 0.6:
            incs.insert(rng.randrange(len(incs) + 1), rng.choice(h5))
        specs[names[i]] = {"name": names[i], "kind": "xml", "items": items, "includes": incs}
    # the component ids reachable through includes of the higher-numbered files, for the networks
    for j, hn in enumerate(h5):
        incs = [x for x in names[3:] if rng.random() < 0.45] or [names[-1]]
        comps = [c for x in incs for k, c in specs[x]["items"] if k in ("iaf_cells", "izhikevich_cells")] or ["nocell"]
        syns = [c for x in incs for k, c in specs[x]["items"] if k == "exp_one_synapses"] or ["nosyn"]
        pgs = [c for x in incs for k, c in specs[x]["items"] if k == "pulse_generators"] or ["nopg"]
        specs[hn] = {"name": hn, "kind": "h5", "items": [["pulse_generators", "hpg%d" % j]], "includes": incs,
                     "annotation": rng.random() < 0.6, "net": gen_net(rng, "h%d" % j, comps, syns, pgs)}
    for j, xn in enumerate(["netx.nml", "nety.nml"]):
        incs = [x for x in names[3:] if rng.random() < 0.45] or [names[-1]]
        comps = [c for x in incs for k, c in specs[x]["items"] if k in ("iaf_cells", "izhikevich_cells")] or ["nocell"]
        syns = [c for x in incs for k, c in specs[x]["items"] if k == "exp_one_synapses"] or ["nosyn"]
        pgs = [c for x in incs for k, c in specs[x]["items"] if k == "pulse_generators"] or ["nopg"]
        specs[xn] = {"name": xn, "kind": "xml", "items": [["pulse_generators", "xpg%d" % j]], "includes": incs,
                     "annotation": rng.random() < 0.6, "net": gen_net(rng, "x%d" % j, comps, syns, pgs)}
    pool += [specs[n] for n in names + h5 + ["netx.nml", "nety.nml"]]
    pool.append({"name": "sub/bad_broken.nml", "kind": "xml", "raw": "<neuroml><iafCell id=", "items": [], "includes": [],
                 "model_kind": "FH5"})
    pool.append({"name": "sub/s0.nml", "kind": "xml", "items": [["iaf_cells", "cs0"]], "includes": [names[-1], "w_rcell.nml"]})
    pool.append({"name": "bad_ext.nml", "kind": "xml", "items": [["iaf_cells", "cb"]], "includes": [names[-1], "notes.txt"]})
    pool.append({"name": "bad_missing.nml", "kind": "xml", "items": [["iaf_cells", "cm"]], "includes": [names[-2], "nonexistent.nml"]})
    return pool


def gen_calls(rng, pool):
    calls = []
    names = {f["name"] for f in pool}
    for f in pool:
        n = f["name"]
        if n.endswith(".swc"):
            continue
        if f["kind"] == "rawh5":
            calls += [{"ep": "h5", "name": n}, {"ep": "file", "name": n, "incl": True}, {"ep": "h5_noprops", "name": n}]
        elif f["kind"] == "h5":
            if f.get("net"):
                calls.append({"ep": "h5_noprops", "name": n})
            calls += [{"ep": "h5", "name": n}, {"ep": "h5", "name": n, "opt": True}, {"ep": "h5", "name": n, "opt": True, "use": True},
                      {"ep": "file", "name": n, "incl": True}, {"ep": "file", "name": n, "incl": False, "opt": True},
                      {"ep": "inner_path", "name": n, "incl": True}]
        else:
            calls += [{"ep": "file", "name": n, "incl": True}, {"ep": "file", "name": n, "incl": False},
                      {"ep": "string", "name": n, "incl": True}, {"ep": "string", "name": n, "incl": False},
                      {"ep": "xml", "name": n}, {"ep": "inner_path", "name": n, "incl": True},
                      {"ep": "inner_str", "name": n, "incl": True}]
            if "/" in n and any(i not in names for i in f.get("includes", [])):
                # includes that only exist next to the file: a string load (base path = pool root) cannot resolve them
                calls = [c for c in calls if not (c["name"] == n and c["ep"] in ("string", "inner_str") and c["incl"])]
            elif f.get("includes"):
                some = [x for x in f["includes"] if rng.random() < 0.5]
                calls.append({"ep": "file", "name": n, "incl": True, "ai": some})
                calls.append({"ep": "string", "name": n, "incl": True, "ai": some})
            if f.get("net"):
                calls.append({"ep": "xmlparser", "name": n})
                calls.append({"ep": "xmlparser_oldapi", "name": n})
            if "/" not in n:
                calls.append({"ep": "file", "name": n, "incl": True, "rel": True})
                calls.append({"ep": "string", "name": n, "incl": True, "base": "none"})
                calls.append({"ep": "inner_path", "name": n, "incl": True, "rel": True})
    only = {f["name"]: f["only_eps"] for f in pool if f.get("only_eps")}
    calls = [c for c in calls if c["name"] not in only or c["ep"] in only[c["name"]]]
    noopt = {f["name"] for f in pool if f.get("no_opt")}      # the optimized route has no builder: it does not fail on these files
    calls = [c for c in calls if not (c["name"] in noopt and c.get("opt"))]
    calls.append({"ep": "file", "name": "nonexistent_top.nml", "incl": True})
    calls.append({"ep": "file", "name": "nonexistent_top.nml", "incl": True, "rel": True})
    calls.append({"ep": "h5", "name": "nonexistent_top.nml.h5"})
    return calls


def call_weight(c):
    w = 3 if (c.get("incl") or c["ep"] in ("h5", "xmlparser")) else 1
    if c["name"].startswith("bad_") or "broken" in c["name"] or "nonexistent" in c["name"] or "morph" in c["name"]:
        w = 1
    return w


def gen_histories(rng, calls, n):
    hs = []
    weights = [call_weight(c) for c in calls]
    for _ in range(n):
        r = rng.random()
        if r < 0.2:
            c = rng.choices(range(len(calls)), weights)[0]
            hs.append([c] * rng.choice([2, 3]))
        elif r < 0.35:
            a, c = rng.choices(range(len(calls)), weights, k=2)
            hs.append([a, c, a, c])
        else:
            hs.append(rng.choices(range(len(calls)), weights, k=rng.randint(2, 6)))
    return hs


def resolve_include(names, fname, href):
    """os.path.exists(href) (cwd = pool root) wins, else the folder of the including file"""
    if href in names or os.path.dirname(fname) == "":
        return href
    return os.path.normpath(os.path.join(os.path.dirname(fname), href))


def model_fs(d, pool):
    ents = []
    names = {f["name"] for f in pool}
    for f in pool:
        ents.append("(%s, {| f_kind := %s; f_includes := %s; f_items := %s; f_net := %s |})" % (
            coq_str(os.path.join(d, f["name"])), f.get("model_kind") or ("FH5" if f["kind"] == "h5" else "FXml"),
            coq_list([coq_str(os.path.join(d, resolve_include(names, f["name"], i))) for i in f.get("includes", [])]),
            coq_list([coq_str("%s:%s" % (k, c)) for k, c in f.get("items", [])] +
                     ([coq_str("networks:" + f["net"]["id"])] if f.get("net") and f["kind"] == "xml" else [])),
            coq_list([coq_str("networks:" + f["net"]["id"])] if f.get("net") and f["kind"] == "h5" else [])))
    return coq_list(ents).replace("); (", ");\n  (")


def model_call(d, c):
    p = coq_str(os.path.join(d, c.get("cwd", ""), c["name"]))
    ai = "None" if c.get("ai") is None else "(Some %s)" % coq_list([coq_str(os.path.join(d, a)) for a in c["ai"]])
    ep = c["ep"]
    if ep == "file":
        return "CFile %s %s %s" % (p, b(c["incl"]), ai)
    if ep == "string":
        return "CString %s %s %s" % (p, b(c["incl"]), ai)
    if ep == "inner_path":
        return "CInner (SPath %s) %s %s" % (p, b(c["incl"]), ai)
    if ep == "inner_str":
        return "CInner (SStr %s) %s %s" % (p, b(c["incl"]), ai)
    if ep == "h5":
        return "CLoadH5 %s" % p
    if ep == "xml":
        return "CLoadXml %s" % p
    if ep in ("xmlparser", "xmlparser_oldapi"):
        return "CFile %s true (Some [])" % p
    if ep == "h5_noprops":
        return "CLoadH5 %s" % p
    raise ValueError(ep)


def impl_res_term(r, c=None):
    if c is not None and c["ep"] == "h5_noprops" and r.get("ok"):
        return "None"      # no document is built: the model only threads the state through (see agree_all)
    return "(Some %s)" % ("(Some %s)" % coq_list([coq_str(x) for x in r["items"]]) if r.get("ok") else "None")


def classify_hist_diff(fresh, got):
    if fresh.get("ok") and not got.get("ok"):
        return "raises-only-after-other-loads"
    if got.get("ok") and not fresh.get("ok"):
        return "raises-only-in-a-fresh-process"
    if not fresh.get("ok"):
        return "exception-differs" if fresh.get("err") != got.get("err") else None
    if fresh["items"] != got["items"]:
        fi, gi = set(fresh["items"]), set(got["items"])
        return "included-components-missing" if gi < fi else "components-differ"
    if fresh.get("includes") != got.get("includes"):
        return "includes-differ"
    if fresh.get("types") != got.get("types"):
        return "component-types-differ"
    if fresh.get("defs") != got.get("defs"):
        return "component-definitions-differ"
    if fresh.get("handler_calls") != got.get("handler_calls"):
        return "handler-calls-differ"
    if fresh.get("meta") != got.get("meta"):
        return "document-attributes-differ"
    if fresh.get("nets") != got.get("nets"):
        # the index tables of default-constructed optimized lists are part of the returned document
        return "optimized-list-index-table-differs" if _without_indices(fresh["nets"]) == _without_indices(got["nets"]) \
            else "network-structure-differs"
    if fresh.get("handler") != got.get("handler"):
        return "handler-document-differs"
    return None


def _without_indices(nets):
    out = json.loads(json.dumps(nets))
    for n in out:
        for lst in (n["pops"], n["projs"], n["ilists"]):
            for e in lst:
                while e and isinstance(e[-1], dict) and "indices" in e[-1]:
                    e.pop()
    return out


def run_histories(ck, d, tmp, modes_known, pi=0):
    rng = ck.rng
    pool = gen_pool(rng, ck.n(7, 10))
    calls = gen_calls(rng, pool)
    idx = {json.dumps(c, sort_keys=True): i for i, c in enumerate(calls)}
    hists = []
    for what, h in W_HIST:
        for c in h:
            k = json.dumps(c, sort_keys=True)
            if k not in idx:
                idx[k] = len(calls)
                calls.append(c)
        hists.append([idx[json.dumps(c, sort_keys=True)] for c in h])
    hists += gen_histories(rng, calls, ck.n(45, 400))
    used = sorted({i for h in hists for i in h})
    jobs = [{"kind": "history", "calls": [calls[i]]} for i in used] + \
           [{"kind": "history", "calls": [calls[i] for i in h]} for h in hists]
    if pi == 0:
        jobs.append({"kind": "warnings_probe", "good": "w_cell.nml", "broken": "sub/w_broken.nml", "swc": "w_swc.swc"})
    out = ck.impl("c07_impl.py", {"dir": tmp, "pool": pool, "jobs": jobs}, timeout=ck.n(300, 1500))
    if pi == 0:
        probe_warnings(ck, out["jobs"].pop()["value"])
    if not out.get("pool", {}).get("ok"):
        raise RuntimeError("pool writing failed: %s" % json.dumps(out.get("pool"))[:1500])
    fresh = {}
    for i, j in zip(used, out["jobs"][:len(used)]):
        if not j.get("ok"):
            raise RuntimeError("fresh run failed: %s" % json.dumps(j)[:1500])
        fresh[i] = j["value"]["results"][0]
    hres = []
    for h, j in zip(hists, out["jobs"][len(used):]):
        if not j.get("ok"):
            raise RuntimeError("history run failed: %s" % json.dumps(j)[:1500])
        hres.append(j["value"]["results"])
    # ---- property predicate on the implementation: every call of every history == the same call in a fresh process
    nw = 0
    seen_proc = set()
    for hi, (h, rs) in enumerate(zip(hists, hres)):
        for pos, (ci, r) in enumerate(zip(h, rs)):
            c = calls[ci]
            nontriv = pos > 0 and (c.get("incl") or c["ep"] in ("h5", "xmlparser") or c["name"].endswith(".h5"))
            ck.count(1, nontrivial_key=("hist", [calls[x] for x in h[:pos + 1]]) if nontriv else None,
                     sample={"history": [calls[x] for x in h], "position": pos} if pi == 0 and hi == len(W_HIST) and pos == 1 else None)
            ck.tally("history-call:" + c["ep"] + (":includes" if c.get("incl") else ""))
            for chg in r.get("process_state_changed", []):
                key = proc_key(chg, c)
                if key in seen_proc:
                    continue
                seen_proc.add(key)
                nw += 1
                ck.witness(key, "a loader call changed process-global state and did not restore it: %s%s (%s)"
                           % (chg["what"], " after a failing call" if chg.get("after_failure") else "", chg.get("how", "")),
                           input={"kind": "history", "pool": prune_pool(pool, [calls[x] for x in h[:pos + 1]]),
                                  "calls": [calls[x] for x in h[:pos + 1]], "invariant": "process-state"},
                           expected={"process_state_changed": []}, observed={"process_state_changed": [chg]},
                           broken="Inst_C07_process.v:process_state_ok")
            for chg in r.get("class_metadata_changed", []):
                nw += 1
                ck.witness("C07:class-metadata-changed:" + chg["what"].split("[")[0],
                           "a loader call changed class-level metadata of the bindings at run time: %s went from length %s to %s"
                           % (chg["what"], chg["before_len"], chg["after_len"]),
                           input={"kind": "history", "pool": prune_pool(pool, [calls[x] for x in h[:pos + 1]]),
                                  "calls": [calls[x] for x in h[:pos + 1]], "invariant": "class-metadata"},
                           expected={"class_metadata_changed": []}, observed={"class_metadata_changed": r["class_metadata_changed"]},
                           broken="Inst_C07_classmeta.v:classmeta_ok")
            if r.get("changed_by_later_calls"):
                nw += 1
                ck.witness("C07:history:earlier-result-changed-by-later-call:%s" % (c["ep"] + ("-optimized" if c.get("opt") else "")),
                           "the document returned by call %d of a history is no longer what it was when it was returned, after the "
                           "later calls of the history ran (parts: %s)%s"
                           % (pos + 1, sorted(r["changed_by_later_calls"]), ": " + W_HIST[hi][0] if hi < len(W_HIST) else ""),
                           input={"kind": "history", "pool": prune_pool(pool, [calls[x] for x in h]),
                                  "calls": [calls[x] for x in h], "invariant": "returned-documents", "position": pos},
                           expected={"changed_by_later_calls": {}}, observed={"changed_by_later_calls": r["changed_by_later_calls"]},
                           broken="Inst_C07_fields.v:fields_ok")
            cls = classify_hist_diff(fresh[ci], r)
            if cls:
                nw += 1
                ck.witness("C07:history:%s:%s" % (c["ep"] + ("-optimized" if c.get("opt") else ""), cls),
                           "call %d of a history returns a different document than the same call in a fresh process (%s)%s"
                           % (pos + 1, cls, ": " + W_HIST[hi][0] if hi < len(W_HIST) else ""),
                           input={"kind": "history", "pool": prune_pool(pool, [calls[x] for x in h[:pos + 1]]),
                                  "calls": [calls[x] for x in h[:pos + 1]]},
                           expected=brief(fresh[ci]), observed=brief(r),
                           broken="Inst_C07_classmeta.v:classmeta_ok" if cls.startswith("raises-only") else "Inst_C07_defaults.v:defaults_ok")
        ck.tally("history-length:%d" % len(h))
    ck.extra["history_positions_differing_from_fresh"] = ck.extra.get("history_positions_differing_from_fresh", 0) + nw
    ck.extra["distinct_loader_calls"] = ck.extra.get("distinct_loader_calls", 0) + len(used)
    ck.extra["histories"] = ck.extra.get("histories", 0) + len(hists)
    ck.extra["file_pools"] = pi + 1
    # ---- the Coq loader model on the same histories (modes of the generated table)
    if modes_known:
        chunk = 250
        for k in range(0, len(hists), chunk):
            part = list(zip(hists, hres))[k:k + chunk]
            lines = [HEAD, "Definition fs : fstore :=\n  %s." % model_fs(tmp, pool),
                     "Definition ms := modes_of Gen_C07.table.",
                     "Fixpoint agree_all (m : list res) (i : list (option (option (list string)))) : bool :=\n"
                     "  match m, i with [], [] => true | _ :: m', None :: i' => agree_all m' i'\n"
                     "  | a :: m', Some b :: i' => res_agrees a b && agree_all m' i' | _, _ => false end.",
                     "Definition chk (h : list lcall) (i : list (option (option (list string)))) : bool :=\n"
                     "  agree_all (results cell (list string) lcall res (exec_call 60 ms Gen_C07.shape fs) h w_empty) i."]
            terms = []
            for h, rs in part:
                terms.append("chk %s %s" % (coq_list([model_call(tmp, calls[x]) for x in h]),
                                            coq_list([impl_res_term(r, calls[x]) for r, x in zip(rs, h)])))
            lines.append("Eval vm_compute in (mismatches %s)." % coq_list(terms).replace("; chk", ";\n  chk"))
            ok, res, o = ck.coq_eval("Cases_C07_hist_%d_%d.v" % (pi, k // chunk), "\n".join(lines) + "\n")
            ck.oblige("correspondence:loader-model:%d:%d" % (pi, k // chunk), ok, o[-1500:], kind="correspondence")
            if ok:
                bad = parse_nat_list(res[0]) if res else []
                for bi in bad[:5]:
                    h, rs = part[bi]
                    ck.disagree("State.exec_call (loaders)", {"calls": [calls[x] for x in h]},
                                "see Cases_C07_hist_%d_%d.v case %d" % (pi, k // chunk, bi), [brief(r) for r in rs])
                ck.extra["loader_model_cases"] = ck.extra.get("loader_model_cases", 0) + len(part)
    return pool


K_RESET = "C07:process-state:warnings-filters-reset-by-load"
K_IGNORE = "C07:process-state:warnings-ignore-filter-left-by-failed-load"


def proc_key(chg, c):
    if chg["what"] == "warnings-filters" and chg.get("how") == "emptied":
        return K_RESET
    if chg["what"] == "warnings-filters" and chg.get("how") == "ignore-left":
        return K_IGNORE
    what = chg["what"] if chg["what"] != "module-variables" else "module-variable:" + ",".join(chg.get("names", [])[:2])
    return "C07:process-state:%s-changed-by:%s%s" % (what, c["ep"], ":after-failure" if chg.get("after_failure") else "")


def probe_warnings(ck, pr):
    """the behavioural confirmation of the two recorded findings: a LATER loader call (SWCLoader.load_swc_single, which
    announces its deprecation with a FutureWarning) behaves differently under the user's `error` filter"""
    f, a, x = (pr[k].get("value") or {} for k in ("fresh", "after_load", "after_failed_load"))
    ck.extra["warnings_probe"] = {"fresh": f, "after_load": a, "after_failed_load": x}
    ck.count(1, nontrivial_key=("warnings-probe",))
    if f.get("swc", "").startswith("raised") and a.get("swc", "").startswith("returned"):
        ck.witness(K_RESET, "with warnings.simplefilter('error') installed by the user, SWCLoader.load_swc_single raises FutureWarning "
                   "in a fresh process but returns a morphology after any read_neuroml2_file call: the load's "
                   "warnings.resetwarnings() removed every filter", input={"kind": "warnings_probe"},
                   expected={"swc": f.get("swc")}, observed=a, broken="Inst_C07_process.v:process_state_ok")
    if f.get("swc", "").startswith("raised") and x.get("swc", "").startswith("returned") and x.get("first_filter") == "ignore":
        ck.witness(K_IGNORE, "after a read_neuroml2_string call that FAILED (malformed XML) the loader's simplefilter('ignore') stays "
                   "installed in front of the user's filters: SWCLoader.load_swc_single no longer raises", input={"kind": "warnings_probe"},
                   expected={"swc": f.get("swc")}, observed=x, broken="Inst_C07_process.v:process_state_ok")


def _call_file(c):
    return os.path.normpath(os.path.join(c.get("cwd", ""), c["name"]))


def prune_pool(pool, calls):
    byname = {f["name"]: f for f in pool}
    need, todo = set(), [_call_file(c) for c in calls]
    while todo:
        n = todo.pop()
        if n in need or n not in byname:
            continue
        need.add(n)
        todo += [resolve_include(set(byname), n, i) for i in byname[n].get("includes", [])] + byname[n].get("includes", [])
    return [f for f in pool if f["name"] in need]


def brief(r):
    if not r.get("ok"):
        return {"raised": r.get("err"), "message": r.get("msg")}
    out = {"items": r["items"], "meta": r.get("meta")}
    if r.get("includes"):
        out["includes"] = r["includes"]
    if r.get("nets"):
        out["nets"] = r["nets"]
    if r.get("handler"):
        out["handler_items"] = r["handler"]["items"]
    return out


def parse_nat_list(s):
    s = s.strip()
    if s in ("[]", "nil"):
        return []
    return [int(x) for x in s.strip("[]").replace("%nat", "").split(";") if x.strip()]


# --------------------------------------------------------------------------------------- (b) schedules
def gen_stream(rng, tag):
    ops = []
    r = rng.random()
    if r < 0.9:
        ops.append(["doc", "doc" + tag])
    if r < 0.95:
        ops.append(["net", "net" + tag])
    pops = rng.sample(["p0", "p1", "p2"], rng.choice([1, 2, 2, 3]))
    body = []
    for p in pops:
        size = rng.randint(1, 3)
        body.append(["pop", p, "cell" + tag + p, size])
        mode = rng.random()
        for i in range(size):
            if mode < 0.45:
                body.append(["loc", i, p, rng.randint(0, 9), rng.randint(0, 9), rng.randint(-5, 5)])
            elif mode < 0.65:
                body.append(["loc", i, p, None, None, None])
    kinds = ["projection", "electricalProjection", "continuousProjection"]
    for k in range(rng.choice([0, 1, 1, 2])):
        pid = "pr%d" % rng.randrange(2)
        pre = rng.choice(pops + (["pX"] if rng.random() < 0.08 else []))
        post = rng.choice(pops)
        kind = rng.choice(kinds)
        syn = "syn" + tag
        body.append(["proj", pid, pre, post, syn, kind, rng.random() < 0.3, rng.random() < 0.3,
                     ("pre" + tag + pid if rng.random() < 0.5 else "preShared") if rng.random() < 0.3 else None])
        for cid in range(rng.randint(0, 3)):
            body.append(["conn", pid if rng.random() < 0.93 else "prX", cid, pre, post, rng.randrange(3), rng.randrange(3),
                         rng.choice([0, 0, 5]), rng.choice([1, 1, 1, 2])])
        if rng.random() < 0.8:
            body.append(["fin", pid, pre, post, syn, kind if rng.random() < 0.6 else None])
    if rng.random() < 0.25:
        body.append(["fin", "pr%d" % rng.randrange(3), rng.choice(pops), rng.choice(pops), "syn" + tag,
                     rng.choice(kinds + [None])])
    for k in range(rng.choice([0, 1, 1])):
        lid = "il%d" % rng.randrange(2)
        pop = rng.choice(pops + (["pX"] if rng.random() < 0.08 else []))
        body.append(["il", lid, pop, "pg" + tag])
        for i in range(rng.randint(0, 3)):
            body.append(["inp", lid if rng.random() < 0.93 else "ilX", i, rng.randrange(3), rng.choice([1, 1, 2])])
    if rng.random() < 0.2:
        rng.shuffle(body)
    if rng.random() < 0.06:
        body.insert(rng.randrange(len(body) + 1), ["net", "net2" + tag])
    if rng.random() < 0.04:
        body.insert(rng.randrange(len(body) + 1), ["doc", "doc2" + tag])
    return ops + body


def merge(rng, sa, sb, order):
    a = [["A", o] for o in sa]
    c = [["B", o] for o in sb]
    if order == "ab":
        return a + c
    if order == "ba":
        return c + a
    if order == "binside":
        h = rng.randint(1, max(1, len(a) - 1))
        return a[:h] + c + a[h:]
    if order == "alt":
        out = []
        for i in range(max(len(a), len(c))):
            out += a[i:i + 1] + c[i:i + 1]
        return out
    out, ia, ic = [], 0, 0
    while ia < len(a) or ic < len(c):
        if ic >= len(c) or (ia < len(a) and rng.random() < 0.5):
            out.append(a[ia])
            ia += 1
        else:
            out.append(c[ic])
            ic += 1
    return out


def op_term(o):
    k = o[0]
    s = coq_str
    if k == "doc":
        return "OpDocStart %s" % s(o[1])
    if k == "net":
        return "OpNetwork %s" % s(o[1])
    if k == "pop":
        return "OpPopulation %s %s %s" % (s(o[1]), s(o[2]), coq_z(o[3]))
    if k == "loc":
        xyz = "None" if o[3] is None else "(Some (%s, %s, %s))" % (coq_z(o[3]), coq_z(o[4]), coq_z(o[5]))
        return "OpLocation %s %s %s" % (coq_z(o[1]), s(o[2]), xyz)
    pk = {"projection": "PProj", "electricalProjection": "PElec", "continuousProjection": "PCont"}
    if k == "proj":
        pre = "None" if len(o) <= 8 or o[8] is None else "(Some %s)" % s(o[8])
        return "OpProjection %s %s %s %s %s %s %s %s" % (s(o[1]), s(o[2]), s(o[3]), s(o[4]), pk[o[5]], b(o[6]), b(o[7]), pre)
    if k == "conn":
        return "OpConnection %s %s %s %s %s %s %s %s" % (s(o[1]), coq_z(o[2]), s(o[3]), s(o[4]), coq_z(o[5]), coq_z(o[6]),
                                                         coq_z(o[7]), coq_z(o[8]))
    if k == "il":
        return "OpInputList %s %s %s" % (s(o[1]), s(o[2]), s(o[3]))
    if k == "inp":
        return "OpSingleInput %s %s %s %s" % (s(o[1]), coq_z(o[2]), coq_z(o[3]), coq_z(o[4]))
    if k == "fin":
        return "OpFinalise %s %s %s %s %s" % (s(o[1]), s(o[2]), s(o[3]), s(o[4]), "None" if o[5] is None else "(Some %s)" % pk[o[5]])
    raise ValueError(k)


def dump_term(dmp):
    recs = coq_list(["(%s, %s, %s)" % (coq_str(t), coq_list([coq_str(x) for x in ss]), coq_list([coq_z(int(z)) for z in zz]))
                     for t, ss, zz in dmp["dump"]])
    return "(%s, %s)" % (recs, coq_list([b(x) for x in dmp["raised"]]))


def first_diff(a, c):
    for i, (x, y) in enumerate(zip(a, c)):
        if x != y:
            return {"line": i, "solo": x, "interleaved": y}
    if len(a) != len(c):
        i = min(len(a), len(c))
        return {"line": i, "solo": a[i] if i < len(a) else None, "interleaved": c[i] if i < len(c) else None}
    return None


def directed_schedules():
    """one stored schedule per dict of NetworkBuilder: if that dict alone is shared, builder A's document differs from its
    solo run.  Shape: A's prefix, all of B, A's last call."""
    head = lambda t: [["doc", "doc" + t], ["net", "net" + t], ["pop", "p", "cell" + t, 2]]
    conn = ["conn", "pr", 0, "p", "p", 0, 1, 0, 1]
    cases = [
        ("populations", head("A") + [["loc", 0, "p", 1, 2, 3]], head("B")),
        ("projections", head("A") + [["proj", "pr", "p", "p", "synA", "projection", False, False, None], conn],
         head("B") + [["proj", "pr", "p", "p", "synB", "projection", False, False, None]]),
        ("projection_syns", head("A") + [["proj", "pr", "p", "p", "synA", "electricalProjection", False, False, None], conn],
         head("B") + [["proj", "pr", "p", "p", "synB", "electricalProjection", False, False, None]]),
        ("projection_types", head("A") + [["proj", "pr", "p", "p", "synA", "projection", False, False, None],
                                          ["fin", "pr", "p", "p", "synA", None]],
         head("B") + [["proj", "pr", "p", "p", "synB", "electricalProjection", False, False, None]]),
        ("projection_syns_pre", head("A") + [["proj", "pr", "p", "p", "synA", "continuousProjection", False, False, "preA"], conn],
         head("B") + [["proj", "pr", "p", "p", "synB", "continuousProjection", False, False, "preB"]]),
        ("input_lists", head("A") + [["il", "il0", "p", "pgA"], ["inp", "il0", 0, 1, 1]],
         head("B") + [["il", "il0", "p", "pgB"]]),
        # A's projection carries weights/delays, B's does not; A's connection has weight 1 and delay 0
        ("weightDelays", head("A") + [["proj", "pr", "p", "p", "synA", "projection", True, True, None], conn],
         head("B") + [["proj", "pr", "p", "p", "synB", "projection", False, False, None]]),
    ]
    out = []
    for name, sa, sb in cases:
        sched = [["A", o] for o in sa[:-1]] + [["B", o] for o in sb] + [["A", sa[-1]]]
        out.append((name, sa, sb, sched))
    return out


# ---- objects handed to the handlers as arguments: component_obj, synapse_obj, pre_synapse_obj, input_comp_obj
def op_refs(o):
    return o[-1] if isinstance(o[-1], dict) else {}


def gen_obj_stream(rng, tag):
    """a well-formed handler stream whose object-valued arguments are drawn from a small set of named objects; the names that do
    not carry the tag are common to both streams, so the two builders of a schedule receive the identical Python object"""
    cells = ["iaf_cells:cellS0", "izhikevich_cells:cellS1", "iaf_cells:cell" + tag]
    ops = [["doc", "doc" + tag], ["net", "net" + tag]]
    pops = rng.sample(["p0", "p1", "p2"], rng.choice([1, 2, 2, 3]))
    for p in pops:
        ref = rng.choice(cells)
        size = rng.randint(1, 2)
        ops.append(["pop", p, ref.split(":")[1], size] + ([{"component_obj": ref}] if rng.random() < 0.85 else []))
        if rng.random() < 0.4:
            ops += [["loc", i, p, rng.randint(0, 9), rng.randint(0, 9), 0] for i in range(size)]
    for k in range(rng.choice([0, 1, 1, 2])):
        pid = "pr%d" % k
        pre, post = rng.choice(pops), rng.choice(pops)
        kind = rng.choice(["projection", "electricalProjection", "continuousProjection", "continuousProjection"])
        syn = rng.choice(["exp_one_synapses:synS", "exp_one_synapses:syn" + tag])
        refs = {}
        if rng.random() < 0.8:
            refs["synapse_obj"] = syn
        if kind == "continuousProjection" and rng.random() < 0.7:
            refs["pre_synapse_obj"] = rng.choice(["silent:preS", "silent:pre" + tag])
        wd = rng.random() < 0.5
        ops.append(["proj", pid, pre, post, syn.split(":")[1], kind, wd, wd, None] + ([refs] if refs else []))
        for cid in range(rng.randint(0, 2)):
            # equal numbers of different types: the delay string of a connection is "%sms" % delay
            ops.append(["conn", pid, cid, pre, post, 0, 0, rng.choice([0, 0.0, 5, 5.0, -0.0]), rng.choice([1, 1, 2])])
        if rng.random() < 0.7:
            ops.append(["fin", pid, pre, post, syn.split(":")[1], kind])
    for k in range(rng.choice([0, 1, 1])):
        ref = rng.choice(["pulse_generators:pgS", "pulse_generators:pg" + tag])
        ops.append(["il", "il%d" % k, rng.choice(pops), ref.split(":")[1]] + ([{"input_comp_obj": ref}] if rng.random() < 0.85 else []))
        ops += [["inp", "il%d" % k, i, 0, 1] for i in range(rng.randint(0, 2))]
    return ops


def directed_object_schedules():
    """stored schedules (run first, every run): the SAME object as component_obj / synapse_obj / pre_synapse_obj / input_comp_obj of
    two builders - one after the other, and B's calls inside A's - and as the component of two populations of one builder"""
    head = lambda t: [["doc", "doc" + t], ["net", "net" + t]]
    pop = lambda pid: ["pop", pid, "cellS", 2, {"component_obj": "iaf_cells:cellS"}]
    plain = ["pop", "p", "cellX", 1]
    proj = lambda kind, refs: ["proj", "pr", "p", "p", "synS", kind, False, False, None, refs]
    il = ["il", "il0", "p", "pgS", {"input_comp_obj": "pulse_generators:pgS"}]
    bodies = [
        ("component_obj", [pop("p")], [pop("p")]),
        ("component_obj-two-populations", [pop("p0"), pop("p1")], [pop("q0"), pop("q1")]),
        ("synapse_obj", [plain, proj("projection", {"synapse_obj": "exp_one_synapses:synS"})],
         [plain, proj("electricalProjection", {"synapse_obj": "exp_one_synapses:synS"})]),
        ("pre_synapse_obj", [plain, proj("continuousProjection", {"synapse_obj": "exp_one_synapses:synS", "pre_synapse_obj": "silent:preS"})],
         [plain, proj("continuousProjection", {"pre_synapse_obj": "silent:preS"})]),
        ("input_comp_obj", [plain, il], [plain, il]),
    ]
    # equal delay values of different types (0 / 0.0): what one builder formats must not decide what the other writes
    wproj = ["proj", "pr", "p", "p", "synX", "projection", True, True, None]
    bodies.append(("value-types:delay", [plain, wproj, ["conn", "pr", 0, "p", "p", 0, 0, 0, 1]],
                   [plain, wproj, ["conn", "pr", 0, "p", "p", 0, 0, 0.0, 1], ["conn", "pr", 1, "p", "p", 0, 0, -0.0, 1]]))
    out = []
    for name, ba, bb in bodies:
        sa, sb = head("A") + ba, head("B") + bb
        out.append((name + ":sequential", sa, sb, [["A", o] for o in sa] + [["B", o] for o in sb]))
        out.append((name + ":interleaved", sa, sb, [["A", o] for o in sa[:2]] + [["B", o] for o in sb] + [["A", o] for o in sa[2:]]))
    return out


def check_object_schedules(ck, streams, scheds, solo, sres):
    nbad = 0
    seen_w = set()

    def writes(rs, sched, who):
        for wr in rs.get("argument_writes", []):
            key = "C07:interleave:handler-writes-argument-object:%s.%s.%s" % (wr["handler"], wr["param"], wr["attr"])
            if key in seen_w:
                continue
            seen_w.add(key)
            ck.witness(key, "NetworkBuilder.%s changed the object it received as `%s`: attribute `%s` %s (%s -> %s); the object "
                       "belongs to the caller and is seen by every other handler it is passed to"
                       % (wr["handler"], wr["param"], wr["attr"], wr["change"], wr["before"], wr["after"]),
                       input={"kind": "schedule", "sched": sched, "builder": who, "invariant": "argument-objects"},
                       expected={"argument_writes": []}, observed={"argument_writes": [wr]},
                       broken="Inst_C07_argwrites.v:argument_writes_ok")

    for si, (ops, r) in enumerate(zip(streams, solo)):
        writes(r, [["A", o] for o in ops], "A")
        r.pop("argument_writes", None)      # reported above; the documents are compared below
    for (ia, ib, order, sched), r in zip(scheds, sres):
        ra = {v for o in streams[ia] for v in op_refs(o).values()}
        rb = {v for o in streams[ib] for v in op_refs(o).values()}
        ck.count(1, nontrivial_key=("osched", sched) if ra & rb else None,
                 sample={"schedule_with_shared_argument_objects": sched} if order == "alt" and ia == scheds[-1][0] else None)
        ck.tally("object-schedule-order:" + (order if not order.startswith("stored:") else "stored"))
        ck.tally("object-schedule:shared-objects:%d" % len(ra & rb))
        writes(r, sched, "A")
        for w, si in (("A", ia), ("B", ib)):
            if r[w] != solo[si]:
                nbad += 1
                sdiff = first_diff(solo[si]["dump"], r[w]["dump"])
                vt = order.startswith("stored:value-types") or not (ra & rb)
                ck.witness(("C07:interleave:cross-builder-state" if vt else "C07:interleave:shared-argument-object")
                           + (":" + order.split(":", 1)[1] if order.startswith("stored:") else ""),
                           ("two builders active in one process: builder %s ends with a different document than when its handler "
                            "calls run alone in a fresh process (no object is shared between them)" % w) if vt else
                           "two builders were handed the SAME Python object(s) as object-valued handler argument(s) %s: builder %s "
                           "ends with a different document than when its handler calls run alone (fresh process, freshly built, "
                           "equal objects)" % (sorted(ra & rb), w),
                           input={"kind": "schedule", "sched": sched, "builder": w},
                           expected={"solo": solo[si]},
                           observed={"with_shared_objects": r[w], "components_missing": sorted(set(solo[si]["components"]) - set(r[w]["components"])),
                                     "components_extra": sorted(set(r[w]["components"]) - set(solo[si]["components"])),
                                     "first_difference": sdiff},
                           broken="Inst_C07_globals.v:globals_ok" if vt else "Inst_C07_argwrites.v:argument_writes_ok")
    ck.extra["object_schedules"] = len(scheds)
    ck.extra["object_schedule_views_differing_from_solo"] = nbad


def run_schedules(ck, tmp, pool, placement_known):
    rng = ck.rng
    npairs = ck.n(14, 320)
    streams, scheds = [], []
    # the stored witness first
    wa = [["doc", "docA"], ["net", "netA"], ["pop", "p", "cellA", 1], ["loc", 0, "p", 1, 2, 3]]
    wb = [["doc", "docB"], ["net", "netB"], ["pop", "p", "cellB", 1]]
    streams += [wa, wb]
    scheds.append((0, 1, "stored", [["A", wa[0]], ["A", wa[1]], ["A", wa[2]], ["B", wb[0]], ["B", wb[1]], ["B", wb[2]], ["A", wa[3]]]))
    for name, sa, sb, sched in directed_schedules():
        ia = len(streams)
        streams += [sa, sb]
        scheds.append((ia, ia + 1, "stored:" + name, sched))
    for _ in range(npairs):
        sa, sb = gen_stream(rng, "A"), gen_stream(rng, "B")
        ia = len(streams)
        streams += [sa, sb]
        for order in ["alt", "ab", "binside", "rand"] + (["ba", "rand"] if ck.tier == "thorough" else []):
            scheds.append((ia, ia + 1, order, merge(rng, sa, sb, order)))
    # parser-driven pairs over the pool files that carry a network
    netfiles = [f["name"] for f in pool if f.get("net") and not f["name"].startswith("w_")]
    ppairs = []
    for i in range(ck.n(4, 30)):
        fa, fb = rng.sample(netfiles, 2) if rng.random() < 0.8 else [rng.choice(netfiles)] * 2
        order = rng.choice(["alt", "ab", "binside", [rng.randrange(2) for _ in range(60)]])
        ppairs.append((fa, fb, order))
    # schedules in which both builders receive the same objects as component_obj / synapse_obj / pre_synapse_obj / input_comp_obj
    ostreams, oscheds = [], []
    for name, sa, sb, sched in directed_object_schedules():
        ia = len(ostreams)
        ostreams += [sa, sb]
        oscheds.append((ia, ia + 1, "stored:" + name, sched))
    for _ in range(ck.n(10, 220)):
        sa, sb = gen_obj_stream(rng, "A"), gen_obj_stream(rng, "B")
        ia = len(ostreams)
        ostreams += [sa, sb]
        for order in ["ab", "alt", "binside", "rand"] + (["ba", "rand"] if ck.tier == "thorough" else []):
            oscheds.append((ia, ia + 1, order, merge(rng, sa, sb, order)))
    jobs = [{"kind": "solo", "ops": s} for s in streams] + [{"kind": "schedule", "sched": s[3]} for s in scheds] + \
           [{"kind": "parser_solo", "file": f} for f in netfiles] + \
           [{"kind": "parser_sched", "fileA": fa, "fileB": fb, "order": o} for fa, fb, o in ppairs] + [{"kind": "optlist"}]
    njobs = len(jobs)
    jobs += [{"kind": "solo", "ops": s} for s in ostreams] + [{"kind": "schedule", "sched": s[3]} for s in oscheds]
    out = ck.impl("c07_impl.py", {"dir": tmp, "jobs": jobs}, timeout=ck.n(300, 1500))
    res = out["jobs"]
    for j in res:
        if not j.get("ok"):
            raise RuntimeError("schedule job failed: %s" % json.dumps(j)[:1500])
    ores = res[njobs:]
    res = res[:njobs]
    check_object_schedules(ck, ostreams, oscheds, [j["value"] for j in ores[:len(ostreams)]],
                           [j["value"] for j in ores[len(ostreams):]])
    solo = [j["value"] for j in res[:len(streams)]]
    sres = [j["value"] for j in res[len(streams):len(streams) + len(scheds)]]
    o = len(streams) + len(scheds)
    psolo = {f: j["value"] for f, j in zip(netfiles, res[o:o + len(netfiles)])}
    pres = [j["value"] for j in res[o + len(netfiles):o + len(netfiles) + len(ppairs)]]
    optl = res[-1]["value"]
    # ---- property predicate: each builder of a schedule == its solo run in a fresh process
    nbad = 0
    for (ia, ib, order, sched), r in zip(scheds, sres):
        shared_ids = {o2[1] for o2 in streams[ia] if o2[0] in ("pop", "proj", "il")} & \
                     {o2[1] for o2 in streams[ib] if o2[0] in ("pop", "proj", "il")}
        ck.count(1, nontrivial_key=("sched", sched) if shared_ids or order.startswith("stored") else None,
                 sample={"schedule": sched} if order == "alt" and ia == 2 else None)
        ck.tally("schedule-order:" + order.split(":")[0])
        ck.tally("schedule-length:%d" % (10 * (len(sched) // 10)))
        for w, si in (("A", ia), ("B", ib)):
            if r[w] != solo[si]:
                nbad += 1
                ck.witness("C07:interleave:shared-builder-dict" + (":" + order.split(":")[1] if order.startswith("stored:") else ""),
                           "builder %s of an interleaved pair ends with a different document than when its handler calls "
                           "run alone in a fresh process%s" % (w, " (directed schedule for the dict `%s`)" % order.split(":")[1]
                                                               if order.startswith("stored:") else ""),
                           input={"kind": "schedule", "sched": sched, "builder": w},
                           expected={"solo": solo[si]}, observed={"interleaved": r[w],
                                                                  "first_difference": first_diff(solo[si]["dump"], r[w]["dump"])},
                           broken="Inst_C07_fields.v:fields_ok")
    ck.extra["builder_views_differing_from_solo"] = nbad
    ck.extra["schedules"] = len(scheds)
    for (fa, fb, order), r in zip(ppairs, pres):
        ck.count(1, nontrivial_key=("psched", fa, fb, order),
                 sample={"parser_streams": [fa, fb], "order": order if isinstance(order, str) else "random"} if order == "alt" else None)
        ck.tally("parser-schedule:" + ("h5" if fa.endswith(".h5") else "xml") + "+" + ("h5" if fb.endswith(".h5") else "xml"))
        for w, f in (("A", fa), ("B", fb)):
            if r[w] != psolo[f]:
                ck.witness("C07:interleave-parsers:shared-builder-dict",
                           "two parser-driven builds (%s, %s) interleaved at handler granularity: builder %s differs from "
                           "its solo build" % (fa, fb, w),
                           input={"kind": "parser_sched", "pool": prune_pool(pool, [{"name": fa}, {"name": fb}]),
                                  "fileA": fa, "fileB": fb, "order": order, "builder": w},
                           expected={"solo": psolo[f]}, observed={"interleaved": r[w],
                                                                  "first_difference": first_diff(psolo[f]["dump"], r[w]["dump"])},
                           broken="Inst_C07_fields.v:fields_ok")
    # ---- (c) OptimizedList default dict
    ck.count(1, nontrivial_key=("optlist",), sample=None)
    if optl["second_list_indices_before_use"] or optl["same_object"] or optl["iterate_error"] or optl["third_list_indices"]:
        ck.witness("C07:optimizedlist:shared-default-indices",
                   "default-constructed OptimizedLists share one `indices` dict: after iterating a ConnectionList, a new "
                   "InstanceList already has index entries and iterating it fails / returns wrong ids",
                   input={"kind": "optlist"}, expected={"second_list_indices_before_use": [], "same_object": False,
                                                        "iterate_second": [[0, 1, 2, 3]], "iterate_error": None},
                   observed=optl, broken="Inst_C07_defaults.v:defaults_ok")
    # ---- the Coq builder model on the same schedules (placement of the generated table)
    if placement_known:
        cases = [("sched", s, r) for s, r in zip(scheds, sres)]
        chunk = 300
        for k in range(0, len(cases), chunk):
            part = cases[k:k + chunk]
            lines = [HEAD, "Definition pl := placement_of Gen_C07.table.",
                     "Definition chk (s : list (who * op)) (ia ib : list rec3 * list bool) : bool :=\n"
                     "  let st := brun Gen_C07.elec_guard pl s bsys0 in dump_eqb (bdump pl WA st) ia && dump_eqb (bdump pl WB st) ib.",
                     "Definition chk_solo (o : list op) (i : list rec3 * list bool) : bool :=\n"
                     "  dump_eqb (solo_dump Gen_C07.elec_guard o) i."]
            terms = []
            for _, (ia, ib, order, sched), r in part:
                st = coq_list(["(%s, %s)" % ("WA" if w == "A" else "WB", op_term(o2)) for w, o2 in sched])
                terms.append("chk %s\n    %s\n    %s" % (st, dump_term(r["A"]), dump_term(r["B"])))
            lines.append("Eval vm_compute in (mismatches %s)." % coq_list(terms).replace("; chk", ";\n  chk"))
            if k == 0:
                sterms = ["chk_solo %s %s" % (coq_list([op_term(o2) for o2 in s]), dump_term(r)) for s, r in zip(streams, solo)]
                lines.append("Eval vm_compute in (mismatches %s)." % coq_list(sterms).replace("; chk", ";\n  chk"))
            ok, rs, o3 = ck.coq_eval("Cases_C07_sched_%d.v" % (k // chunk), "\n".join(lines) + "\n")
            ck.oblige("correspondence:builder-model:%d" % (k // chunk), ok, o3[-1500:], kind="correspondence")
            if ok:
                for bi in (parse_nat_list(rs[0]) if rs else [])[:5]:
                    _, (ia, ib, order, sched), r = part[bi]
                    ck.disagree("State.brun (NetworkBuilder)", {"sched": sched}, "see Cases_C07_sched_%d.v case %d" % (k // chunk, bi), r)
                if k == 0 and len(rs) > 1:
                    for bi in parse_nat_list(rs[1])[:5]:
                        ck.disagree("State.solo_dump (NetworkBuilder)", {"ops": streams[bi]}, "solo case %d" % bi, solo[bi])
                ck.extra["builder_model_cases"] = ck.extra.get("builder_model_cases", 0) + len(part) + (len(streams) if k == 0 else 0)


# ---- the interpreter's configuration is not input: hash seed (set/dict iteration order), python -O, working directory
def _cells(ids):
    return [["iaf_cells", i] for i in ids]


O_POOL = [
    {"name": "o_a.nml", "kind": "xml", "items": _cells(["cellAlpha", "b7", "zeta_1", "Q"]) + [["exp_one_synapses", "sA1"], ["exp_one_synapses", "sA2"],
                                                                                            ["exp_one_synapses", "sA3"]], "includes": []},
    {"name": "o_b.nml", "kind": "xml", "items": _cells(["m2x", "Beta", "k_9", "aa"]), "includes": []},
    {"name": "o_c.nml", "kind": "xml", "items": _cells(["gamma", "c3", "Y_y", "n0"]) + [["pulse_generators", "pgC1"], ["pulse_generators", "pgC2"],
                                                                                      ["pulse_generators", "pgC3"]], "includes": ["o_b.nml"]},
    {"name": "o_top.nml", "kind": "xml", "items": _cells(["own0"]), "includes": ["o_a.nml", "o_b.nml", "o_c.nml"],
     "net": {"id": "netO", "pops": [{"id": "p0", "comp": "cellAlpha", "size": 2}, {"id": "p1", "comp": "gamma", "size": 1}],
             "projs": [], "ilists": []}},
    {"name": "o_top2.nml", "kind": "xml", "items": [], "includes": ["o_c.nml"]},
    # HDF5: the components travel as embedded XML and are merged into the built document
    {"name": "o_h5.nml.h5", "kind": "h5", "items": _cells(["hAlpha", "h7", "eta_1", "HQ", "hm2"]) + [["exp_one_synapses", "hs1"],
                                                                                                     ["exp_one_synapses", "hs2"],
                                                                                                     ["exp_one_synapses", "hs3"]],
     "includes": ["o_a.nml"],
     "net": {"id": "netOh", "pops": [{"id": "p0", "comp": "hAlpha", "size": 2}], "projs": [], "ilists": []}},
]
O_CALLS = [
    {"ep": "file", "name": "o_top.nml", "incl": True}, {"ep": "string", "name": "o_top.nml", "incl": True},
    {"ep": "inner_path", "name": "o_top.nml", "incl": True}, {"ep": "file", "name": "o_top2.nml", "incl": True},
    {"ep": "string", "name": "o_top2.nml", "incl": True}, {"ep": "xmlparser", "name": "o_top.nml"},
    {"ep": "h5", "name": "o_h5.nml.h5"}, {"ep": "file", "name": "o_h5.nml.h5", "incl": True},
    {"ep": "h5", "name": "o_h5.nml.h5", "opt": True}, {"ep": "file", "name": "o_c.nml", "incl": True},
    {"ep": "file", "name": "o_top.nml", "incl": False},
]


def run_interpreter_configurations(ck):
    tmp = tempfile.mkdtemp(prefix="c07_cfg_")
    try:
        job = {"kind": "ordered", "calls": O_CALLS}
        # the files are written once (default configuration); every other configuration only reads them
        ref = ck.impl("c07_impl.py", {"dir": tmp, "pool": O_POOL, "jobs": [job]}, timeout=300)["jobs"][0]
        rv = [x.get("value") for x in ref["value"]]
        merged = 0
        for c, r in zip(O_CALLS, rv):
            if not (r and r.get("ok")):
                raise RuntimeError("reference run of the ordered calls failed: %s %s" % (c, json.dumps(r)[:500]))
            merged = max([merged] + [len(v) for o in r["order"].values() for v in o.values()])
        ck.extra["ordered_calls"] = {"calls": len(O_CALLS), "longest_member_list": merged}
        configs = [("PYTHONHASHSEED=1", {"extra_env": {"PYTHONHASHSEED": "1"}}),
                   ("PYTHONHASHSEED=3", {"extra_env": {"PYTHONHASHSEED": "3"}, "cwd": "/"}),
                   ("PYTHONHASHSEED=7", {"extra_env": {"PYTHONHASHSEED": "7"}}),
                   ("python-O", {"pyflags": ["-O"]})]
        for label, kw in configs:
            o2 = ck.try_impl("c07_impl.py", {"dir": tmp, "jobs": [job]}, timeout=300, label="ordered[%s]" % label, **kw)
            if not o2:
                continue
            j = o2["jobs"][0]
            if label.startswith("PYTHONHASHSEED") and j.get("hashseed") != label.split("=")[1]:
                raise RuntimeError("the child did not run under %s: %s" % (label, j.get("hashseed")))
            if label == "python-O" and not j.get("optimize"):
                raise RuntimeError("the child did not run under -O")
            for c, a, x in zip(O_CALLS, rv, [y.get("value") for y in j["value"]]):
                ck.count(1, nontrivial_key=("cfg", label, c))
                ck.tally("other-interpreter-configuration")
                entry = c["ep"] + ("-optimized" if c.get("opt") else "")
                if not x or x.get("ok") != a.get("ok") or x.get("err") != a.get("err"):
                    ck.witness("C07:interpreter-configuration:%s:%s:outcome-differs" % (label, entry),
                               "under %s the call ends differently than under the default interpreter configuration" % label,
                               input={"kind": "ordered", "pool": O_POOL, "call": c, "configuration": label},
                               expected={"ok": a.get("ok"), "err": a.get("err")}, observed={"ok": (x or {}).get("ok"), "err": (x or {}).get("err")},
                               broken="Inst_C07_setorder.v:set_order_ok")
                    continue
                diffs = [(k, m) for k in a["order"] for m in a["order"][k] if x["order"].get(k, {}).get(m) != a["order"][k][m]]
                diffs += [(k, m) for k in x["order"] for m in x["order"][k] if m not in a["order"].get(k, {})]
                if diffs:
                    k, m = diffs[0]
                    same_set = sorted(a["order"][k].get(m, [])) == sorted(x["order"].get(k, {}).get(m, []))
                    ck.witness("C07:interpreter-configuration:%s:%s:%s" % (label, entry, "member-order-differs" if same_set else "members-differ"),
                               "the same call on the same files returns the member list `%s` of the %s in another order under %s than under "
                               "the default configuration (PYTHONHASHSEED=0): the document is not a function of the input alone"
                               % (m, k.replace("_", " "), label),
                               input={"kind": "ordered", "pool": O_POOL, "call": c, "configuration": label},
                               expected={"member_list": m, "order": a["order"][k].get(m)},
                               observed={"member_list": m, "order": x["order"].get(k, {}).get(m), "lists_differing": [d2[1] for d2 in diffs][:6]},
                               broken="Inst_C07_setorder.v:set_order_ok")
                elif a.get("nets") != x.get("nets"):
                    ck.witness("C07:interpreter-configuration:%s:%s:network-differs" % (label, entry),
                               "the networks of the returned document differ under %s" % label,
                               input={"kind": "ordered", "pool": O_POOL, "call": c, "configuration": label},
                               expected={"nets": a.get("nets")}, observed={"nets": x.get("nets")}, broken="Inst_C07_setorder.v:set_order_ok")
    finally:
        shutil.rmtree(tmp, ignore_errors=True)


# ------------------------------------------------------------------------------------------------ run
def run(ck):
    ck.rule = ("(a) histories of real loader calls (every entry point; repeated / permuted; explicit and default "
               "already_included) over a generated pool of XML/HDF5 files with include DAGs: every call of every history is "
               "compared with the same call in a fresh forked process and with the Coq loader model; non-trivial = a call "
               "at position >= 2 that processes includes or loads HDF5; distinct by the call prefix. (b) schedules of two "
               "real NetworkBuilder instances (generated op streams sharing population/projection/input-list ids, and "
               "handler streams recorded from the real HDF5/XML parsers): each builder compared with its solo run in a "
               "fresh process and with the Coq builder model; non-trivial = the two streams share at least one id; distinct "
               "by schedule. (c) one directed check of OptimizedList's default dict.")
    ck.trusted = ["Coq 8.16.1 kernel + vm_compute (no native_compute)",
                  "translators/tr_state.py: syntactic, flow-insensitive footprint analysis (python ast) of loaders.py, utils.py, "
                  "hdf5/*.py, nml.py; its allow-lists of non-mutating callees/methods; call resolution by name",
                  "logger objects (class attribute `log`, module `logger`) are outside the model",
                  "impl/c07_impl.py: canonical dumps; os.fork gives a process in which no loader/builder call has run",
                  "the hand-written Gallina models of _read_neuroml2 / NetworkBuilder handlers (validated by the correspondence run "
                  "in the layout of the tree under test)"]
    ck.assumptions = ["PARTIAL: thread pre-emption inside a handler call is not modelled (handler calls are atomic steps)",
                      "PARTIAL: process-global side effects outside the model are only listed (warnings.simplefilter/resetwarnings, "
                      "logging.basicConfig, sys.path.append): see coverage.external_state_calls",
                      "PyTables / lxml internals are assumed to carry no state between calls",
                      "include locations are resolved paths; include graphs are acyclic and files exist (C06 covers cycles)",
                      "handler extensionality (a handler is a function of the store contents) is a hypothesis of C07_interleave, "
                      "proved for the NetworkBuilder model"]
    ck.gate_static()
    d = translate(ck)
    if d is None:
        return
    inst_ok = table_and_props(ck, d)
    ck.extra["external_state_calls"] = d["external_state_calls"]
    ck.extra["table"] = {"defaults": len(d["defaults"]), "fields": len(d["fields"]), "globals": len(d["globals"]),
                         "functions_scanned": d["functions_scanned"],
                         "mutated_defaults": ["%s.%s(%s)" % (x["module"], x["func"], x["param"]) for x in d["defaults"]
                                              if x["mutated"] or x["escapes"]],
                         "shared_fields": ["%s.%s" % (x["cls"], x["attr"]) for x in d["fields"] if x["placement"] == "Shared"],
                         "globals_read": ["%s.%s" % (x["module"], x["name"]) for x in d["globals"] if x["readers"]],
                         "set_iteration_order": d.get("set_iteration_order", []),
                         "argument_writes": [{k: x[k] for k in ("module", "func", "param", "via", "attr", "line", "how", "handler")}
                                             for x in d.get("argument_writes", [])],
                         "process_state": [{k: x[k] for k in ("module", "func", "line", "kind", "call", "scope", "restored", "how")}
                                           for x in d.get("process_state", [])],
                         "class_metadata": [{"attr": x["attr"], "kind": x["kind"], "classes": x["classes"], "mutated": x["mutated"],
                                             "aliases": x["aliases"], "why": x["why"][:200]} for x in d.get("classmeta", [])]}
    for x in d["defaults"]:
        ck.count(1, nontrivial_key=("default", x["module"], x["func"], x["param"]))
        ck.tally("table:default-site")
    for x in d["fields"]:
        ck.count(1, nontrivial_key=("field", x["cls"], x["attr"]) if x["kind"] == "mutable" else None)
        ck.tally("table:field:" + x["kind"])
    # a global that is written AND read is a cache: name it as the failing program point; the histories below look for an input
    for g in d["globals"]:
        ck.tally("table:written-global")
    for x in d.get("process_state", []):
        ck.count(1, nontrivial_key=("process", x["module"], x["func"], x["line"]))
        ck.tally("table:process-state:" + x["kind"] + ":" + x["scope"])
    for x in d.get("argument_writes", []):
        ck.count(1, nontrivial_key=("argwrite", x["module"], x["func"], x["line"]))
        ck.tally("table:argument-write:" + ("handler" if x["handler"] else "other"))
    for x in d.get("classmeta", []):
        ck.count(1, nontrivial_key=("classmeta", x["attr"]))
        ck.tally("table:class-" + x["kind"])
    gen_ok = bool(inst_ok)
    run_interpreter_configurations(ck)
    for pi in range(ck.n(1, 4)):
        tmp = tempfile.mkdtemp(prefix="c07_")
        try:
            pool = run_histories(ck, d, tmp, gen_ok, pi)
            if pi == 0:
                run_schedules(ck, tmp, pool, gen_ok)
        finally:
            shutil.rmtree(tmp, ignore_errors=True)


# ---------------------------------------------------------------------------------------------- replay
def replay(ck, data):
    inp = data.get("input") or {}
    kind = inp.get("kind")
    tmp = tempfile.mkdtemp(prefix="c07_replay_")
    rc = 0
    try:
        if kind == "history":
            calls = inp["calls"]
            jobs = [{"kind": "history", "calls": [calls[-1]]}, {"kind": "history", "calls": calls}]
            out = ck.impl("c07_impl.py", {"dir": tmp, "pool": inp["pool"], "jobs": jobs})
            fresh = out["jobs"][0]["value"]["results"][0]
            got = out["jobs"][1]["value"]["results"][-1]
            cls = classify_hist_diff(fresh, got)
            invariants = []
            for i, r in enumerate(out["jobs"][1]["value"]["results"]):
                # the two recorded known findings (warnings filters) are not what a stored history witness is about
                pc = [x for x in r.get("process_state_changed", []) if proc_key(x, calls[i]) not in (K_RESET, K_IGNORE)]
                if pc or r.get("class_metadata_changed") or r.get("changed_by_later_calls"):
                    invariants.append({"call": i, "process_state_changed": pc, "class_metadata_changed": r.get("class_metadata_changed"),
                                       "changed_by_later_calls": r.get("changed_by_later_calls")})
            model = None
            d = translate(ck)
            if d is not None and ck.coqc(ck.gen_v("Gen_C07.v", gen_table(d)))[0]:
                text = "\n".join([HEAD, "Definition fs : fstore :=\n  %s." % model_fs(tmp, inp["pool"]),
                                  "Definition ms := modes_of Gen_C07.table.",
                                  "Eval vm_compute in (fst (exec_call 60 ms Gen_C07.shape fs (%s) w_empty))." % model_call(tmp, calls[-1]),
                                  "Eval vm_compute in (fst (exec_call 60 ms Gen_C07.shape fs (%s) (run_hist 60 ms Gen_C07.shape fs %s w_empty)))."
                                  % (model_call(tmp, calls[-1]), coq_list([model_call(tmp, c) for c in calls[:-1]]))])
                ok, res, _ = ck.coq_eval("Replay_C07.v", text + "\n")
                model = {"alone": res[0] if ok and res else None, "after_history": res[1] if ok and len(res) > 1 else None}
            print(json.dumps({"history": calls, "implementation": {"fresh_process": brief(fresh), "after_history": brief(got),
                                                                   "difference": cls, "state_invariants_violated": invariants},
                              "model": model}, indent=1)[:8000])
            rc = 1 if (cls or invariants) else 0
        elif kind == "schedule":
            sched = inp["sched"]
            w = inp.get("builder", "A")
            ops = [o for ww, o in sched if ww == w]
            out = ck.impl("c07_impl.py", {"dir": tmp, "jobs": [{"kind": "solo", "ops": ops}, {"kind": "schedule", "sched": sched}]})
            solo, r = out["jobs"][0]["value"], out["jobs"][1]["value"][w]
            argw = out["jobs"][1]["value"].get("argument_writes", []) + solo.pop("argument_writes", [])
            model = None
            d = translate(ck)
            if d is not None and not any(op_refs(o) for _, o in sched) and ck.coqc(ck.gen_v("Gen_C07.v", gen_table(d)))[0]:
                st = coq_list(["(%s, %s)" % ("WA" if ww == "A" else "WB", op_term(o)) for ww, o in sched])
                text = "\n".join([HEAD, "Definition pl := placement_of Gen_C07.table.",
                                  "Eval vm_compute in (bdump pl %s (brun Gen_C07.elec_guard pl %s bsys0))." % ("WA" if w == "A" else "WB", st),
                                  "Eval vm_compute in (solo_dump Gen_C07.elec_guard %s)." % coq_list([op_term(o) for o in ops])])
                ok, res, _ = ck.coq_eval("Replay_C07.v", text + "\n")
                model = {"interleaved": res[0] if ok and res else None, "solo": res[1] if ok and len(res) > 1 else None}
            print(json.dumps({"schedule": sched, "builder": w, "implementation": {"solo_fresh_process": solo, "interleaved": r,
                                                                                 "first_difference": first_diff(solo["dump"], r["dump"]),
                                                                                 "handler_writes_on_argument_objects": argw},
                              "model": model}, indent=1)[:8000])
            rc = 1 if (solo != r or argw) else 0
        elif kind == "parser_sched":
            w = inp.get("builder", "A")
            f = inp["fileA"] if w == "A" else inp["fileB"]
            out = ck.impl("c07_impl.py", {"dir": tmp, "pool": inp["pool"], "jobs": [
                {"kind": "parser_solo", "file": f},
                {"kind": "parser_sched", "fileA": inp["fileA"], "fileB": inp["fileB"], "order": inp["order"]}]})
            solo, r = out["jobs"][0]["value"], out["jobs"][1]["value"][w]
            print(json.dumps({"files": [inp["fileA"], inp["fileB"]], "builder": w,
                              "implementation": {"solo": solo, "interleaved": r,
                                                 "first_difference": first_diff(solo["dump"], r["dump"])}}, indent=1)[:8000])
            rc = 1 if solo != r else 0
        elif kind == "warnings_probe":
            out = ck.impl("c07_impl.py", {"dir": tmp, "pool": W_POOL, "jobs": [
                {"kind": "warnings_probe", "good": "w_cell.nml", "broken": "sub/w_broken.nml", "swc": "w_swc.swc"}]})
            v = out["jobs"][0]["value"]
            print(json.dumps({k: v[k].get("value") for k in v}, indent=1))
            rc = 1 if v["fresh"]["value"]["swc"] != v["after_load"]["value"]["swc"] else 0
        elif kind == "ordered":
            job = {"kind": "ordered", "calls": [inp["call"]]}
            a = ck.impl("c07_impl.py", {"dir": tmp, "pool": inp["pool"], "jobs": [job]})["jobs"][0]["value"][0].get("value")
            lab = inp["configuration"]
            kw = {"pyflags": ["-O"]} if lab == "python-O" else {"extra_env": {"PYTHONHASHSEED": lab.split("=")[1]}}
            x = ck.impl("c07_impl.py", {"dir": tmp, "jobs": [job]}, **kw)["jobs"][0]["value"][0].get("value")
            print(json.dumps({"call": inp["call"], "default_configuration": a, lab: x}, indent=1)[:8000])
            rc = 1 if a != x else 0
        elif kind == "optlist":
            out = ck.impl("c07_impl.py", {"dir": tmp, "jobs": [{"kind": "optlist"}]})
            v = out["jobs"][0]["value"]
            print(json.dumps({"implementation": v, "expected": data.get("expected")}, indent=1))
            rc = 1 if (v["second_list_indices_before_use"] or v["same_object"] or v["iterate_error"]) else 0
        else:
            print(json.dumps(data, indent=1)[:6000])
    finally:
        shutil.rmtree(tmp, ignore_errors=True)
    return rc
