"""C13 — morphology metrics equal their definition on every tree.

tie      : correspondence.  Random / exhaustive-small trees with exact dyadic geometry are run through the REAL
           Cell helper methods (impl/c13_impl.py); inputs and the implementation's outputs are written as Coq
           terms and the kernel diffs them against Model/Morph.v (`mismatches cases = []`).
theorems : coq/Props/C13.v (compiled fresh each run).
predicate: independently of the model, every output is compared with a harness-side reference that follows the
           parent / fraction_along definition with exact Fractions (witness search; always runs).
"""
import json
import math
from fractions import Fraction as F

from lib.vcommon import coq_list

QUARTERS = [F(0), F(1, 4), F(1, 2), F(1)]
WORKERS = 4        # parallel coqc processes for the case files
MAX_DEN = 1 << 10


# ------------------------------------------------------------------------------------------ generator
def lerp(f, a, b):
    return tuple((1 - f) * x + f * y for x, y in zip(a, b))


def exact_float(x):
    v = float(x)
    assert F(v) == x, "generator produced a value that is not an exact double: %r" % (x,)
    return v


def den_ok(p):
    return all(x.denominator <= MAX_DEN and (x.denominator & (x.denominator - 1)) == 0 for x in p)


def gen_parents(rng, n, shape):
    par = [None]
    for i in range(1, n):
        if shape == "chain":
            p = i - 1 if rng.random() < 0.85 else rng.randrange(i)
        elif shape == "star":
            p = 0 if rng.random() < 0.8 else rng.randrange(i)
        elif shape == "binary":
            p = (i - 1) // 2
        elif shape == "bushy":
            p = rng.randrange(max(1, (i + 2) // 3))
        elif shape == "deep":
            p = rng.randrange(max(0, i - 3), i)
        else:
            p = rng.randrange(i)
        par.append(p)
    return par


def all_parent_vectors(n):
    """every rooted tree shape on n nodes labelled in a topological order (node i's parent < i)"""
    out = [[None]]
    for i in range(1, n):
        out = [v + [p] for v in out for p in range(i)]
    return out


def gen_ids(rng, n, style):
    if style == "topo":
        return list(range(n))
    if style == "perm":
        ids = list(range(n))
        rng.shuffle(ids)
        return ids
    if style == "rootnz":       # id 0 exists but is not the root
        ids = list(range(n))
        rng.shuffle(ids)
        if n > 1 and ids[0] == 0:
            j = rng.randrange(1, n)
            ids[0], ids[j] = ids[j], ids[0]
        elif n == 1:
            ids = [rng.randrange(1, 20)]
        return ids
    if style == "no0":
        return rng.sample(range(1, 3 * n + 6), n)
    return rng.sample(range(0, 4 * n + 6), n)    # sparse


AXES = [(1, 0, 0), (-1, 0, 0), (0, 1, 0), (0, -1, 0), (0, 0, 1), (0, 0, -1)]
PYTH = [(3, 4, 0), (4, 3, 0), (0, 3, 4), (-3, 0, 4), (6, 0, -8), (0, -4, 3), (2, 3, 6), (1, 4, 8), (2, 6, 9)]
DIAMS = [F(1, 2), F(1), F(3, 2), F(2), F(4)]


def gen_tree(rng, n, shape="uniform", idstyle="sparse", fracs=(0, 1, 2, 3, 3, 3), prox_prob=0.5, doc="shuffle",
             zero_len=0.03, offset=0.15, parents=None):
    """returns segs in document order: [id, parent id|None, fraction|None, prox|None, dist] with Fraction points"""
    par = parents if parents is not None else gen_parents(rng, n, shape)
    ids = gen_ids(rng, n, idstyle)
    AP, D, rows = [None] * n, [None] * n, []
    for i in range(n):
        if par[i] is None:
            prox = tuple(F(rng.randrange(-8, 9)) for _ in range(3)) + (rng.choice(DIAMS),)
            used, has_prox, f = prox, True, None
        else:
            p = par[i]
            f = QUARTERS[rng.choice(fracs)]
            ap = lerp(f, AP[p], D[p])
            if not den_ok(ap):
                f = rng.choice([F(0), F(1)])
                ap = lerp(f, AP[p], D[p])
            has_prox = rng.random() < prox_prob
            if has_prox:
                if rng.random() < offset or not den_ok(ap):
                    base = tuple(F(math.floor(x)) for x in ap[:3])
                    prox = tuple(b + rng.randrange(-2, 3) for b in base) + (rng.choice(DIAMS),)
                else:
                    prox = ap
                used = prox
            else:
                prox, used = None, ap
        r = rng.random()
        if r < zero_len:
            vec = (0, 0, 0)
        elif r < 0.2:
            vec = rng.choice(PYTH)
        else:
            a = rng.choice(AXES)
            L = rng.choice([1, 1, 2, 2, 3, 4, 5, 6, 8])
            vec = tuple(L * x for x in a)
        dist = tuple(used[k] + vec[k] for k in range(3)) + (rng.choice(DIAMS),)
        AP[i], D[i] = used, dist
        rows.append([ids[i], None if par[i] is None else ids[par[i]], f, prox, dist])
    if doc == "shuffle":
        rng.shuffle(rows)
    elif doc == "reverse":
        rows.reverse()
    return rows


def gen_groups(rng, segs):
    """a few member-only groups plus one group that includes another; returns (groups, selected id)"""
    sids = [s[0] for s in segs]
    n = len(sids)
    par = {s[0]: s[1] for s in segs}
    groups = []
    allm = list(sids)
    if rng.random() < 0.5:
        rng.shuffle(allm)
    groups.append(["all", allm, []])
    k = rng.randrange(1, n + 1)
    groups.append(["sub", rng.sample(sids, k), []])
    # a root-ward path that starts below the root (parent of its first segment is not in the group)
    leaf = rng.choice(sids)
    path = [leaf]
    while par[path[-1]] is not None and rng.random() < 0.8:
        path.append(par[path[-1]])
    if len(path) > 1 and par[path[-1]] is None and rng.random() < 0.7:
        path.pop()
    groups.append(["path", path, []])
    extra = rng.sample(sids, rng.randrange(0, min(n, 3) + 1))
    groups.append(["incl", extra, ["sub"] if rng.random() < 0.7 else ["path", "sub"]])
    if rng.random() < 0.15:
        groups.append(["empty", [], []])
    sel = rng.choice([g[0] for g in groups])
    return groups, sel


def resolve(groups, gid):
    """what get_all_segments_in_group returns for these simple groups (members first, then includes, no repeats)"""
    g = next(x for x in groups if x[0] == gid)
    out = []
    for m in g[1]:
        if m not in out:
            out.append(m)
    for inc in g[2]:
        for s in resolve(groups, inc):
            if s not in out:
                out.append(s)
    return out


def gen_queries(rng, segs, ref, extra_bad=True):
    sids = [s[0] for s in segs]
    n = len(sids)
    root = ref["root"]
    pairs = [[root, t] for t in (sids if n <= 10 else rng.sample(sids, 6))]
    for _ in range(3):
        pairs.append([rng.choice(sids), rng.choice(sids)])
    if extra_bad:
        missing = max(sids) + 1 + rng.randrange(3)
        pairs.append([missing, rng.choice(sids)])     # NodeNotFound
        pairs.append([root, missing])                  # NoPath
    srcs = [root] + ([rng.choice(sids)] if n > 1 else [])
    if extra_bad and rng.random() < 0.3:
        srcs.append(max(sids) + 5)
    ats = []
    dvals = sorted(set(ref["dist_root"].values()) | set(ref["dist_root"][i] + ref["len"][i] for i in sids))
    for _ in range(3):
        r = rng.random()
        if r < 0.4:
            d = rng.choice(dvals)
        elif r < 0.5:
            d = F(0)
        else:
            d = F(rng.randrange(0, int(4 * (dvals[-1] + 2)))) / 4
        src = root if rng.random() < 0.6 else rng.choice(sids)
        if src != root:
            d = max(F(0), d - ref["dist_root"][src]) if rng.random() < 0.7 else d
        ats.append([d, src])
    return pairs, srcs, ats


# ------------------------------------------------------------------------------------------ reference
def exact_sqrt(q):
    a, b = math.isqrt(q.numerator), math.isqrt(q.denominator)
    assert a * a == q.numerator and b * b == q.denominator, "generator produced a non-rational length"
    return F(a, b)


def reference(segs):
    """the values that follow directly from the parent / fraction_along definition (exact Fractions);
    iterative over a topological order so that deep trees need no recursion"""
    by = {s[0]: s for s in segs}
    assert len(by) == len(segs)
    roots = [s[0] for s in segs if s[1] is None]
    assert len(roots) == 1
    kids = {}
    for s in segs:                                   # document order
        if s[1] is not None:
            kids.setdefault(s[1], []).append(s[0])
    order, stack = [], [roots[0]]
    while stack:
        x = stack.pop()
        order.append(x)
        stack.extend(kids.get(x, []))
    assert len(order) == len(segs), "not a tree"
    ap, ln, dr, anc = {}, {}, {}, {}
    for i in order:
        _, p, f, prox, dist = by[i]
        if prox is not None:
            ap[i] = prox
        else:
            ap[i] = lerp(f, ap[p], by[p][4])
        ln[i] = exact_sqrt(sum((ap[i][k] - dist[k]) ** 2 for k in range(3)))
        if p is None:
            dr[i], anc[i] = F(0), [i]
        else:
            dr[i], anc[i] = dr[p] + ln[p] * f, anc[p] + [i]
    return {"root": roots[0], "kids": kids, "aprox": ap, "len": ln, "dist_root": dr, "path": anc, "order": order,
            "branch": sorted(k for k, v in kids.items() if len(v) > 1),
            "tips": sorted(i for i in by if i not in kids)}


def ref_dist(ref, src, dst):
    if src not in ref["dist_root"]:
        return {"err": "ENodeNotFound"}
    if dst not in ref["dist_root"] or src not in ref["path"][dst]:
        return {"err": "ENoPath"}
    return {"ok": ref["dist_root"][dst] - ref["dist_root"][src]}


def ref_all(ref, src):
    if src not in ref["dist_root"]:
        return {"err": "ENodeNotFound"}
    out = []
    for t in sorted(ref["dist_root"]):
        if src in ref["path"][t]:
            p = ref["path"][t]
            out.append([t, ref["dist_root"][t] - ref["dist_root"][src], p[p.index(src):]])
    return {"ok": out}


def ref_at(ref, d, src):
    a = ref_all(ref, src)
    if "err" in a:
        return a
    out = []
    for t, dt, _ in a["ok"]:
        L = ref["len"][t]
        if L != 0 and dt <= d and (d - dt) / L <= 1:
            out.append([t, (d - dt) / L])
    return {"ok": out}


def ref_ordered(ref, resolved):
    o = sorted(resolved)
    cum, tot = [], F(0)
    for i in o:
        tot += ref["len"][i]
        cum.append(tot)
    return {"ord": o, "cum": cum, "pp": [[i, ref["dist_root"][i]] for i in o],
            "pd": [[i, ref["dist_root"][i] + ref["len"][i]] for i in o]}


# ------------------------------------------------------------------------------------------ JSON <-> exact
def fq(x):
    return F(x[0], x[1])


def case_payload(segs, groups, sel, pairs, srcs, ats, default_calls=False):
    def pt(p):
        return None if p is None else [exact_float(x) for x in p]
    return {"segs": [[i, p, None if f is None else exact_float(f), pt(pr), pt(di)] for i, p, f, pr, di in segs],
            "groups": groups, "group": sel, "pairs": pairs, "srcs": srcs,
            "ats": [[exact_float(d), s] for d, s in ats], "default_calls": default_calls}


def norm_impl(out, sel):
    """implementation outputs -> exact values, dict/set-valued results sorted by key"""
    def r(x, f):
        return {"ok": f(x["ok"])} if "ok" in x else {"err": x["err"], "msg": x.get("msg", "")}
    n = {}
    n["aprox"] = [[i, r(v, lambda p: tuple(fq(c) for c in p))] for i, v in out["aprox"]]
    n["lens"] = [[i, r(v, fq)] for i, v in out["lens"]]
    n["adj"] = r(out["adj"], lambda a: sorted([[k, list(v)] for k, v in a]))
    n["graph"] = r(out["graph"], lambda g: {"nodes": sorted(g["nodes"]),
                                            "edges": sorted([[a, b, fq(w)] for a, b, w in g["edges"]], key=lambda e: (e[1], e[0]))})
    n["root"] = out["root"]
    n["bp"] = r(out["bp"], sorted)
    n["tips"] = r(out["tips"], lambda t: sorted([[k, fq(v)] for k, v in t]))
    n["pairs"] = [[s, d, r(v, fq)] for s, d, v in out["pairs"]]
    n["all"] = [[s, r(v, lambda a: sorted([[k, fq(d), list(p)] for k, d, p in a]))] for s, v in out["all"]]
    n["ats"] = [[F(d), s, r(v, lambda a: sorted([[k, fq(x)] for k, x in a]))] for d, s, v in out["ats"]]
    if "ord_both" in out:
        def ob(o):
            if list(o["ord"].keys()) != [sel]:
                return {"ord": None, "keys": list(o["ord"].keys())}
            return {"ord": o["ord"][sel], "cum": [fq(x) for x in o["cum"][sel]],
                    "pp": sorted([[i, fq(x)] for i, x in o["pp"][sel]]), "pd": sorted([[i, fq(x)] for i, x in o["pd"][sel]])}
        n["ord"] = r(out["ord_both"], ob)
    n["ordm"] = []
    for selm, v in out.get("ord_multi", []):
        if "ok" in v:
            n["ordm"].append([selm, {"ok": [[k, {"ord": o, "cum": [fq(x) for x in cum], "pp": sorted([[i, fq(x)] for i, x in pp]),
                                                 "pd": sorted([[i, fq(x)] for i, x in pd])}] for k, o, cum, pp, pd in v["ok"]]}])
        else:
            n["ordm"].append([selm, v])
    n["ordm_cum"] = out.get("ord_multi_cum", [])
    return n


# ------------------------------------------------------------------------------------------ Coq terms
def cq(x):
    x = F(x)
    return "(qq (%d) %d)" % (x.numerator, x.denominator)


def cz(n):
    return "(%d)" % n


def cpt(p):
    return "(P4 %s %s %s %s)" % tuple(cq(x) for x in p)


def copt(x, f):
    return "None" if x is None else "(Some %s)" % f(x)


def cres(x, f):
    if "ok" in x:
        return "(Ok %s)" % f(x["ok"])
    e = x["err"]
    return "(Err %s)" % (e if e in ("EValue", "EAttr", "EKey", "ENodeNotFound", "ENoPath", "EAssert") else "EOther")


def clist(xs, f):
    return coq_list([f(x) for x in xs])


def ccell(segs):
    return clist(segs, lambda s: "(SG %s %s %s %s)" % (
        cz(s[0]), copt(None if s[1] is None else (s[1], s[2]), lambda pf: "(%s, %s)" % (cz(pf[0]), cq(pf[1]))),
        copt(s[3], cpt), cpt(s[4])))


def cobs(n, resolved, groups=None):
    zq = lambda a: "(%s, %s)" % (cz(a[0]), cq(a[1]))

    def co(o):
        return "(%s, %s, %s, %s)" % (clist(o["ord"], cz), clist(o["cum"], cq), clist(o["pp"], zq), clist(o["pd"], zq))
    parts = [
        clist(n["aprox"], lambda a: "(%s, %s)" % (cz(a[0]), cres(a[1], cpt))),
        clist(n["lens"], lambda a: "(%s, %s)" % (cz(a[0]), cres(a[1], cq))),
        cres(n["adj"], lambda a: clist(a, lambda r: "(%s, %s)" % (cz(r[0]), clist(r[1], cz)))),
        cres(n["graph"], lambda g: "(%s, %s)" % (clist(g["nodes"], cz),
                                                clist(g["edges"], lambda e: "(%s, %s, %s)" % (cz(e[0]), cz(e[1]), cq(e[2]))))),
        cres(n["root"], cz),
        cres(n["bp"], lambda b: clist(b, cz)),
        cres(n["tips"], lambda t: clist(t, zq)),
        clist(n["pairs"], lambda a: "(%s, %s, %s)" % (cz(a[0]), cz(a[1]), cres(a[2], cq))),
        clist(n["all"], lambda a: "(%s, %s)" % (cz(a[0]), cres(a[1], lambda l: clist(
            l, lambda x: "(%s, %s, %s)" % (cz(x[0]), cq(x[1]), clist(x[2], cz)))))),
        clist(n["ats"], lambda a: "(%s, %s, %s)" % (cq(a[0]), cz(a[1]), cres(a[2], lambda l: clist(l, zq)))),
    ]
    if "ord" in n and resolved is not None:
        o = n["ord"]
        if "ok" in o and o["ok"].get("ord") is None:
            o = {"err": "EOther"}
        parts.append("(Some (%s, %s))" % (clist(resolved, cz), cres(o, co)))
    else:
        parts.append("None")
    ordm = []
    for selm, v in (n.get("ordm", []) if groups is not None else []):
        if "ok" in v:
            for k, data in v["ok"]:
                ordm.append("(%s, (Ok %s))" % (clist(resolve(groups, k), cz), co(data)))
        else:
            for k in dict.fromkeys(selm):
                ordm.append("(%s, %s)" % (clist(resolve(groups, k), cz), cres(v, co)))
    parts.append(coq_list(ordm))
    return "(mkobs %s)" % " ".join(parts)


HEADER = ("From Coq Require Import List ZArith QArith.\nFrom LNML Require Import Model.Morph.\nImport ListNotations.\n"
          "Open Scope Z_scope.\n")

COMPONENT = {1: "actual_prox", 2: "seg_length", 3: "adjacency", 4: "get_graph", 5: "morphology_root",
             6: "branching_points", 7: "extremities", 8: "nx_dist", 9: "nx_sssp", 10: "segments_at_distance",
             11: "ordered_run", 12: "outside-the-domain(wfb/root_has_proxb)", 13: "ordered_multi"}


def parse_mismatches(s):
    """'[(3, [1; 5]); (7, [2])]' -> {3: [1, 5], 7: [2]}"""
    import re
    out = {}
    s = s.replace("%nat", "")
    for m in re.finditer(r"\((\d+),\s*\[([0-9;\s]*)\]\)", s):
        out[int(m.group(1))] = [int(x) for x in m.group(2).replace(";", " ").split()]
    return out


# ------------------------------------------------------------------------------------------ predicate
def jq(x):
    """Fractions etc. -> JSON-friendly"""
    if isinstance(x, F):
        return str(x)
    if isinstance(x, dict):
        return {str(k): jq(v) for k, v in x.items()}
    if isinstance(x, (list, tuple)):
        return [jq(v) for v in x]
    return x


def same(a, b):
    return jq(a) == jq(b)


def predicate(case, ref, n, resolved):
    """list of (component, expected, observed) where the implementation departs from the definition"""
    bad = []
    segs = case["_segs"]
    sids = [s[0] for s in segs]

    def want(comp, exp, obs):
        if "err" in obs and "err" in exp:
            if obs["err"] != exp["err"]:
                bad.append((comp, exp, obs))
        elif not same(exp, {k: v for k, v in obs.items() if k != "msg"}):
            bad.append((comp, exp, obs))
    for (i, v) in n["aprox"]:
        want("actual_proximal", {"ok": ref["aprox"][i]}, v)
    for (i, v) in n["lens"]:
        want("segment_length", {"ok": ref["len"][i]}, v)
    want("adjacency", {"ok": sorted([[k, v] for k, v in ref["kids"].items()])}, n["adj"])
    if "ok" in n["graph"]:
        exp_edges = sorted([[s[1], s[0], ref["len"][s[1]] * s[2]] for s in segs if s[1] is not None], key=lambda e: (e[1], e[0]))
        want("graph_edges", {"ok": exp_edges}, {"ok": n["graph"]["ok"]["edges"]})
    else:
        bad.append(("graph", "a graph", n["graph"]))
    want("root", {"ok": ref["root"]}, n["root"])
    want("branching_points", {"ok": ref["branch"]}, n["bp"])
    want("tips", {"ok": [[t, ref["dist_root"][t]] for t in ref["tips"]]}, n["tips"])
    for s, d, v in n["pairs"]:
        want("distance", ref_dist(ref, s, d), v)
    for s, v in n["all"]:
        want("all_distances", ref_all(ref, s), v)
    for d, s, v in n["ats"]:
        exp = ref_at(ref, d, s)
        if "ok" in exp and "ok" in v:
            eo, vo = exp["ok"], v["ok"]
            if [x[0] for x in eo] != [x[0] for x in vo] or any(abs(float(a[1]) - float(b[1])) > 1e-12 * max(1.0, abs(float(a[1]))) for a, b in zip(eo, vo)):
                bad.append(("segments_at_distance", exp, v))
        else:
            want("segments_at_distance", exp, v)
    if "ord" in n:
        want("ordered_segments", {"ok": ref_ordered(ref, resolved)}, n["ord"])
        # graph-based and ordered-segments distances agree with each other
        if "ok" in n["ord"] and n["ord"]["ok"].get("ord") is not None:
            viag = {d: v["ok"] for s, d, v in n["pairs"] if s == ref["root"] and "ok" in v}
            for i, x in n["ord"]["ok"]["pp"]:
                if i in viag and viag[i] != x:
                    bad.append(("graph_vs_ordered", {"get_distance": viag[i]}, {"path_length_to_proximal": x, "segment": i}))
    # several groups in one call: each returned group must carry exactly what the single-group call / the definition gives
    groups = case.get("_groups")
    for (selm, v), (_, vc) in zip(n.get("ordm", []), n.get("ordm_cum", []) or [[None, None]] * len(n.get("ordm", []))):
        exp = {"ok": [[k, ref_ordered(ref, resolve(groups, k))] for k in dict.fromkeys(selm)]}
        if "err" in v or not same(exp, v):
            bad.append(("ordered_segments:several-groups-in-one-call", {"group_list": selm, "per group": exp}, v))
        elif vc is not None and ("ok" not in vc or jq([[k, o, [fq(x) for x in cum]] for k, o, cum in vc["ok"]])
                                 != jq([[k, d["ord"], d["cum"]] for k, d in v["ok"]])):
            bad.append(("ordered_segments:several-groups-in-one-call", {"group_list": selm, "cumulative-only call": "same values"}, vc))
    return bad


def witness_key(comp, case, ref):
    n = len(case["_segs"])
    if n == 1 and comp in ("tips", "root", "graph", "graph_edges", "distance", "all_distances", "segments_at_distance"):
        return "C13:single-segment-cell:%s" % comp
    if comp == "tips" and ref["root"] != 0:
        return "C13:tips:root-id-not-0"
    return "C13:%s" % comp


# ------------------------------------------------------------------------------------------ cases
def make_case(rng, segs, default_calls=False, extra_bad=True):
    ref = reference(segs)
    groups, sel = gen_groups(rng, segs)
    pairs, srcs, ats = gen_queries(rng, segs, ref, extra_bad)
    case = case_payload(segs, groups, sel, pairs, srcs, ats, default_calls)
    case["_segs"], case["_ref"], case["_ats"] = segs, ref, ats
    case["_resolved"] = resolve(groups, sel)
    # several groups in one call: 2-4 groups, overlapping and disjoint, any order, the same group twice
    gids = [g[0] for g in groups]
    multi = []
    for _ in range(2):
        k = rng.randrange(2, min(4, len(gids)) + 1)
        selm = rng.sample(gids, k)
        if rng.random() < 0.3:
            selm.insert(rng.randrange(len(selm) + 1), rng.choice(selm))      # the same group twice
        multi.append(selm)
    case["multi"] = multi
    case["_groups"] = groups
    return case


def strip(case):
    return {k: v for k, v in case.items() if not k.startswith("_")}


# segment ids that no double can tell apart from their neighbours (2**53 .. 2**53+3) and ids near 2**62
B53, B62 = 2 ** 53, 2 ** 62
BIG_ID_TREE = [[B53 + 1, None, None, (F(0), F(0), F(0), F(2)), (F(4), F(0), F(0), F(2))],
               [B53, B53 + 1, F(1), None, (F(8), F(0), F(0), F(2))],
               [B53 + 2, B53 + 1, F(1, 2), None, (F(2), F(4), F(0), F(1))],
               [B53 + 3, B53 + 2, F(1), None, (F(2), F(7), F(0), F(1))],
               [B62 + 1, B53 + 2, F(1, 4), None, (F(2), F(1), F(8), F(1))],
               [B62 - 1, B62 + 1, F(1), (F(2), F(1), F(8), F(1)), (F(2), F(1), F(10), F(1))],
               [B62 + 3, B62 + 1, F(1), None, (F(5), F(1), F(8), F(1))]]

STORED = [
    # (name, segs) — the defects seen while reading; run first on every run
    ("one-segment-id7", [[7, None, None, (F(0), F(0), F(0), F(2)), (F(4), F(0), F(0), F(2))]]),
    ("root3-1-7", [[3, None, None, (F(0), F(0), F(0), F(2)), (F(4), F(0), F(0), F(2))],
                   [1, 3, F(1, 2), None, (F(2), F(4), F(0), F(1))],
                   [7, 1, F(1, 4), None, (F(2), F(1), F(8), F(1))]]),
    ("one-segment-id0", [[0, None, None, (F(1), F(0), F(0), F(1)), (F(1), F(0), F(3), F(1))]]),
    ("segment-ids-above-2**53", BIG_ID_TREE),
]


def gen_cases(ck):
    rng = ck.rng
    cases = []
    for name, segs in STORED:
        c = make_case(rng, [list(s) for s in segs])
        c["_kind"] = "stored:" + name
        cases.append(c)
    # every tree shape up to 5 (quick) / 6 (thorough) segments, several decorations each
    maxn = ck.n(5, 6)
    reps = ck.n(1, 3)
    for n in range(1, maxn + 1):
        for pv in all_parent_vectors(n):
            for _ in range(reps):
                segs = gen_tree(rng, n, idstyle=rng.choice(["topo", "perm", "rootnz", "no0", "sparse"]),
                                fracs=rng.choice([(0, 1, 2, 3), (3,), (1, 2), (0, 1, 2, 3, 3, 3)]),
                                prox_prob=rng.choice([0.0, 0.3, 0.7, 1.0]), doc=rng.choice(["shuffle", "topo", "reverse"]),
                                parents=pv)
                c = make_case(rng, segs)
                c["_kind"] = "exhaustive-shape:n=%d" % n
                cases.append(c)
    nrand = ck.n(150, 3000)
    for k in range(nrand):
        r = rng.random()
        n = rng.randrange(1, 9) if r < 0.35 else rng.randrange(9, 30) if r < 0.9 else rng.randrange(30, ck.n(60, 120))
        segs = gen_tree(rng, n, shape=rng.choice(["uniform", "chain", "star", "binary", "bushy", "deep"]),
                        idstyle=rng.choice(["topo", "perm", "rootnz", "no0", "sparse", "sparse"]),
                        fracs=rng.choice([(0, 1, 2, 3), (3,), (1, 2), (0, 1, 2, 3, 3, 3), (0, 3)]),
                        prox_prob=rng.choice([0.0, 0.2, 0.5, 0.8, 1.0]), doc=rng.choice(["shuffle", "shuffle", "topo", "reverse"]))
        c = make_case(rng, segs, default_calls=(k % 10 == 0))
        c["_kind"] = "random:%s" % ("small" if n < 9 else "medium" if n < 30 else "large")
        cases.append(c)
    # a few big trees (no per-node pair queries beyond a sample)
    for k in range(ck.n(2, 10)):
        n = rng.randrange(150, 301)
        segs = gen_tree(rng, n, shape=rng.choice(["uniform", "chain", "deep", "bushy"]), idstyle=rng.choice(["perm", "sparse"]),
                        prox_prob=rng.choice([0.2, 0.6]), doc="shuffle")
        c = make_case(rng, segs)
        c["_kind"] = "random:big"
        cases.append(c)
    cases += history_cases(ck)
    return cases


def history_cases(ck):
    """things done with the SAME Cell object before the measured queries: every query once, sectioning, an in-place edit
    followed by the documented cache refresh.  The results must be those of a freshly built equal cell, i.e. what the
    model (a pure function of the segments) and the definition give for the state read back from the object."""
    rng = ck.rng
    out = []
    for t in range(ck.n(3, 8)):
        n = rng.randrange(6, 13)
        segs = gen_tree(rng, n, shape=rng.choice(["uniform", "binary", "bushy", "deep"]),
                        idstyle=rng.choice(["perm", "sparse", "rootnz", "topo"]), prox_prob=rng.choice([0.0, 0.4]), doc="shuffle")
        ref = reference(segs)
        sids = [x[0] for x in segs]
        root = ref["root"]
        inner = [i for i in sids if i != root and i in ref["kids"]] or [root]
        hs = [([["all_queries"]], False), ([["query", "get_graph"]], True),
              ([["query", "get_extremeties"], ["query", "get_distance"]], True),
              ([["query", "get_segments_at_distance"], ["query", "get_ordered_segments_in_groups"]], False),
              ([["section", root, True, False]], bool(t % 2)),
              ([["section", rng.choice(inner), False, False], ["all_queries"]], False),
              ([["all_queries"], ["section", root, True, False]], True)]
        for h, gf in hs:
            c = make_case(rng, [list(x) for x in segs], extra_bad=False)
            c["history"], c["graph_first"] = h, gf
            c["_kind"] = "history:" + "+".join(st[0] if st[0] != "query" else st[1] for st in h)
            c["_expect_segs"] = None if any(st[0] == "section" for st in h) else c["_segs"]
            out.append(c)
        # an in-place edit: a leaf is removed again, caches refreshed the documented way
        par = rng.choice(segs)
        extra = max(sids) + 3
        leaf = [extra, par[0], F(1), None, tuple(par[4][k] + (1 if k == 0 else 0) for k in range(3)) + (F(1),)]
        c = make_case(rng, [list(x) for x in segs], extra_bad=False)
        base = c["_segs"]
        pl = case_payload(base + [leaf], [], None, [], [], [])
        c["segs"] = pl["segs"]
        c["history"], c["graph_first"] = [["all_queries"], ["remove_segment", extra]], True
        c["_kind"] = "history:edit-in-place"
        c["_expect_segs"] = base
        out.append(c)
        # lookups by id, then a leaf's Segment OBJECT is replaced by a fresh one with the same id and another distal point
        # (the number of segments is unchanged), caches refreshed the documented way: every query must see the new object
        leafid = rng.choice(ref["tips"])
        ap = ref["aprox"][leafid]
        newd = (ap[0], ap[1], ap[2] + rng.choice([1, 2, 3, 5]), F(1))
        changed = [[x[0], x[1], x[2], x[3], (newd if x[0] == leafid else x[4])] for x in segs]
        c = make_case(rng, changed, extra_bad=False)
        c["segs"] = case_payload([list(x) for x in segs], [], None, [], [], [])["segs"]
        # keep the document order of the original list (make_case keeps the order it is given)
        c["history"] = [rng.choice([["lookups"], ["all_queries"], ["query", "get_segment_length"]]),
                        ["replace_segments", [[leafid, [exact_float(v) for v in newd]]], True]]
        c["graph_first"] = bool(t % 2)
        c["_kind"] = "history:lookups+replace-segment-object"
        c["_expect_segs"] = c["_segs"]
        out.append(c)
    return out


def rows_from_snapshot(rows):
    out = []
    for i, par, fr, prox, dist in rows:
        out.append([i, par, None if fr is None else fq(fr), None if prox is None else tuple(fq(x) for x in prox),
                    tuple(fq(x) for x in dist)])
    return out


def derive_history_case(ck, case, out):
    """the measured queries saw the state read back from the object: that is the model's / the definition's input"""
    snap = rows_from_snapshot(out["snapshot"])
    if case.get("_expect_segs") is not None and jq(snap) != jq([list(x) for x in case["_expect_segs"]]):
        ck.witness("C13:history:cell-altered", "the history %s changed the cell's segments" % json.dumps(case["history"]),
                   input=strip(case), expected=jq(case["_expect_segs"]), observed=jq(snap))
    ref0 = case["_ref"]
    if case.get("_expect_segs") is None:
        # a history with sectioning: the segments may only have gained explicit proximals equal to their effective proximal
        bad = [x[0] for x in snap] != [x[0] for x in case["_segs"]]
        for b, a in zip(case["_segs"], snap):
            if bad or (b[1], b[2], b[4]) != (a[1], a[2], a[4]) or (b[3] is not None and a[3] != b[3]) or \
                    (b[3] is None and a[3] is not None and a[3] != ref0["aprox"][b[0]]):
                bad = True
                ck.witness("C13:history:cell-altered", "sectioning in the history %s changed more than making effective proximals "
                           "explicit" % json.dumps(case["history"]), input=strip(case), expected=jq(b), observed=jq(a))
                break
        if bad:
            return case          # judged on the original cell
    case["_segs"] = snap
    case["_ref"] = reference(snap)
    # what the methods left cached on the object must be the adjacency list of the cell as it is now
    cached = out.get("adj_cached")
    if cached is not None:
        want = sorted([[k, v] for k, v in case["_ref"]["kids"].items()])
        if sorted(cached) != want:
            ck.witness("C13:history:cached-adjacency-list-differs-from-definition",
                       "cell.adjacency_list left by %s is not the parent-to-children adjacency list (children in document "
                       "order, no entry for a segment without children)" % json.dumps(case["history"]),
                       input=strip(case), expected=want, observed=sorted(cached))
    return case


def recursion_witness(ck):
    """known finding (DESIGN §7 C16/C13): a long chain of proximal-less segments attached at fraction 0 makes
    get_actual_proximal recurse once per segment"""
    n = 1500
    segs = [[0, None, None, (F(0), F(0), F(0), F(1)), (F(1), F(0), F(0), F(1))]]
    for i in range(1, n):
        segs.append([i, i - 1, F(0), None, (F(0), F(i), F(0), F(1))])
    payload = {"cases": [{"segs": case_payload(segs, [], None, [], [], [])["segs"], "groups": [], "group": None,
                          "pairs": [], "srcs": [], "ats": [], "only_aprox": [n - 1]}]}
    out = ck.impl("c13_impl.py", payload, timeout=600)["results"][0]
    last = out["aprox"][-1][1]
    ck.count(1, nontrivial_key="recursion-chain-1500")
    ck.tally("stored:recursion-chain")
    if "err" in last:
        ck.witness("C13:recursion-depth:get_actual_proximal",
                   "get_actual_proximal raises %s on a chain of %d proximal-less segments attached at fraction_along 0 "
                   "(one Python frame per ancestor)" % (last["err"], n),
                   input={"chain_length": n, "fraction_along": 0, "proximal": "only on the root", "queried_segment": n - 1},
                   expected="the root's proximal point (0,0,0)", observed=last)
    else:
        exp = [[0, 1]] * 3 + [[1, 1]]
        if last["ok"] != exp:
            ck.witness("C13:actual_proximal", "wrong effective proximal on a long chain", input={"chain_length": n},
                       expected=exp, observed=last)
    # the same chain attached at fraction 1: no recursion is needed (the parent's distal point), so this must work
    segs1 = [[s[0], s[1], None if s[2] is None else F(1), s[3], s[4]] for s in segs]
    payload = {"cases": [{"segs": case_payload(segs1, [], None, [], [], [])["segs"], "groups": [], "group": None,
                          "pairs": [], "srcs": [], "ats": [], "only_aprox": [n - 1, n // 2]}]}
    out = ck.impl("c13_impl.py", payload, timeout=600)["results"][0]
    ck.count(1, nontrivial_key="fraction-1-chain-1500")
    ck.tally("stored:long-chain-fraction-1")
    for (i, v) in out["aprox"]:
        exp = {"ok": [[0, 1], [i - 1, 1], [0, 1], [1, 1]]}
        if v != exp:
            ck.witness("C13:actual_proximal:long-chain-fraction-1",
                       "get_actual_proximal on segment %d of a chain of %d proximal-less segments attached at fraction_along 1 "
                       "(the parent's distal point; no recursion needed)" % (i, n),
                       input={"chain_length": n, "fraction_along": 1, "proximal": "only on the root", "queried_segment": i},
                       expected=exp, observed=v)
            break


# ------------------------------------------------------------------------------------------ run
def run(ck):
    ck.rule = ("one evaluation = one generated cell with all its queries run on the real Cell methods, compared (a) by the "
               "Coq kernel with Model/Morph.v and (b) with the exact reference that follows the parent/fraction_along "
               "definition; non-trivial = distinct (tree shape, id numbering style, fraction multiset, proximal pattern, "
               "document order) signature")
    ck.trusted = ["Coq 8.16.1 kernel + vm_compute (no native_compute)",
                  "networkx single_source_dijkstra / dijkstra_path_length on a directed tree = weight sum of the unique "
                  "path (Section hypotheses nx_sound/nx_complete of Proofs/MorphP2.v; instance reach proved; exercised by "
                  "the correspondence on every run)",
                  "CPython float arithmetic is exact on the generated dyadic geometry (generator asserts representability; "
                  "segment lengths are integers); x**0.5 of an exactly representable perfect square is exact",
                  "impl/c13_impl.py (cell construction, exception -> enum mapping, float.as_integer_ratio) and the "
                  "sorting of dict/set-valued results by key in checks/c13.py",
                  "group resolution (get_all_segments_in_group) is C14's subject: the model receives the resolved id list, "
                  "cross-checked against the implementation's own resolution"]
    ck.assumptions = ["segment ids are distinct, exactly one segment has no parent, every parent id exists (a tree)",
                      "segment lengths are rational (the generator uses axis-aligned and Pythagorean offsets)",
                      "cells are fresh: the adjacency_list / cell_graph caches are those filled by the calls of the same case",
                      "Python recursion depth is not modelled (fuel): see the known finding C13:recursion-depth"]
    import time
    t0 = time.time()
    ck.gate_static()
    recursion_witness(ck)
    t1 = time.time()
    cases = gen_cases(ck)
    t2 = time.time()
    results = []
    B = 400
    for k in range(0, len(cases), B):
        results += ck.impl("c13_impl.py", {"cases": [strip(c) for c in cases[k:k + B]]}, timeout=900)["results"]
    nenv = 10
    try:
        res_env = ck.impl("c13_impl.py", {"cases": [strip(c) for c in cases[:nenv]]}, timeout=600, pyflags=["-O"],
                          extra_env={"PYTHONHASHSEED": "3"}, cwd="/")["results"]
    except Exception as e:       # noqa: BLE001
        res_env = None
        ck.oblige("impl:c13_impl.py:-O,PYTHONHASHSEED=3,cwd=/", False, str(e)[-1500:], kind="correspondence")
    if res_env is not None:
        ck.oblige("impl:c13_impl.py:-O,PYTHONHASHSEED=3,cwd=/", True, kind="correspondence")
        for c, a, b in zip(cases[:nenv], results[:nenv], res_env):
            ck.count(1, nontrivial_key="env:" + signature(c))
            ck.tally("environment:-O,hashseed=3,cwd=/")
            if a != b:
                diff = [k for k in a if a.get(k) != b.get(k)]
                ck.witness("C13:environment-dependence", "results depend on the interpreter's configuration (-O, PYTHONHASHSEED=3, "
                           "cwd=/): %s" % diff, input=strip(c), expected={k: a[k] for k in diff[:3]}, observed={k: b.get(k) for k in diff[:3]})
    t3 = time.time()
    norm = []
    for case, out in zip(cases, results):
        if case.get("history"):
            derive_history_case(ck, case, out)
        n = norm_impl(out, case["group"])
        norm.append(n)
        res_impl = out.get("resolved", {})
        if res_impl.get("ok") != case["_resolved"]:
            ck.witness("C13:group-resolution", "get_all_segments_in_group differs from members-then-includes order",
                       input=strip(case), expected=case["_resolved"], observed=res_impl)
        # the three return shapes of get_ordered_segments_in_groups carry the same values
        ob = out.get("ord_both", {})
        if "ok" in ob:
            for other, keys in (("ord_cum", ("ord", "cum")), ("ord_path", ("ord", "pp", "pd")), ("ord_plain", None)):
                o = out.get(other, {})
                if "ok" not in o or (keys is None and o["ok"] != ob["ok"]["ord"]) or \
                        (keys is not None and any(o["ok"][x] != ob["ok"][x] for x in keys)):
                    ck.witness("C13:ordered_segments:return-shapes", "flag combinations of get_ordered_segments_in_groups disagree",
                               input=strip(case), expected=ob, observed={other: o})
        forms = out.get("ord_forms", [])
        base = next((v for nme, v in forms if nme == "list-of-one"), None)
        basem = next((v for nme, v in forms if nme == "list"), None)
        for nme, v in forms:
            want = basem if nme in ("list", "tuple") else base
            if want is not None and v != want:
                ck.witness("C13:ordered_segments:selection-given-as-" + nme,
                           "get_ordered_segments_in_groups gives another result when the same selection is passed as %s" % nme,
                           input=strip(case), expected={"as a list": want}, observed={nme: v})
        if "default_dist" in out:
            # the documented default source is segment 0
            for d, v in out["default_dist"]:
                exp = ref_dist(case["_ref"], 0, d)
                got = {"ok": fq(v["ok"])} if "ok" in v else v
                if ("err" in exp) != ("err" in got) or ("ok" in exp and exp["ok"] != got["ok"]) or ("err" in exp and exp["err"] != got["err"]):
                    ck.witness("C13:distance:default-source", "get_distance(dest) with the default source 0",
                               input=strip(case), expected=jq(exp), observed=v)
        bad = predicate(case, case["_ref"], n, case["_resolved"])
        seen = set()
        for comp, exp, obs in bad:
            key = witness_key(comp, case, case["_ref"])
            if key in seen:
                continue
            seen.add(key)
            ck.witness(key, "%s differs from the value given by the parent/fraction_along definition" % comp,
                       input=strip(case), expected=jq(exp), observed=jq(obs))
        sig = signature(case)
        ck.count(1, nontrivial_key=sig, sample={"kind": case["_kind"], "segments": len(case["_segs"]),
                                                "root": case["_ref"]["root"], "group": case["group"],
                                                "first_segments": jq(case["_segs"][:3])})
        ck.tally(case["_kind"] if not case.get("history") else "history")
        ck.tally("segments<=6" if len(case["_segs"]) <= 6 else "segments<=30" if len(case["_segs"]) <= 30 else "segments>30")
    t4 = time.time()
    # ---- the kernel diffs model and implementation
    CH = 150
    total_mis = 0
    jobs = []
    for fi, k in enumerate(range(0, len(cases), CH)):
        chunk = list(zip(cases[k:k + CH], norm[k:k + CH]))
        body = ";\n".join("(%s,\n %s)" % (ccell(c["_segs"]), cobs(n, c["_resolved"], c.get("_groups"))) for c, n in chunk)
        text = HEADER + "Definition cases : list case13 := [\n%s\n].\nEval vm_compute in (mismatches cases).\n" % body
        jobs.append((fi, chunk, text))
    from concurrent.futures import ThreadPoolExecutor
    with ThreadPoolExecutor(max_workers=WORKERS) as ex:     # coqc subprocesses; file names are distinct
        outs = list(ex.map(lambda j: ck.coq_eval("Cases_C13_%d.v" % j[0], j[2], timeout=1500), jobs))
    for (fi, chunk, _), (ok, res, outp) in zip(jobs, outs):
        name = "Cases_C13_%d.v:mismatches=[]" % fi
        if not ok or not res:
            ck.oblige(name, False, outp[-1500:], kind="correspondence")
            continue
        mm = parse_mismatches(res[0])
        ck.oblige(name, res[0].strip() == "[]", res[0][:500], kind="correspondence")
        for idx, comps in mm.items():
            c, n = chunk[idx]
            total_mis += 1
            if total_mis <= 5:
                mo = model_output(ck, c, n, total_mis)
                for comp in comps:
                    ck.disagree("Morph." + COMPONENT.get(comp, str(comp)), strip(c), mo, jq(component_of(n, comp)))
            else:
                ck.disagree("Morph." + ",".join(COMPONENT.get(x, str(x)) for x in comps), strip(c), "(not printed)", "")
    ck.extra["exhaustive_tree_shapes_up_to"] = ck.n(5, 6)
    ck.extra["cases_in_kernel_diff"] = len(cases)
    t5 = time.time()
    ck.compile_props()
    ck.extra["phase_seconds"] = {"known-finding replay": round(t1 - t0, 1), "generate": round(t2 - t1, 1),
                                 "implementation": round(t3 - t2, 1), "predicate": round(t4 - t3, 1),
                                 "kernel diff": round(t5 - t4, 1), "theorems": round(time.time() - t5, 1)}


def component_of(n, comp):
    return {1: n["aprox"], 2: n["lens"], 3: n["adj"], 4: n["graph"], 5: n["root"], 6: n["bp"], 7: n["tips"],
            8: n["pairs"], 9: n["all"], 10: n["ats"], 11: n.get("ord"), 13: n.get("ordm"), 12: "the generated cell is not a tree with a root proximal"}.get(comp)


def model_output(ck, c, n, k):
    text = HEADER + "Definition c := %s.\nDefinition i := %s.\nEval vm_compute in (model_obs c i).\n" % (
        ccell(c["_segs"]), cobs(n, c["_resolved"], c.get("_groups")))
    ok, res, outp = ck.coq_eval("Model_C13_%d.v" % k, text, timeout=300)
    return res[0][:4000] if ok and res else outp[-1000:]


def signature(case):
    segs = case["_segs"]
    ref = case["_ref"]
    pos = {s[0]: k for k, s in enumerate(segs)}
    # canonical shape: parent position in BFS order from the root
    order = ref["order"]
    idx = {x: k for k, x in enumerate(order)}
    by = {s[0]: s for s in segs}
    shape = tuple(-1 if by[x][1] is None else idx[by[x][1]] for x in order)
    fr = tuple(sorted(str(s[2]) for s in segs if s[2] is not None))
    px = tuple(by[x][3] is not None for x in order)
    ids_sorted = tuple(sorted(pos)) == tuple(range(len(segs)))
    docorder = tuple(pos[x] for x in order) if len(segs) <= 8 else hash(tuple(pos[x] for x in order)) % 97
    return json.dumps([shape, fr, px, ref["root"] == 0, ids_sorted, docorder, case["group"], case.get("history"),
                       case.get("graph_first")], default=str)


def replay(ck, data):
    case = data.get("input") or {}
    if "segs" not in case:
        print(json.dumps(data, indent=1)[:4000])
        return 0
    out = ck.impl("c13_impl.py", {"cases": [case]})["results"][0]
    segs = [[s[0], s[1], None if s[2] is None else F(s[2]), None if s[3] is None else tuple(F(x) for x in s[3]),
             tuple(F(x) for x in s[4])] for s in case["segs"]]
    if case.get("history") and "snapshot" in out:
        segs = rows_from_snapshot(out["snapshot"])       # the state the measured queries saw
    ref = reference(segs)
    cached = out.get("adj_cached")
    if cached is not None and sorted(cached) != sorted([[k, v] for k, v in ref["kids"].items()]):
        print("cell.adjacency_list left by the history differs from the definition:", sorted(cached))
    print(json.dumps({"input": case, "implementation": out,
                      "definition": jq({k: ref[k] for k in ("root", "aprox", "len", "dist_root", "branch", "tips")}),
                      "stored_expected": data.get("expected"), "stored_observed": data.get("observed")}, indent=1)[:8000])
    c2 = dict(case)
    c2["_segs"], c2["_ref"] = segs, ref
    c2["_groups"] = case.get("groups")
    c2["_resolved"] = resolve(case["groups"], case["group"]) if case.get("group") is not None else None
    n = norm_impl(out, case.get("group"))
    bad = predicate(c2, ref, n, c2["_resolved"])
    print("property predicate on the implementation:", "FAILS " + ", ".join(sorted(set(b[0] for b in bad))) if bad else "holds")
    return 1 if bad else 0
