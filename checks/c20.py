"""C20 — the shipped bindings are what regeneration from the sources would produce.

translate (tr_helpers) -> Gen_C20.v (both statement tables, class/complex-type names, schema names)
Inst_C20.v : regen_ok facts = true  by vm_compute      Props/C20.v : regen_spec facts
On a broken obligation the first differing (class, method, statement) IS the failing input
(the property quantifies over programs = (class, helper) pairs).
"""
import json
import os
import subprocess

from lib.vcommon import PY, VERIF, coq_list, coq_str, impl_env


def _items(tab):
    return coq_list(["(%s, %s)" % (coq_str(c), coq_list(["(%s, %s)" % (coq_str(n), coq_list([coq_str(s) for s in st]))
                                                             for n, st in items])) for c, items in tab])


def translate(ck):
    p = subprocess.run([PY, os.path.join(VERIF, "translators", "tr_helpers.py")], capture_output=True, text=True,
                       env=impl_env(), timeout=300)
    if p.returncode != 0:
        ck.oblige("translate:tr_helpers", False, p.stderr[-2000:], kind="translate")
        return None
    ck.oblige("translate:tr_helpers", True, kind="translate")
    return json.loads(p.stdout.strip().splitlines()[-1])


def translate_full(ck):
    p = subprocess.run([PY, os.path.join(VERIF, "translators", "tr_regen.py")], capture_output=True, text=True,
                       env=impl_env(), timeout=900)
    if p.returncode != 0:
        ck.oblige("translate:tr_regen", False, p.stderr[-2000:], kind="translate")
        return None
    ck.oblige("translate:tr_regen", True, kind="translate")
    return json.loads(p.stdout.strip().splitlines()[-1])


def _units(us):
    return coq_list(["(%s, %s, %s)" % (coq_str(o), coq_str(m), coq_str(d)) for o, m, d in us])


def _pairs(ps):
    return coq_list(["(%s, %s)" % (coq_str(a), coq_str(b)) for a, b in ps])


def full_diffs(f):
    out = [dict(kind="regenerated-unit", **{"class": x["owner"], "method": x["member"]},
                regenerated=x["regenerated"], shipped=x["shipped"]) for x in f["differences"]]
    if f["header_options"] != f["script_options"]:
        out.append({"kind": "generator-options", "class": "", "method": "header-vs-script",
                    "shipped_header": f["header_options"], "regenerate_script": f["script_options"]})
    return out


def first_diffs(d):
    """concrete failing (class, method, statement) pairs"""
    out = []
    s = dict((c, i) for c, i in d["src"])
    n = dict((c, i) for c, i in d["nml"])
    for c in sorted(set(s) | set(n)):
        a, b = s.get(c, []), n.get(c, [])
        if a == b:
            continue
        an, bn = [x[0] for x in a], [x[0] for x in b]
        if an != bn:
            out.append({"class": c, "kind": "placement", "source_methods": an, "bindings_methods": bn})
            continue
        for x, y in zip(a, b):
            if x != y:
                idx = next((i for i, (u, v) in enumerate(zip(x[1], y[1])) if u != v), min(len(x[1]), len(y[1])))
                out.append({"class": c, "kind": "statement", "method": x[0], "statement_index": idx,
                            "source": x[1][idx] if idx < len(x[1]) else None,
                            "bindings": y[1][idx] if idx < len(y[1]) else None})
    for sp, cn in d["dangling_specs"]:
        out.append({"kind": "dangling-spec", "spec": sp, "class": cn})
    if d["binding_classes"] != d["complex_types"]:
        out.append({"kind": "classes-vs-complex-types",
                    "only_in_bindings": sorted(set(d["binding_classes"]) - set(d["complex_types"])),
                    "only_in_schema": sorted(set(d["complex_types"]) - set(d["binding_classes"]))})
    if d["name_table_regen"] != d["name_table_shipped"]:
        a, b = dict(map(tuple, d["name_table_regen"])), dict(map(tuple, d["name_table_shipped"]))
        out.append({"kind": "name-table", "class": "", "method": "generateds_config",
                    "differences": [[k, b.get(k), a.get(k)] for k in sorted(set(a) | set(b)) if a.get(k) != b.get(k)][:20],
                    "meaning": "[xml name, member name in the shipped name_table.csv, member name regeneration would now use]"})
    for v in d["member_name_violations"][:10]:
        out.append({"kind": "member-name", "class": v[0], "method": v[1], "bindings": v[2], "table": v[3]})
    if d["exported_classes"] != d["complex_types"]:
        out.append({"kind": "public-export-vs-complex-types",
                    "not_exported": sorted(set(d["complex_types"]) - set(d["exported_classes"])),
                    "exported_without_type": sorted(set(d["exported_classes"]) - set(d["complex_types"]))})
    want = "NeuroML_%s.xsd" % d["current"]
    for k in ("header_schema", "writer_schema", "regen_schema"):
        if d[k] != want:
            out.append({"kind": "schema-name", "where": k, "found": d[k], "expected": want})
    if not d["regen_uses_helper_methods"]:
        out.append({"kind": "regen-script-does-not-use-helper_methods.py"})
    if not d["schema_exists"]:
        out.append({"kind": "schema-file-missing", "expected": want})
    return out


def run(ck):
    ck.rule = ("every (class, helper item) pair of both tables is compared statement by statement by the kernel; "
               "non-trivial = a pair with at least one body statement; distinct by (class, method, position)")
    ck.trusted = ["Coq 8.16.1 kernel + vm_compute (no native_compute)",
                  "translators/tr_helpers.py (python ast.parse/ast.unparse normal form, docstrings stripped; "
                  "helper_methods.py executed by path and interpolated as generateDS.generateUserMethods does)",
                  "template-method name list of generateDS 2.44 (everything else in a class body must come from a spec)",
                  "translators/tr_regen.py (runs /venv/bin/generateDS.py with the command line read from regenerate-nml.sh in a "
                  "scratch copy of neuroml/nml; sha256 digests of docstring/annotation-free ast.dump per unit; the "
                  "`<C>.superclass.validate_(...)` statement newer generators append is dropped from the regenerated side "
                  "when the installed generator is not the one named in the shipped header)",
                  "the installed generateDS (the generator itself is not modelled)"]
    ck.assumptions = ["ast.unparse-equal statements behave equally", "comments/docstrings/formatting are not behaviour"]
    ck.gate_static()
    d = translate(ck)
    if d is None:
        return
    gen = ["From Coq Require Import String List Bool.", "From LNML Require Import Model.Regen.",
           "Import ListNotations.", "Open Scope string_scope.",
           "Definition facts : regen_facts := {|",
           "  rf_src := %s;" % _items(d["src"]),
           "  rf_nml := %s;" % _items(d["nml"]),
           "  rf_dangling := %s;" % coq_list(["(%s, %s)" % (coq_str(a), coq_str(b)) for a, b in d["dangling_specs"]]),
           "  rf_name_table_regen := %s;" % coq_list(["(%s, %s)" % (coq_str(a), coq_str(b)) for a, b in d["name_table_regen"]]),
           "  rf_name_table_shipped := %s;" % coq_list(["(%s, %s)" % (coq_str(a), coq_str(b)) for a, b in d["name_table_shipped"]]),
           "  rf_member_name_violations := %s;" % coq_list(["(%s, %s)" % (coq_str(v[0]), coq_str(v[1])) for v in d["member_name_violations"]]),
           "  rf_binding_classes := %s;" % coq_list([coq_str(x) for x in d["binding_classes"]]),
           "  rf_exported_classes := %s;" % coq_list([coq_str(x) for x in d["exported_classes"]]),
           "  rf_complex_types := %s;" % coq_list([coq_str(x) for x in d["complex_types"]]),
           "  rf_current := %s;" % coq_str(d["current"]),
           "  rf_header_schema := %s;" % coq_str(d["header_schema"]),
           "  rf_writer_schema := %s;" % coq_str(d["writer_schema"]),
           "  rf_regen_schema := %s;" % coq_str(d["regen_schema"]),
           "  rf_regen_uses_helpers := %s;" % ("true" if d["regen_uses_helper_methods"] else "false"),
           "  rf_schema_exists := %s |}." % ("true" if d["schema_exists"] else "false")]
    g = ck.gen_v("Gen_C20.v", "\n".join(gen) + "\n")
    ok, out = ck.coqc(g)
    ck.oblige("Gen_C20.v:compiles", ok, out[-1500:], kind="translate")
    inst = ck.gen_v("Inst_C20.v", "From Coq Require Import String List Bool.\nFrom LNML Require Import Model.Regen.\n"
                                  "From Run Require Import Gen_C20.\n"
                                  "Lemma facts_ok : regen_ok Gen_C20.facts = true.\nProof. vm_compute. reflexivity. Qed.\n")
    iok, _ = ck.compile_obligations(inst, kind="instance")
    # ---- whole-file regeneration (generateDS re-run now)
    f = translate_full(ck)
    fok = False
    if f is not None:
        g2 = ck.gen_v("Gen_C20full.v", "From Coq Require Import String List Bool.\nFrom LNML Require Import Model.RegenFull.\n"
                      "Import ListNotations.\nOpen Scope string_scope.\nDefinition facts : full_facts := {|\n"
                      "  ff_regen := %s;\n  ff_shipped := %s;\n  ff_header_opts := %s;\n  ff_script_opts := %s |}.\n"
                      % (_units(f["regen_units"]), _units(f["shipped_units"]), _pairs(f["header_options"]),
                         _pairs(f["script_options"])))
        ok2, out2 = ck.coqc(g2)
        ck.oblige("Gen_C20full.v:compiles", ok2, out2[-1500:], kind="translate")
        inst2 = ck.gen_v("Inst_C20full.v", "From Coq Require Import String List Bool.\nFrom LNML Require Import Model.RegenFull.\n"
                         "From Run Require Import Gen_C20full.\n"
                         "Lemma full_ok_holds : full_ok Gen_C20full.facts = true.\nProof. vm_compute. reflexivity. Qed.\n")
        fok, _ = ck.compile_obligations(inst2, kind="instance")
        ck.extra["regenerated_units"] = len(f["regen_units"])
        ck.extra["generator_version"] = f["generator_version"]
        ck.extra["header_generator_version"] = f["header_version"]
        ck.extra["normalised_superclass_validate_statements"] = f["normalised_super_validate"]
        ck.tally("regenerated_units", len(f["regen_units"]))
        for o, m, _ in f["shipped_units"]:
            ck.count(1, nontrivial_key=("unit", o, m))
        for df in full_diffs(f):
            key = "C20:%s:%s:%s" % (df["kind"], df["class"], df["method"])
            ck.witness(key, "regenerating the bindings changes %s.%s: %s" % (df["class"], df["method"], json.dumps(df)[:300]),
                       input=df, broken="Inst_C20full.v:full_ok_holds")
    if iok and fok:
        ck.compile_props()
    else:
        ck.oblige("Props_C20.v:C20_regeneration_changes_nothing", False,
                  "instance obligation %s failed" % ("facts_ok" if not iok else "full_ok_holds"), kind="theorem")
    # coverage: the pairs the kernel compared
    for c, items in d["src"]:
        for i, (n, st) in enumerate(items):
            ck.count(1, nontrivial_key=(c, n, i) if len(st) > 1 or n == "<stmt>" else None,
                     sample={"class": c, "method": n, "statements": len(st) - 1, "first": st[:2]} if i == 0 else None)
    ck.extra["classes_with_helpers"] = len(d["src"])
    ck.extra["class_complex_type_pairs"] = len(d["complex_types"])
    ck.extra["exhaustive"] = True
    ck.tally("helper_items_source", sum(len(i) for _, i in d["src"]))
    ck.tally("helper_items_bindings", sum(len(i) for _, i in d["nml"]))
    # failing inputs (program pairs) when the obligation is false
    for df in first_diffs(d):
        key = "C20:%s:%s:%s" % (df.get("kind"), df.get("class", ""), df.get("method", df.get("where", "")))
        ck.witness(key, "bindings differ from what regeneration would produce: %s" % json.dumps(df)[:300],
                   input=df, broken="Inst_C20.v:facts_ok")


def replay(ck, data):
    d = translate(ck)
    diffs = first_diffs(d) if d else None
    f = translate_full(ck)
    if f is not None and diffs is not None:
        diffs = diffs + full_diffs(f)
    print(json.dumps({"stored": data.get("input", data), "current_differences": diffs}, indent=1)[:6000])
    return 1 if diffs else 0
