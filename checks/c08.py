"""C08 - a failed read or write leaves the document and the process clean.

translate (tr_skeleton)  ->  Gen_C08.v : every entry point as a `cmd` of Model/Resource.v, with its call modes
Inst_C08_<entry>_<mode>.v : safe_in mode skel = true /\\ reports_in mode skel = true     (vm_compute, one file each)
Inst_C08.v : all_ok entries = true ;  Props/C08.v : C08_* theorems (generic + over the generated entries)
correspondence : real fault injection (impl/c08_impl.py) at every file-layer call, the observation
  (raised?, handles left open, document changed?) must be among the model's predictions for a fault at the
  statement named by the traceback  (Cases_C08_*.v, kernel-evaluated `mismatches`)
property predicate on the implementation (always): raised, nothing left open, document unchanged, retry succeeds;
  every truncation of a written XML file is rejected.
"""
import json
import os
import re
import subprocess

from lib.vcommon import PY, VERIF, coq_list, coq_str, impl_env

MODES = {
    "NeuroMLWriter.write": {
        "path": [("isinstance(file, str)", True), ("close", True)],
        "handle": [("isinstance(file, str)", False), ("close", False)],
    },
    "NeuroMLHdf5Writer.write": {"embed": [("embed_xml", True)], "noembed": [("embed_xml", False)]},
    "ArrayMorphWriter.write": {
        "morph": [("isinstance(data, ArrayMorphology)", True), ("isinstance(data, neuroml.NeuroMLDocument)", False)],
        # the documented restriction (known finding C08:ArrayMorphWriter.write:fills-missing-ids): every cell and
        # morphology of the document has an id
        "doc": [("isinstance(data, ArrayMorphology)", False), ("isinstance(data, neuroml.NeuroMLDocument)", True),
                ("morphology.id is None", False), ("cell.id is None", False)],
    },
}
# modes that are executed on the implementation but are not obligations (known finding)
EXTRA_MODES = {
    "ArrayMorphWriter.write": {
        "doc_missing_ids": [("isinstance(data, ArrayMorphology)", False), ("isinstance(data, neuroml.NeuroMLDocument)", True)],
    },
}
OP_ENTRY = {
    "xml_write_path": ("NeuroMLWriter.write", "path"), "xml_write_handle": ("NeuroMLWriter.write", "handle"),
    "xml_write_path_opt": ("NeuroMLWriter.write", "path"), "xml_write_handle_opt": ("NeuroMLWriter.write", "handle"),
    "h5_write_embed": ("NeuroMLHdf5Writer.write", "embed"), "h5_write_noembed": ("NeuroMLHdf5Writer.write", "noembed"),
    "am_write_morph": ("ArrayMorphWriter.write", "morph"), "am_write_doc": ("ArrayMorphWriter.write", "doc"),
    "am_load": ("ArrayMorphLoader.load", ""), "h5_parse": ("NeuroMLHdf5Parser.parse", ""),
    "h5_parse_opt": ("NeuroMLHdf5Parser.parse", ""), "h5_load": ("NeuroMLHdf5Loader.load", ""),
    "h5_load_opt": ("NeuroMLHdf5Loader.load", ""), "xml_load": ("NeuroMLLoader.load", ""),
    "file_xml": ("read_neuroml2_file", ""), "file_xml_inc": ("read_neuroml2_file", ""),
    "file_h5": ("read_neuroml2_file", ""), "string_xml": ("read_neuroml2_string", ""),
}
# The refusals of the exportHdf5 methods this check exercises (class, guards outermost first), in the order of the
# translator's table (file, class, line), and for each the minimal documents that trigger it (network spec fragments).
_CP = "for connection in self.continuous_connections + self.continuous_connection_instances + self.continuous_connection_instance_ws"
_EP = "for connection in self.electrical_connections + self.electrical_connection_instances + self.electrical_connection_instance_ws"
EXPECTED_REFUSALS = [
    ("ContinuousProjection", [_CP, "connection.pre_component != pre_comp or connection.post_component != post_comp"],
     [{"cprojs": [{"id": "cp", "pre": "p0", "post": "p0", "vary": v}]} for v in ("pre", "post", "both")]),
    ("ElectricalProjection", [_EP, "connection.synapse != syn"],
     [{"eprojs": [{"id": "ep", "pre": "p0", "post": "p0", "vary": True}]}]),
    ("Network", ["len(self.synaptic_connections) > 0"], [{"synaptic_connections": 1}]),
    ("Network", ["len(self.explicit_inputs) > 0"], [{"explicit_inputs": 1}]),
    ("Network", ["len(self.spaces) > 0 or len(self.regions) > 0"], [{"spaces": 1}, {"regions": 1}, {"spaces": 1, "regions": 1}]),
    ("Network", ["len(self.extracellular_properties) > 0"], [{"extracellular": 1}]),
    ("Network", ["len(self.cell_sets) > 0"], [{"cell_sets": 1}]),
    ("Population", ["self.layout is not None"], [{"layout": True}]),
]
# documents the layout CAN hold although they look similar (must be written without an exception)
HOLDABLE = [{"cprojs": [{"id": "cp", "pre": "p0", "post": "p0", "vary": ""}]},
            {"eprojs": [{"id": "ep", "pre": "p0", "post": "p0", "vary": False}]}]


def coq_refusals(rows):
    return coq_list(["(%s, %s)" % (coq_str(c), coq_list([coq_str(g) for g in gs])) for c, gs in rows])


KNOWN_IDS_KEY = "C08:ArrayMorphWriter.write:fills-missing-ids"


# ------------------------------------------------------------------------------------------- Coq rendering
def coq_cmd(c):
    k = c[0]
    if k in ("Skip", "Ret"):
        return k
    if k in ("Op", "MayRaise", "Open", "Close"):
        return "(%s %s %s)" % (k, coq_str(c[1]), coq_str(c[2]))
    if k in ("Raise", "Mut", "Restore"):
        return "(%s %s)" % (k, coq_str(c[1]))
    if k == "Seq":
        return "(Seq %s %s)" % (coq_cmd(c[1]), coq_cmd(c[2]))
    if k == "Loop":
        return "(Loop %s)" % coq_cmd(c[1])
    if k == "Guard":
        return "(Guard %s %s %s)" % (coq_str(c[1]), coq_cmd(c[2]), coq_cmd(c[3]))
    if k == "TryExcept":
        return "(TryExcept %s %s %s)" % (coq_cmd(c[1]), coq_list([coq_str(x) for x in c[2]]), coq_cmd(c[3]))
    if k == "TryFinally":
        return "(TryFinally %s %s)" % (coq_cmd(c[1]), coq_cmd(c[2]))
    if k == "With":
        return "(With %s %s %s)" % (coq_str(c[1]), coq_str(c[2]), coq_cmd(c[3]))
    raise ValueError(k)


def coq_mode(m):
    return coq_list(["(%s, %s)" % (coq_str(g), "true" if v else "false") for g, v in m])


def ident(s):
    return re.sub(r"[^A-Za-z0-9]", "_", s)


HEADER = ("From Coq Require Import String List Bool.\nFrom LNML Require Import Model.Resource.\n"
          "Import ListNotations.\nOpen Scope string_scope.\n")


def translate(ck):
    p = subprocess.run([PY, os.path.join(VERIF, "translators", "tr_skeleton.py")], capture_output=True, text=True,
                       env=impl_env(), timeout=300)
    if p.returncode != 0:
        ck.oblige("translate:tr_skeleton", False, p.stderr[-2000:], kind="translate")
        return None
    d = json.loads(p.stdout.strip().splitlines()[-1])
    ck.oblige("translate:tr_skeleton", True, kind="translate")
    for u in d["untranslatable"]:
        ck.oblige("translate:" + u, False, "statement shape outside the translated fragment", kind="translate")
    return d


def modes_of(name):
    return MODES.get(name, {"": []})


# ------------------------------------------------------------------------------------------- generators
def gen_doc(rng, rich=True, nets=1):
    spec = {"id": "d%d" % rng.randrange(1000), "iaf": rng.randrange(1, 3), "syn": 1, "pg": 1}
    if rng.random() < 0.5:
        spec["notes"] = "some notes"
    nnets = nets
    nets = []
    for i in range(nnets):
        pops = []
        for j in range(rng.randrange(1, 4)):
            p = {"id": "p%d_%d" % (i, j), "comp": "iaf0"}
            if rng.random() < 0.5:
                p["instances"] = rng.randrange(1, 4)
                p["desc"] = rng.random() < 0.5
            else:
                p["size"] = rng.randrange(1, 5)
            if rng.random() < 0.3:
                p["props"] = {"color": "1 0 0"}
            pops.append(p)
        n = {"id": "net%d" % i, "pops": pops, "projs": [], "ils": []}
        for j in range(rng.randrange(0, 3)):
            n["projs"].append({"id": "proj%d_%d" % (i, j), "pre": rng.choice(pops)["id"], "post": rng.choice(pops)["id"],
                               "conns": rng.randrange(0, 3), "connwds": rng.randrange(0, 2)})
        for j in range(rng.randrange(0, 2)):
            n["ils"].append({"id": "il%d_%d" % (i, j), "pop": rng.choice(pops)["id"], "inputs": rng.randrange(1, 3)})
        nets.append(n)
    spec["networks"] = nets
    return spec


def gen_ops(ck):
    rng = ck.rng
    nf = ck.n(16, "all")  # fault indices per op in the quick tier (spread over the trace), all of them in thorough
    ops = []
    # --- stored witnesses first (DESIGN.md section 7): a network with an explicit input / a component that cannot
    #     be exported, written to HDF5
    d_exp = {"id": "w1", "iaf": 1, "pg": 1, "networks": [{"id": "n", "pops": [{"id": "p0", "size": 2}], "explicit_inputs": 1}]}
    d_bad = {"id": "w2", "iaf": 1, "bad_component": True, "networks": [{"id": "n", "pops": [{"id": "p0", "size": 2}]}]}
    d_syn = {"id": "w3", "iaf": 1, "syn": 1, "networks": [{"id": "n", "pops": [{"id": "p0", "size": 2}], "synaptic_connections": 1}]}
    d_desc = {"id": "w0", "iaf": 1, "networks": [{"id": "n", "pops": [{"id": "p0", "instances": 4, "desc": True}]}]}
    ops.append({"op": "h5_write_embed", "doc": d_desc, "faults": ck.n(8, "all")})  # instance list not in id order
    ops.append({"op": "h5_write_embed", "doc": d_exp, "faults": [], "must_raise": True})
    ops.append({"op": "h5_write_noembed", "doc": d_exp, "faults": [], "must_raise": True})
    ops.append({"op": "h5_write_embed", "doc": d_bad, "faults": [], "must_raise": True})
    ops.append({"op": "h5_write_noembed", "doc": d_syn, "faults": [], "must_raise": True})
    ops.append({"op": "h5_write_embed", "doc": d_syn, "faults": [], "must_raise": True})
    ops.append({"op": "xml_write_path", "doc": d_bad, "faults": [], "must_raise": True})
    ops.append({"op": "xml_write_handle", "doc": d_bad, "faults": [], "must_raise": True})
    # every refusal the exportHdf5 methods implement, in every minimal variant (cf. the refusals_ok obligation)
    for cls, guards, variants in EXPECTED_REFUSALS:
        for v in variants:
            dv = {"id": "r_" + cls, "iaf": 1, "syn": 1, "pg": 1, "networks": [dict({"id": "n", "pops": [{"id": "p0", "size": 2}]}, **v)]}
            ops.append({"op": "h5_write_embed", "doc": dv, "faults": [], "must_raise": True})
            ops.append({"op": "h5_write_noembed", "doc": dv, "faults": [], "must_raise": True})
    for v in HOLDABLE:
        dv = {"id": "holdable", "iaf": 1, "networks": [dict({"id": "n", "pops": [{"id": "p0", "size": 2}]}, **v)]}
        ops.append({"op": "h5_write_embed", "doc": dv, "faults": ck.n(6, "all")})
    # documents holding array morphologies (list-like views with their own iteration): XML and HDF5 with embedded XML
    d_am = {"id": "am1", "iaf": 1, "am_cells": [{"id": "c0", "n": 6, "mid": "m0"}, {"id": "c1", "n": 4, "mid": "m1"}],
            "networks": [{"id": "n", "pops": [{"id": "p0", "comp": "c0", "size": 2}]}]}
    ops.append({"op": "xml_write_path", "doc": d_am, "faults": ck.n(30, "all")})
    ops.append({"op": "h5_write_embed", "doc": d_am, "faults": ck.n(30, "all")})
    # non-network content above the 64 kB an HDF5 attribute can hold (the embedded XML is stored as one attribute):
    # must raise and clean up - or, should a later version store it elsewhere, the file must give every component back
    ops.append({"op": "h5_write_embed", "doc": {"id": "big", "iaf": 800, "networks": [{"id": "n", "pops": [{"id": "p0", "size": 2}]}]},
                "faults": [], "must_raise": True, "or_roundtrip": True})
    # scale: one large array morphology (6000 segments) with a few user-assigned segments: a write that walks it - failing
    # by injection, or naturally because the embedded XML exceeds an HDF5 attribute - must leave the user's segments alone
    d_big_am = {"id": "bigam", "am_cells": [{"id": "c0", "n": 6001, "mid": "m0", "edited": [5, 10, 4500]}],
                "networks": [{"id": "n", "pops": [{"id": "p0", "comp": "c0", "size": 1}]}]}
    ops.insert(0, {"op": "xml_write_path", "doc": d_big_am, "faults": ck.n("late", 12)})
    ops.insert(1, {"op": "h5_write_embed", "doc": d_big_am, "faults": [], "must_raise": True, "or_roundtrip": True})
    # two networks: the HDF5 layout (one group "network") cannot hold them
    ops.append({"op": "h5_write_embed", "doc": gen_doc(rng, nets=2), "faults": [], "must_raise": True})
    # the known finding: default ids are written into the caller's document
    ops.append({"op": "am_write_doc", "doc": {"id": "a0", "am_cells": [{"id": None, "n": 3, "mid": None}]}, "faults": nf})
    # a document in the optimized representation (array backed lists with their own iteration cursor), written as XML
    d_opt = {"id": "o1", "iaf": 1, "syn": 1, "pg": 1, "embed": False,
             "networks": [{"id": "n", "pops": [{"id": "p0", "instances": 6}, {"id": "p1", "instances": 3, "desc": True}],
                           "projs": [{"id": "pr", "pre": "p0", "post": "p1", "conns": 4}],
                           "ils": [{"id": "il", "pop": "p0", "inputs": 3}]}]}
    ops.append({"op": "xml_write_path_opt", "doc": d_opt, "faults": ck.n(30, "all")})
    ops.append({"op": "xml_write_handle_opt", "doc": dict(d_opt, embed=True), "faults": ck.n(12, "all")})
    # --- generated
    for i in range(ck.n(3, 14)):
        d = gen_doc(rng)
        ops.append({"op": "h5_write_embed", "doc": d, "faults": nf})
        ops.append({"op": "h5_write_noembed", "doc": d, "faults": nf})
        ops.append({"op": "xml_write_path", "doc": d, "faults": nf, "kinds": ["OSError", "AttributeError"]})
        ops.append({"op": "xml_write_handle", "doc": d, "faults": nf, "kinds": ["OSError", "AttributeError"]})
        if i % 2 == 0:
            ops.append({"op": "xml_write_path_opt", "doc": dict(d, embed=rng.random() < 0.5), "faults": nf})
        ops.append({"op": rng.choice(["h5_parse", "h5_parse_opt"]), "doc": dict(d, embed=rng.random() < 0.7), "faults": nf})
        ops.append({"op": rng.choice(["h5_load", "h5_load_opt"]), "doc": dict(d, embed=True), "faults": nf})
        ops.append({"op": "file_h5", "doc": dict(d, embed=True), "faults": ck.n(6, 30)})
    for i in range(ck.n(1, 6)):
        d = gen_doc(rng, rich=False)
        ops.append({"op": "xml_load", "doc": d, "faults": "all"})
        ops.append({"op": "file_xml", "doc": d, "faults": "all"})
        ops.append({"op": "file_xml_inc", "doc": dict(d, includes=["inc_a.nml", "inc_b.nml"]), "faults": "all"})
        ops.append({"op": "string_xml", "doc": d, "faults": "all"})
    for i in range(ck.n(1, 6)):
        n = rng.randrange(2, 6)
        ops.append({"op": "am_write_morph", "doc": {"n": n, "mid": rng.choice([None, "m%d" % i])}, "faults": "all"})
        cells = [{"id": "c%d" % j, "n": rng.randrange(2, 5), "mid": "m%d" % j} for j in range(rng.randrange(1, 3))]
        ops.append({"op": "am_write_doc", "doc": {"id": "a%d" % i, "am_cells": cells}, "faults": nf})
        # a stand-alone morphology next to cells: the array writer cannot hold it (duplicate group) -> natural failure
        ops.append({"op": "am_write_doc", "doc": {"id": "b%d" % i, "am_cells": cells[:1], "am_morphs": [{"n": 2, "mid": "sm"}]},
                    "faults": []})
        ops.append({"op": "am_load", "doc": {"n": n, "mid": "m0"}, "faults": "all"})
        ops.append({"op": "am_load", "doc": {"id": "a%d" % i, "am_cells": cells}, "faults": "all"})
    return ops


def run_impl(ck, ops, trunc):
    """shard over processes; in/out through files (a pipe that nobody drains would block a chatty child)"""
    nsh = min(8, max(1, len(ops)))
    shards = [{"ops": ops[i::nsh], "truncate": trunc if i == 0 else []} for i in range(nsh)]
    procs = []
    for i, sh in enumerate(shards):
        fin = os.path.join(ck.build, "impl_in_%d.json" % i)
        with open(fin, "w") as f:
            json.dump(sh, f)
        fo = open(os.path.join(ck.build, "impl_out_%d.txt" % i), "w")
        fe = open(os.path.join(ck.build, "impl_err_%d.txt" % i), "w")
        p = subprocess.Popen([PY, os.path.join(VERIF, "impl", "c08_impl.py")], stdin=open(fin), stdout=fo, stderr=fe,
                             text=True, env=impl_env(), cwd=ck.build)
        procs.append((p, fo, fe))
    out = {"ops": [], "truncate": []}
    for p, fo, fe in procs:
        try:
            p.wait(timeout=ck.n(300, 1500))
        except subprocess.TimeoutExpired:
            for q, _, _ in procs:
                q.kill()
            raise RuntimeError("c08_impl timed out")
        fo.close()
        fe.close()
        lines = [l for l in open(fo.name).read().splitlines() if l.strip()]
        if p.returncode != 0 or not lines:
            raise RuntimeError("c08_impl failed (rc=%s, %d output lines): %s" % (p.returncode, len(lines), open(fe.name).read()[-2000:]))
        d = json.loads(lines[-1])
        out["ops"] += d["ops"]
        out["truncate"] += d["truncate"]
    return out


# ------------------------------------------------------------------------------------------- site mapping
NESTED_MODE = {"NeuroMLWriter.write": "handle"}  # mode of an entry point when another entry point calls it


def frame_in(entry, f):
    for rel, fn, a, b in entry["functions"]:
        if f[0] == rel and f[1].lstrip("_") == fn.lstrip("_") and a <= f[2] <= b:
            return True
    return False


def sites_at(entry, hit):
    labs = [s for s in entry["sites"] if s["file"] == hit[0] and s["stmt"][0] <= hit[2] <= s["stmt"][1]
            and s["kind"] in ("Op", "Open", "Close", "With")]
    if labs:  # the innermost statement: the candidates with the narrowest range
        width = min(s["stmt"][1] - s["stmt"][0] for s in labs)
        labs = [s for s in labs if s["stmt"][1] - s["stmt"][0] == width]
    return [s["label"] for s in labs]


def chain_of(entries, first, frames):
    """the entry points the exception passed through, outermost first: [(entry name, frame, site labels)]"""
    chain = []
    cur = None
    for f in frames or []:
        owner = None
        if cur is not None and frame_in(entries[cur], f):
            owner = cur
        else:
            for n, e in entries.items():
                if n != cur and frame_in(e, f) and (chain or n == first):
                    owner = n
                    break
        if owner is None:
            continue
        if owner == cur:
            chain[-1] = (owner, f)
        else:
            chain.append((owner, f))
            cur = owner
    return [(n, f, sites_at(entries[n], f)) for n, f in chain]


CONFIG_CASES = [
    # merges of >= 3 elements into ONE member list: from includes, and from the XML embedded in an HDF5 file
    {"op": "file_xml_inc", "doc": {"id": "c1", "iaf": 1, "syn": 1, "includes": ["ia.nml", "ib.nml", "ic.nml", "id.nml", "ie.nml"]}},
    {"op": "h5_load", "doc": {"id": "c2", "iaf": 5, "syn": 4, "pg": 3, "embed": True,
                              "networks": [{"id": "n", "pops": [{"id": "p0", "size": 2}, {"id": "p1", "instances": 3}]}]}},
    {"op": "file_h5", "doc": {"id": "c3", "iaf": 4, "syn": 3, "embed": True, "networks": [{"id": "n", "pops": [{"id": "p0", "size": 2}]}]}},
    {"op": "string_xml", "doc": {"id": "c4", "iaf": 3, "syn": 2}},
    {"op": "xml_write_path", "doc": {"id": "c5", "iaf": 3, "syn": 2, "pg": 2, "notes": "n",
                                     "networks": [{"id": "n", "pops": [{"id": "p0", "instances": 3, "props": {"a": "1", "b": "2"}}]}]}},
    {"op": "h5_write_embed", "doc": {"id": "c6", "iaf": 3, "syn": 3, "networks": [{"id": "n", "pops": [{"id": "p0", "size": 2, "props": {"a": "1"}}]}]}},
    {"op": "h5_load_opt", "doc": {"id": "c7", "iaf": 3, "embed": True, "networks": [{"id": "n", "pops": [{"id": "p0", "instances": 3}]}]}},
]


def other_configurations(ck):
    """the interpreter's configuration is not input: the same reads / writes in fresh processes with other hash seeds
    (set / dict-key iteration order), from another working directory and under `python -O` must give the same documents
    - WITH the order of every list - and the same written XML"""
    import concurrent.futures as cf
    variants = [("default", {}), ("PYTHONHASHSEED=1", {"extra_env": {"PYTHONHASHSEED": "1"}}),
                ("PYTHONHASHSEED=3,cwd=/", {"extra_env": {"PYTHONHASHSEED": "3"}, "cwd": "/"}),
                ("PYTHONHASHSEED=7", {"extra_env": {"PYTHONHASHSEED": "7"}}), ("python-O", {"pyflags": ["-O"]})]

    def one(v):
        try:
            return ck.impl("c08_impl.py", {"config_cases": CONFIG_CASES}, timeout=300, **v[1]).get("config")
        except Exception as e:  # noqa: BLE001
            return "ERR " + str(e)[-800:]

    with cf.ThreadPoolExecutor(5) as ex:
        outs = list(ex.map(one, variants))
    ref = outs[0]
    for (label, _), o in zip(variants, outs):
        ck.oblige("impl:c08_impl.py:configuration[%s]" % label, isinstance(o, list), o if isinstance(o, str) else "", kind="correspondence")
    if not isinstance(ref, list):
        return
    for (label, _), o in zip(variants[1:], outs[1:]):
        if not isinstance(o, list):
            continue
        for case, a, b in zip(CONFIG_CASES, ref, o):
            ck.count(1, nontrivial_key=["configuration", label, case["op"]])
            ck.tally("other-interpreter-configuration")
            if a["output"] != b["output"]:
                x, y = a["output"] or "", b["output"] or ""
                i = next((i for i, (p, q) in enumerate(zip(x, y)) if p != q), min(len(x), len(y)))
                ck.witness("C08:interpreter-configuration:%s:%s" % (label.split(",")[0], case["op"]),
                           "under %s the result of %s differs from the default interpreter's (documents are compared with list order)"
                           % (label, case["op"]), input={"config_case": case, "configuration": label},
                           expected=x[max(0, i - 150):i + 150], observed=y[max(0, i - 150):i + 150])


def many_failures(ck):
    """"the same call succeeds once the cause is removed" after MANY failures in one process: 40 failed reads of each
    kind, then the intact input must load and equal what a process without failures loads"""
    spec = {"doc": {"id": "rp", "iaf": 2, "syn": 1, "networks": [{"id": "n", "pops": [{"id": "p0", "size": 2}]}],
                    "includes": ["ra.nml", "rb.nml", "rc.nml"]}}
    try:
        fresh = ck.impl("c08_impl.py", {"repeat": dict(spec, n=0)}, timeout=300)["repeat"]
        many = ck.impl("c08_impl.py", {"repeat": dict(spec, n=ck.n(40, 120))}, timeout=600)["repeat"]
    except Exception as e:  # noqa: BLE001
        ck.oblige("impl:c08_impl.py:many-failures", False, str(e)[-1200:], kind="correspondence")
        return
    if "harness_error" in fresh or "harness_error" in many:
        ck.oblige("impl:c08_impl.py:many-failures", False, str(fresh.get("harness_error") or many.get("harness_error")), kind="correspondence")
        return
    ck.oblige("impl:c08_impl.py:many-failures", True, kind="correspondence")
    for a, b in zip(fresh["cases"], many["cases"]):
        ck.count(b["failed_reads"] + 1, nontrivial_key=["many-failures", b["kind"], b["failed_reads"] > 0])
        ck.tally("failed-reads-before-retry:" + b["kind"], b["failed_reads"])
        if b["failed_reads"] < many["n"]:
            ck.oblige("harness:many-failures:%s" % b["kind"], False, "only %d of %d reads failed" % (b["failed_reads"], many["n"]), kind="harness")
        if a["after"] != b["after"]:
            ck.witness("C08:read:retry-fails-after-many-failures:" + b["kind"],
                       "after %d failed reads (%s) in one process the intact input %s" % (b["failed_reads"], b["kind"],
                       "raises: " + b["after"][1] if b["after"][0] == "raised" else "loads as a different document"),
                       input={"repeat": dict(spec, n=many["n"]), "kind": b["kind"]}, expected=a["after"][1][:300], observed=b["after"][1][:300])


def run(ck):
    ck.rule = ("every file-layer call of a dry run is an injection point (quick tier: a spread of them per operation); a case = "
               "(operation, document, call index, exception kind); non-trivial = the fault fired inside the library; distinct by "
               "(entry point, mode, faulting statement, file-layer call name, exception kind, observed outcome)")
    ck.trusted = ["Coq 8.16.1 kernel + vm_compute (no native_compute)",
                  "translators/tr_skeleton.py (python ast; fail closed; which calls are fault points, what counts as acquire / "
                  "release / document mutation / restore idiom; callees outside the class are summarised after an effect check)",
                  "the mode table in checks/c08.py (which parameter tests are known in which call mode)",
                  "PyTables / lxml / the OS below the patched calls: a handle is open iff it is in tables.file._open_files or "
                  "/proc/self/fd; close() releases even when it raises (injected close faults are raised after the real close)",
                  "CPython reference counting is not relied on: handles are inspected while the exception is still alive"]
    ck.assumptions = ["data are abstracted: a skeleton keeps control flow, fault points, handles and document mutations only",
                      "`safe` is sufficient, not necessary: an unusual but correct cleanup shape would be reported as "
                      "no-failing-input-found",
                      "thread pre-emption and faults inside PyTables/HDF5/libxml2 internals are outside the model (partial)"]
    ck.gate_static()
    d = translate(ck)
    if d is None:
        return
    entries = {e["name"]: e for e in d["entries"]}
    # ---------------------------------------------------------------- Gen
    gen = [HEADER]
    allmodes = []
    for e in d["entries"]:
        gen.append("Definition skel_%s : cmd :=\n  %s." % (ident(e["name"]), coq_cmd(e["cmd"])))
        for mname, m in list(modes_of(e["name"]).items()) + list(EXTRA_MODES.get(e["name"], {}).items()):
            gen.append("Definition mode_%s_%s : list (string * bool) := %s." % (ident(e["name"]), ident(mname), coq_mode(m)))
        for mname in modes_of(e["name"]):
            allmodes.append((e["name"], mname))
    gen.append("Definition entries : list (string * list (string * bool) * cmd) :=\n  %s." % coq_list(
        ["(%s, mode_%s_%s, skel_%s)" % (coq_str(n + ":" + m), ident(n), ident(m), ident(n)) for n, m in allmodes]))
    gen.append("Definition iter_state : list iter_row :=\n  %s." % coq_list(
        ["(%s, %s, %s)" % (coq_str(r["cls"]), coq_list([coq_str(x) for x in r["modified"]]), coq_list([coq_str(x) for x in r["reset"]]))
         for r in d.get("iter_state", [])]))
    gen.append("Definition refusals : list refusal_row := %s." % coq_refusals([(r["cls"], r["guards"]) for r in d.get("refusals", [])]))
    gen.append("Definition expected_refusals : list refusal_row := %s." % coq_refusals([(c, g) for c, g, _ in EXPECTED_REFUSALS]))
    emb = d.get("embed", {"stores": [], "reads": []})
    gen.append("Definition embed_stores : list place := %s." % coq_list(["(%s, %s)" % (coq_str(k), coq_str(str(n))) for k, n, _ in emb["stores"]]))
    gen.append("Definition embed_reads : list place := %s." % coq_list(["(%s, %s)" % (coq_str(k), coq_str(str(n))) for k, n, _ in emb["reads"]]))
    gen.append("Definition parsers : list parser_row :=\n  %s." % coq_list(
        ["(%s, %s, %s)" % (coq_str(r["func"]), coq_str(r["ctor"]), coq_list([coq_str(x) for x in r["lax"]]))
         for r in d.get("parsers", [])]))
    g = ck.gen_v("Gen_C08.v", "\n".join(gen) + "\n")
    ok, out = ck.coqc(g)
    ck.oblige("Gen_C08.v:compiles", ok, out[-1500:], kind="translate")
    if not ok:
        return
    # ---------------------------------------------------------------- instance obligations, one file per (entry, mode)
    inst_ok = {}
    for n, m in allmodes:
        iok = True
        for what in ("safe", "reports"):
            nm = "Inst_C08_%s_%s_%s.v" % (what, ident(n), ident(m))
            txt = (HEADER + "From Run Require Import Gen_C08.\n"
                   "Lemma %s_%s_%s : %s_in mode_%s_%s skel_%s = true.\nProof. vm_compute. reflexivity. Qed.\n"
                   % (what, ident(n), ident(m), what, ident(n), ident(m), ident(n)))
            k, _ = ck.compile_obligations(ck.gen_v(nm, txt), kind="instance")
            iok = iok and k
        inst_ok[(n, m)] = iok
    k, _ = ck.compile_obligations(ck.gen_v("Inst_C08_iter_state.v", HEADER + "From Run Require Import Gen_C08.\n"
                                           "Lemma iter_state_ok : iter_ok iter_state = true.\nProof. vm_compute. reflexivity. Qed.\n"),
                                  kind="instance")
    inst_ok[("document iterators", "rewind")] = k
    k, _ = ck.compile_obligations(ck.gen_v("Inst_C08_parser_strict.v", HEADER + "From Run Require Import Gen_C08.\n"
                                           "Lemma parser_strict_ok : parser_strict parsers = true.\nProof. vm_compute. reflexivity. Qed.\n"),
                                  kind="instance")
    inst_ok[("xml parsers", "strict")] = k
    k, _ = ck.compile_obligations(ck.gen_v("Inst_C08_refusals.v", HEADER + "From Run Require Import Gen_C08.\n"
                                           "Lemma refusals_ok : refusals_eqb refusals expected_refusals = true.\nProof. vm_compute. reflexivity. Qed.\n"),
                                  kind="instance")
    inst_ok[("exportHdf5 refusals", "as exercised")] = k
    k, _ = ck.compile_obligations(ck.gen_v("Inst_C08_embed.v", HEADER + "From Run Require Import Gen_C08.\n"
                                           "Lemma embed_ok_ok : embed_ok embed_stores embed_reads = true.\nProof. vm_compute. reflexivity. Qed.\n"),
                                  kind="instance")
    inst_ok[("embedded xml", "stored where read")] = k
    ck.extra["embedded_xml_places"] = emb
    ck.extra["exportHdf5_refusals"] = [{"cls": r["cls"], "guards": r["guards"], "line": r["line"]} for r in d.get("refusals", [])]
    ck.extra["xml_parser_constructions"] = d.get("parsers", [])
    ck.extra["document_iterators"] = d.get("iter_state", [])
    missing = [n for n in d.get("expected", []) if n not in entries]
    all_ok = all(inst_ok.values()) and not missing and not d["untranslatable"]
    if all_ok:
        inst = ck.gen_v("Inst_C08.v", HEADER + "From LNML Require Import Proofs.ResourceP.\nFrom Run Require Import Gen_C08.\n"
                        "Lemma all_ok : forallb entry_ok entries = true.\nProof. vm_compute. reflexivity. Qed.\n"
                        "Lemma iter_state_ok : iter_ok iter_state = true.\nProof. vm_compute. reflexivity. Qed.\n"
                        "Lemma parser_strict_ok : parser_strict parsers = true.\nProof. vm_compute. reflexivity. Qed.\n"
                        "Lemma refusals_ok : refusals_eqb refusals expected_refusals = true.\nProof. vm_compute. reflexivity. Qed.\n"
                        "Lemma embed_ok_ok : embed_ok embed_stores embed_reads = true.\nProof. vm_compute. reflexivity. Qed.\n"
                        "Lemma all_present : map fst (map fst entries) = %s.\nProof. reflexivity. Qed.\n"
                        % coq_list([coq_str(n + ":" + m) for n, m in allmodes]))
        iok, _ = ck.compile_obligations(inst, kind="instance")
        if iok:
            ck.compile_props()
        else:
            all_ok = False
    if not all_ok:
        ck.oblige("Props_C08.v:C08_entries_clean_partial", False, "instance obligations failed for: %s" % ", ".join(
            "%s[%s]" % k for k, v in inst_ok.items() if not v), kind="theorem")
        # the generic theorems still hold; compile them alone so that the evidence shows it
        gp = ck.gen_v("Props_generic_C08.v", open(os.path.join(VERIF, "coq", "Props", "C08.v")).read().split("(* INSTANCE *)")[0])
        ck.compile_obligations(gp, kind="theorem")
    # ---------------------------------------------------------------- real runs
    ops = gen_ops(ck)
    # truncation: non-ASCII text (2-, 3- and 4-byte UTF-8 characters), entity references; every second file also gets the
    # token classes our writer never emits (XML declaration, comment, CDATA, numeric character references).  Quick tier:
    # stride + EVERY byte inside every multi-byte character + every byte of the first/second/last/non-ASCII instance of
    # every token class; thorough: every byte.
    trunc = []
    for i in range(ck.n(2, 6)):
        dd = gen_doc(ck.rng, rich=False)
        aug = i % 2 == 1
        dd["notes"] = "size 5 \u00b5m, cost 3 \u20ac, rate \U0001d6fc; a&b <c> caf\u00e9" + (" @@CD@@ @@NC@@" if aug else "")
        trunc.append({"doc": dd, "offsets": ck.n(11, "all"), "augment": aug})
    # the interpreter-configuration and many-failures runs go on beside the fault-injection shards (the main thread only
    # waits for those and does not touch `ck` meanwhile)
    import threading
    import traceback as _tb

    def side_runs():
        try:
            other_configurations(ck)
            many_failures(ck)
        except Exception:  # noqa: BLE001
            ck.oblige("harness:C08:side-runs", False, _tb.format_exc()[-1500:], kind="harness")

    side = threading.Thread(target=side_runs)
    side.start()
    try:
        res = run_impl(ck, ops, trunc)
    finally:
        side.join()
    cases = []  # (coq text, python description)
    for o in res["ops"]:
        if "harness_error" in o:
            ck.oblige("harness:c08_impl:" + str(o.get("op")), False, o["harness_error"], kind="harness")
            continue
        ename, mname = OP_ENTRY[o["op"]]
        missing_ids = o["op"] == "am_write_doc" and any(c.get("id") is None or c.get("mid") is None
                                                         for c in o["doc"].get("am_cells", []) + o["doc"].get("am_morphs", []))
        if missing_ids:
            mname = "doc_missing_ids"
        entry = entries.get(ename)
        ck.tally("op:" + o["op"])
        recs = [("dry", o["dry"])] + [("fault", r) for r in o["faults"]]
        for what, r in recs:
            fired = r.get("fired")
            natural = what == "dry" and r["raised"]
            chain = chain_of(entries, ename, r.get("frames")) if entry else []
            hit = chain[0][1] if chain else None
            labs = chain[0][2] if chain else []
            key = None
            if fired or natural:
                key = [ename, mname, hit[2] if hit else None, fired or "natural:" + str(r.get("exc")), r["kind"],
                       r["raised"], r["leaked"], r["doc_changed"], r.get("retry_ok")]
            ck.count(1, nontrivial_key=key, sample={"op": o["op"], "doc": o["doc"], "fault_at_call": r["k"], "call": fired,
                                                    "kind": r["kind"], "raised": r["raised"], "left_open": r["leaked"],
                                                    "doc_changed": r["doc_changed"], "retry_ok": r.get("retry_ok"),
                                                    "statement": hit} if fired and len(ck.samples) < 6 else None)
            ck.tally("outcome:%s" % ("no-fault" if not (fired or natural) else "raised" if r["raised"] else "swallowed"))
            inp = {"op": o["op"], "doc": o["doc"], "fault_at_call": r["k"], "call": fired, "kind": r["kind"]}
            # ---- property predicate on the implementation
            prob = []
            if (fired or natural) and r["leaked"]:
                prob.append(("handle-left-open", "left open: %s" % (r["leaked_tables"] or r["leaked_fds"])))
            if (fired or natural) and r["doc_changed"]:
                prob.append(("document-changed", json.dumps(r.get("doc_diff"))[:300]))
            if r.get("caller_handle_closed"):
                prob.append(("caller-handle-closed", "write(doc, handle, close=False) closed the caller's file object"))
            if fired and not r["raised"]:
                prob.append(("failure-swallowed", "the call returned normally although %s raised" % fired))
            if fired and r["raised"] and r.get("retry_ok") is False:
                prob.append(("retry-fails", r.get("retry_err", "")))
            if fired and r.get("retry_same") is False:
                prob.append(("retry-differs", "the retried call does not produce what a first call produces: %s"
                             % json.dumps(r.get("retry_diff"))[:300]))
            if what == "dry" and o.get("must_raise") and not r["raised"]:
                if o.get("or_roundtrip") and r.get("roundtrip_missing") == []:
                    ck.tally("large-embedded-xml:written-and-read-back")  # a legitimate other storage that the parser reads
                else:
                    prob.append(("unholdable-construct-not-refused", "the document holds a construct this format cannot hold, "
                                 "and the call returned normally%s" % ("; loading the file loses %s" % r.get("roundtrip_missing")[:6]
                                                                       if r.get("roundtrip_missing") else "")))
            if not (fired or natural) and (r["leaked"] or r["doc_changed"]):
                prob.append(("successful-call-not-clean", "left open %s, doc changed %s" % (r["leaked"], r["doc_changed"])))
            for cls, detail in prob:
                k = "C08:%s:%s" % (ename, cls)
                if missing_ids and r["doc_changed"] and cls in ("document-changed", "successful-call-not-clean") and not r["leaked"]:
                    k = KNOWN_IDS_KEY
                ck.witness(k, "%s after a %s in %s: %s" % (cls, "failed call" if (fired or natural) else "call", ename, detail),
                           input=inp, expected="raises; no handle open; document as before; retry succeeds",
                           observed={"raised": r["raised"], "exc": r.get("exc"), "left_open": r["leaked_tables"] or r["leaked_fds"],
                                     "doc_changed": r["doc_changed"], "retry_ok": r.get("retry_ok"), "retry_err": r.get("retry_err"),
                                     "statement": hit},
                           broken=("Inst_C08_refusals.v:refusals_ok" if cls == "unholdable-construct-not-refused"
                                   else "Inst_C08_safe_%s_%s.v" % (ident(ename), ident(mname))))
            # ---- correspondence with the skeleton
            if entry is None:
                continue
            if (fired or natural) and not labs:
                if r["raised"]:
                    ck.disagree("Resource.exec/tr_skeleton", inp, "no file-layer fault point at the faulting statement",
                                {"frames": r.get("frames")}, note="the skeleton has no fault point where a real fault surfaced")
                continue
            exn = r["kind"] if fired else str(r.get("exc"))
            obs = "(%s, %d, %s)" % ("true" if r["raised"] else "false", r["leaked"], "true" if r["doc_changed"] else "false")
            if fired or natural:
                parts = []
                for i, (n, f, ls) in enumerate(chain):
                    if not ls:
                        break  # deeper frames are library code of that entry point
                    md = mname if i == 0 else NESTED_MODE.get(n, "")
                    parts.append("(in_mode mode_%s_%s skel_%s, %s)" % (ident(n), ident(md), ident(n), coq_list([coq_str(x) for x in ls])))
            else:
                parts = ["(in_mode mode_%s_%s skel_%s, [])" % (ident(ename), ident(mname), ident(ename))]
            cases.append(("(%s, %s, %s)" % (coq_list(parts), coq_str(exn), obs),
                          {"input": inp, "sites": [(n, ls) for n, f, ls in chain], "observed": [r["raised"], r["leaked"], r["doc_changed"]],
                           "statement": [f for n, f, ls in chain]}))
    # kernel-evaluated comparison, <= 400 cases per file
    for i in range(0, len(cases), 400):
        chunk = cases[i:i + 400]
        txt = (HEADER + "From Run Require Import Gen_C08.\nDefinition cases : list fcase :=\n  %s.\n"
               "Eval vm_compute in (mismatches cases).\n" % coq_list([c[0] for c in chunk]))
        ok, results, out = ck.coq_eval("Cases_C08_%d.v" % (i // 400), txt)
        if not ok or not results:
            ck.oblige("Cases_C08_%d.v:evaluates" % (i // 400), False, out[-1500:], kind="correspondence")
            continue
        ck.oblige("Cases_C08_%d.v:evaluates" % (i // 400), True, kind="correspondence")
        idxs = [int(x) for x in re.findall(r"\d+", results[0].split(":")[0])]
        for j in idxs:
            ck.disagree("Resource.nexec over tr_skeleton", chunk[j][1]["input"],
                        "observation not among the predictions for a fault at %s" % chunk[j][1]["sites"],
                        {"observed(raised,left_open,doc_changed)": chunk[j][1]["observed"], "statement": chunk[j][1]["statement"]})
    ck.extra["fault_cases_compared_with_model"] = len(cases)
    # ---------------------------------------------------------------- truncation
    tcases = []
    for t in res["truncate"]:
        if "harness_error" in t:
            ck.oblige("harness:c08_impl:truncate", False, t["harness_error"], kind="harness")
            continue
        ck.count(t["offsets"], nontrivial_key=["truncate", t["size"], t["offsets"]])
        ck.tally("truncation_offsets", t["offsets"])
        ck.tally("truncation_rejected", t["rejected"])
        for cname, n in t.get("class_offsets", {}).items():
            ck.tally("truncation_inside:" + cname, n)
        ck.extra.setdefault("truncation_multibyte_sizes", [])
        ck.extra["truncation_multibyte_sizes"] = sorted(set(ck.extra["truncation_multibyte_sizes"]) | set(t.get("multibyte_sizes", [])))
        for b in t["bad"]:
            ck.witness("C08:truncated-xml-accepted", "an XML file cut at byte %d of %d%s is loaded (%s)"
                       % (b["offset"], b["of"], " (inside a multi-byte character)" if b.get("inside_multibyte_character") else "", b["via"]),
                       input={"doc": t["doc"], "offset": b["offset"], "augment": t.get("augment", False), "around": b.get("around")},
                       expected="rejected", observed=b["loaded"],
                       broken="Props_C08.v:C08_trunc")
        toks = coq_list(["(%s %s)" % ({"O": "TOpen", "C": "TClose", "T": "TText"}[k], coq_str(v)) for k, v in t["tokens"]])
        cuts = coq_list(["(%d, %s)" % (n, "true" if rej else "false") for n, rej in t["token_cuts"]])
        tcases.append("(%s, %s)" % (toks, cuts))
    if tcases:
        txt = (HEADER + "Definition tcases : list (list token * list (nat * bool)) :=\n  %s.\n"
               "Definition bad (c : list token * list (nat * bool)) : list nat :=\n"
               "  (if wellformed1 (fst c) then [] else [0]) ++\n"
               "  flat_map (fun k : nat * bool => if Bool.eqb (negb (wellformed1 (firstn (fst k) (fst c)))) (snd k) then [] else [S (fst k)]) (snd c).\n"
               "Eval vm_compute in (flat_map bad tcases).\n" % coq_list(tcases))
        ok, results, out = ck.coq_eval("Cases_C08_trunc.v", txt)
        good = ok and results and re.sub(r"\s", "", results[0].split(":")[0]) in ("[]", "nil")
        ck.oblige("Cases_C08_trunc.v:token-model-agrees-with-loader", bool(good), (results[0] if results else out)[-800:],
                  kind="correspondence")
        if ok and results and not good:
            ck.disagree("Resource.wellformed1", {"truncate": [t["doc"] for t in res["truncate"] if "doc" in t]},
                        "token-level reader", results[0][:300])
    if ck.disagreements:
        ck.extra["disagreement_samples"] = ck.disagreements[:12]
    if "ArrayMorphWriter.write" in entries:
        ok, results, out = ck.coq_eval("Info_C08.v", HEADER + "From Run Require Import Gen_C08.\n"
                                       "Eval vm_compute in (safe_in mode_ArrayMorphWriter_write_doc_missing_ids skel_ArrayMorphWriter_write).\n")
        ck.extra["model_says_missing_ids_mode_safe"] = results[0].split(":")[0].strip() if ok and results else "?"
    ck.extra["entry_modes"] = ["%s[%s]" % k for k in allmodes]
    ck.extra["sites_in_skeletons"] = sum(len(e["sites"]) for e in d["entries"])


def replay(ck, data):
    inp = data.get("input") or {}
    if "op" in inp:
        spec = {"op": inp["op"], "doc": inp.get("doc", {}), "kinds": [inp.get("kind") or "OSError"], "must_raise": True,
                "or_roundtrip": True,
                "faults": [inp["fault_at_call"]] if inp.get("fault_at_call") is not None else []}
        res = ck.impl("c08_impl.py", {"ops": [spec]})
        o = res["ops"][0]
        recs = o.get("faults") or [o.get("dry")]
        for r in recs:
            r.pop("trace", None)
        print(json.dumps({"stored": {"input": inp, "observed": data.get("observed")}, "now": recs}, indent=1)[:6000])
        bad = any(r and (r.get("leaked") or r.get("doc_changed") or r.get("retry_ok") is False or r.get("retry_same") is False
                         or r.get("caller_handle_closed")) for r in recs)
        if str(data.get("key", "")).endswith("unholdable-construct-not-refused"):
            bad = bad or not recs[0].get("raised")
        if str(data.get("key", "")).endswith("failure-swallowed"):
            bad = bad or any(r.get("fired") and not r.get("raised") for r in recs)
        return 1 if bad else 0
    if "config_case" in inp or "repeat" in inp:
        other_configurations(ck) if "config_case" in inp else many_failures(ck)
        print(json.dumps({"stored": inp, "witnesses_now": ck.witnesses[:3]}, indent=1, default=str)[:6000])
        return 1 if ck.witnesses else 0
    if "offset" in inp:
        res = ck.impl("c08_impl.py", {"truncate": [{"doc": inp["doc"], "offsets": "all", "augment": inp.get("augment", False)}]})
        print(json.dumps({"stored": inp, "now": {k: v for k, v in res["truncate"][0].items() if k not in ("tokens", "token_cuts")}},
                         indent=1)[:6000])
        return 1 if res["truncate"][0].get("nbad") else 0
    print(json.dumps(data, indent=1)[:6000])
    return 0
