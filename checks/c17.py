"""C17 — resolving external morphology/biophysics references embeds independent copies.

Model   coq/Model/Refs.v  (heap of cell objects + identities; copy.deepcopy and the include loader are Section
        variables; fix_doc true = after fixes/C17-cell2capools.patch, fix_doc false = before)
Proofs  coq/Proofs/RefsP*.v, statements in coq/Props/C17.v
Tie     correspondence: generated documents (embedded / referenced / dangling mixes, shared references, definitions
        local or in included files, Cell2CaPools cells) are built with the real classes by impl/c17_impl.py and handed to
        the REAL fix_external_morphs_biophys_in_cell with overwrite=True and overwrite=False; values of all cells
        before/after, the returned lists and the aliasing pattern of all object identities (input before the call ++
        returned document) go into Cases_C17_*.v as Coq terms; the kernel lists the indices where the model differs.
Search  the property itself evaluated on the implementation, independent of the model (oracle from the generated
        definitions; identity disjointness through id(); a mutation of one embedded copy must change nothing else;
        canonical XML dumps for the overwrite=False contract).
"""
import json

from lib.vcommon import coq_list, coq_str

MIDS = ["m0", "m1", "m2", "x"]
BIDS = ["b0", "b1", "x"]
# every file form read_neuroml2_file accepts for an include of the document handed to the function
FORMS = [".nml", ".xml", ".nml.h5", ".h5", ".hdf5"]
PARSER_FORMS = (".nml", ".xml", ".nml.h5")
# how a cell object comes into being: bare object + attribute assignment, constructor keywords, component_factory, add
# (component_factory / add run Cell.setup_nml_cell() on a plain Cell, which gives it a morphology and biophysics of its own -
# such a cell never refers to anything; so those two ways are used for Cell2CaPools only)
HOWS = ["assign", "ctor", "factory", "add", "add_name"]  # ... and those the include loop of _read_neuroml2 accepts (NeuroMLXMLParser path)


class Gen:
    def __init__(self, rng):
        self.rng = rng
        self.v = 0

    def obj(self, ids):
        r = self.rng
        self.v += 1
        return {"id": r.choice(ids), "v": self.v, "kids": [r.randint(0, 9) for _ in range(r.randint(0, 3))]}

    def slot(self, ids, dangling):
        r = self.rng
        x = r.random()
        if x < 0.2:
            return {"attr": None, "emb": None}
        if x < 0.4:
            return {"attr": None, "emb": self.obj(ids)}
        if x < 0.5:
            return {"attr": r.choice(ids), "emb": self.obj(ids)}  # reference ignored: already embedded
        return {"attr": "zz" if (dangling and r.random() < 0.5) else r.choice(ids), "emb": None}

    def case(self):
        r = self.rng
        dangling = r.random() < 0.15
        cells = []
        for i in range(r.randint(0, 5)):
            self.v += 1
            cells.append({"list": "cells", "id": "c%d" % i, "rest": self.v, "m": self.slot(MIDS, dangling),
                          "b": self.slot(BIDS, dangling), "how": r.choice(HOWS[:2])})
        for i in range(r.randint(0, 2) if r.random() < 0.5 else 0):
            self.v += 1
            cells.append({"list": "cells2", "id": "k%d" % i, "rest": self.v, "m": self.slot(MIDS, dangling),
                          "b": self.slot(BIDS, dangling), "how": r.choice(HOWS)})
        wide = r.random() < 0.6  # most documents define (nearly) everything somewhere
        morphs = [self.obj(MIDS) for _ in range(r.randint(0, 3))]
        bios = [self.obj(BIDS) for _ in range(r.randint(0, 2))]
        incs = []
        for i in range(r.randint(0, 2)):
            incs.append({"href": "inc%d%s" % (i, r.choice(FORMS + [".nml", ".nml"])), "morphs": [self.obj(MIDS) for _ in range(r.randint(0, 3))],
                         "bios": [self.obj(BIDS) for _ in range(r.randint(0, 2))], "missing": r.random() < 0.04})
        for f in incs:
            x = r.random()
            if x < 0.3:   # the same file, spelt differently / reached through a symbolic link to a directory and ..
                # (through the link only for XML files read directly by the function: the include loop of _read_neuroml2 and the HDF5
                #  parser take os.path.abspath of such a name, which collapses lnk/.. textually - see design_notes/C06.md, symlinks)
                f["prefix"] = r.choice(["./", ".//"] + ([] if f["href"].endswith((".h5", ".hdf5")) else ["lnk/../", "lnk/../", "./lnk/..//"]))
            if r.random() < 0.03 and not f["href"].endswith((".h5", ".hdf5")):
                f["pad"] = 70000
            if f["href"].endswith((".h5", ".hdf5")) and r.random() < 0.5:
                f["nested"] = [{"href": f["href"].split(".")[0] + "_n.nml", "morphs": [self.obj(MIDS) for _ in range(r.randint(1, 2))],
                                "bios": [self.obj(BIDS) for _ in range(r.randint(0, 2))]}]
        if wide:
            for i in MIDS:
                if not any(o["id"] == i for o in morphs + [o for f in incs for o in f["morphs"]]):
                    o = self.obj([i])
                    (r.choice(incs)["morphs"] if incs and r.random() < 0.5 else morphs).append(o)
            for i in BIDS:
                if not any(o["id"] == i for o in bios + [o for f in incs for o in f["bios"]]):
                    o = self.obj([i])
                    (r.choice(incs)["bios"] if incs and r.random() < 0.5 else bios).append(o)
        case = {"cells": cells, "morphs": morphs, "bios": bios, "incs": incs}
        x = r.random()
        if x < 0.2:
            case["build"] = "parsed"      # the parser built the document: the referenced element's parent is the document
        elif x < 0.45:
            self.move(case)               # ... or a cell: it was parsed as that cell's child, made stand-alone, referenced back
        if sum(1 for c in cells for k in ("m", "b") if c[k]["attr"] is not None and c[k]["emb"] is None) > 9 and case.get("build") == "parsed":
            del case["build"]             # (should deepcopy ever follow parent_object_ again, the cost doubles per referring slot)
        return case

    def move(self, case):
        r = self.rng
        case["build"] = "parsed"
        origin = set()
        for ci, c in enumerate(case["cells"]):
            for kind, key in (("m", "morphs"), ("b", "bios")):
                if c[kind]["attr"] is None and c[kind]["emb"] is not None and r.random() < 0.7:
                    o = dict(c[kind]["emb"], from_cell=ci)
                    case[key] = case[key] + [o]
                    c[kind] = {"attr": o["id"], "emb": None}
                    case["build"] = "moved"
                    origin.add((ci, kind))
                    if r.random() < 0.5:   # some other cell refers to it too
                        others = [x for xi, x in enumerate(case["cells"]) if x is not c and x[kind]["emb"] is None and (xi, kind) not in origin]
                        if others:
                            r.choice(others)[kind] = {"attr": o["id"], "emb": None}


    def history(self):
        """calls in one process whose documents include the SAME paths while the included files are rewritten in between:
        a definition changed / added / removed"""
        r = self.rng
        hrefs = ["inc0" + r.choice(FORMS), "inc1.nml"][:r.randint(1, 2)]
        content = {h: {"morphs": [self.obj(MIDS) for _ in range(r.randint(1, 3))], "bios": [self.obj(BIDS) for _ in range(r.randint(0, 2))]}
                   for h in hrefs}
        steps = []
        for k in range(3):
            if k:
                h = r.choice(hrefs)
                c = content[h]
                what = r.choice(["changed", "added", "removed"])
                if what == "changed" and c["morphs"]:
                    o = r.choice(c["morphs"])
                    self.v += 1
                    o = dict(o, v=self.v, kids=[r.randint(0, 9) for _ in range(r.randint(0, 3))])
                    c["morphs"] = [o if x["id"] == o["id"] else x for x in c["morphs"]]
                elif what == "added":
                    c["morphs"] = c["morphs"] + [self.obj(MIDS)]
                    c["bios"] = c["bios"] + [self.obj(BIDS)]
                elif c["morphs"]:
                    c["morphs"] = c["morphs"][1:]
                content[h] = {"morphs": list(c["morphs"]), "bios": list(c["bios"])}
            cells = []
            for i in range(r.randint(1, 3)):
                self.v += 1
                cells.append({"list": "cells", "id": "c%d" % i, "rest": self.v, "m": {"attr": r.choice(MIDS), "emb": None},
                              "b": self.slot(BIDS, False)})
            steps.append({"cells": cells, "morphs": [], "bios": [self.obj(BIDS) for _ in range(r.randint(0, 1))],
                          "incs": [{"href": h, "morphs": list(content[h]["morphs"]), "bios": list(content[h]["bios"]), "missing": False}
                                   for h in hrefs]})
        return steps


def fixed_histories():
    def cell(i, m):
        return {"list": "cells", "id": "c%d" % i, "rest": 900 + i, "m": {"attr": m, "emb": None}, "b": {"attr": None, "emb": None}}

    out = []
    for form in (".nml", ".hdf5"):
        h = "inc0" + form
        out.append([
            {"cells": [cell(0, "m0")], "morphs": [], "bios": [], "incs": [{"href": h, "morphs": [O("m0", 1, [1])], "bios": [], "missing": False}]},
            # definition changed and another one added since the first call
            {"cells": [cell(0, "m0"), cell(1, "m1")], "morphs": [], "bios": [],
             "incs": [{"href": h, "morphs": [O("m0", 2, [2, 3]), O("m1", 3, [])], "bios": [], "missing": False}]},
            # definition removed: the reference dangles now
            {"cells": [cell(0, "m0")], "morphs": [], "bios": [], "incs": [{"href": h, "morphs": [O("m1", 3, [])], "bios": [], "missing": False}]},
        ])
    # no rewrite at all: the same references resolved again in one process.  The definitions sit in morphs.nml, reached
    # through an HDF5 library whose embedded XML includes it (the HDF5 loader resolves that include on every load).
    def lib(form):
        return {"href": "inc0" + form, "morphs": [], "bios": [O("b0", 5, [1])], "missing": False,
                "nested": [{"href": "inc0_n.nml", "morphs": [O("m0", 6, [2, 3])], "bios": []}]}

    def doc(form, **kw):
        return dict({"cells": [cell(0, "m0"), dict(cell(1, "m0"), b={"attr": "b0", "emb": None})], "morphs": [], "bios": [],
                     "incs": [lib(form)]}, **kw)

    for form in (".nml.h5", ".h5", ".hdf5"):
        out.append([doc(form, same_doc=True), doc(form, same_doc=True)])  # one document: overwrite=False then True; and again
    out.append([doc(".nml.h5"), dict(doc(".nml.h5"), cells=[cell(7, "m0")])])   # two documents including the same file
    out.append([doc(".nml.h5", pre_read=True), doc(".nml.h5", pre_read=True)])  # read_neuroml2_file(main, include_includes=True) first
    return out


def O(i, v, kids=()):
    return {"id": i, "v": v, "kids": list(kids)}


def fixed_cases():
    out = []
    # 0: the stored witness: a Cell2CaPools cell referring to a morphology and biophysics of the same document
    out.append({"cells": [{"list": "cells", "id": "c0", "rest": 1, "m": {"attr": "m0", "emb": None}, "b": {"attr": None, "emb": None}},
                          {"list": "cells2", "id": "k0", "rest": 2, "m": {"attr": "m0", "emb": None}, "b": {"attr": "b0", "emb": None}}],
                "morphs": [O("m0", 3, [0, 1])], "bios": [O("b0", 4, [5])], "incs": []})
    # 1: three cells share one reference; the definition is in an included file and (later, winning) in the document
    out.append({"cells": [{"list": "cells", "id": "c%d" % i, "rest": 10 + i, "m": {"attr": "m0", "emb": None},
                           "b": {"attr": "b0", "emb": None}} for i in range(3)],
                "morphs": [O("m0", 20, [1, 2, 3])], "bios": [],
                "incs": [{"href": "inc0.nml", "morphs": [O("m0", 21, [7])], "bios": [O("b0", 22, [8, 9])], "missing": False}]})
    # 2: embedded + reference (reference ignored), dangling biophysics after a resolvable morphology
    out.append({"cells": [{"list": "cells", "id": "c0", "rest": 30, "m": {"attr": "m1", "emb": O("own", 31, [4])}, "b": {"attr": None, "emb": None}},
                          {"list": "cells", "id": "c1", "rest": 32, "m": {"attr": "m1", "emb": None}, "b": {"attr": "nope", "emb": None}},
                          {"list": "cells", "id": "c2", "rest": 33, "m": {"attr": "m1", "emb": None}, "b": {"attr": None, "emb": None}}],
                "morphs": [O("m1", 34, [])], "bios": [O("b0", 35, [])], "incs": []})
    # 3: same id used for a morphology and for biophysics; duplicates of an id (the last definition is used)
    out.append({"cells": [{"list": "cells", "id": "c0", "rest": 40, "m": {"attr": "x", "emb": None}, "b": {"attr": "x", "emb": None}}],
                "morphs": [O("x", 41, [1]), O("x", 42, [2])], "bios": [O("x", 43, [3])],
                "incs": [{"href": "inc0.nml", "morphs": [O("x", 44, [4])], "bios": [O("x", 45, [5]), O("x", 46, [6])], "missing": False}]})
    # every way of building a cell x both classes x (both references | only morphology | only biophysics), all resolvable
    cs = []
    for hi, how in enumerate(HOWS):
        for li, lst in enumerate(("cells", "cells2")):
            if lst == "cells" and how not in HOWS[:2]:
                continue
            for vi, (ma, ba) in enumerate((("m0", "b0"), ("m0", None), (None, "b0"))):
                cs.append({"list": lst, "id": "%s%d%d" % ("c" if li == 0 else "k", hi, vi), "rest": 200 + 10 * hi + 3 * li + vi,
                           "m": {"attr": ma, "emb": None}, "b": {"attr": ba, "emb": None}, "how": how})
    out.append({"cells": [c for c in cs if c["list"] == "cells"] + [c for c in cs if c["list"] == "cells2"],
                "morphs": [O("m0", 90, [1])], "bios": [O("b0", 91, [2, 3])], "incs": []})
    # a parsed cell's embedded element is moved to top level and referenced back, then resolved: morphology and biophysics,
    # Cell and Cell2CaPools, the origin cell alone / together with other referring cells (parent_object_ of the referenced
    # element = the referring cell, for the others ANOTHER cell); plus a fully parsed document (parent = the document)
    def ref(lst, i, rest, m, b):
        return {"list": lst, "id": i, "rest": rest, "m": {"attr": m, "emb": None}, "b": {"attr": b, "emb": None}}

    for k, (lst, others) in enumerate((("cells", False), ("cells", True), ("cells2", False), ("cells2", True))):
        cs = [ref(lst, "o0", 300 + 10 * k, "mm", "bb")]
        if others:
            cs += [ref("cells", "c1", 301 + 10 * k, "mm", None), ref("cells2", "k1", 302 + 10 * k, "mm", "bb"), ref("cells", "c2", 303 + 10 * k, None, "bb")]
            cs = [c for c in cs if c["list"] == "cells"] + [c for c in cs if c["list"] == "cells2"]
        oi = [i for i, c in enumerate(cs) if c["id"] == "o0"][0]
        out.append({"cells": cs, "morphs": [O("m0", 310 + k, [4]), dict(O("mm", 311 + k, [5, 6]), from_cell=oi)],
                    "bios": [dict(O("bb", 312 + k, [7]), from_cell=oi)], "incs": [], "build": "moved"})
    out.append({"cells": [ref("cells", "c0", 350, "m0", "b0"), ref("cells2", "k0", 351, "m0", None)], "morphs": [O("m0", 352, [1, 2])],
                "bios": [O("b0", 353, [3])], "incs": [{"href": "inc0.nml", "morphs": [O("m1", 354, [])], "bios": [], "missing": False}],
                "build": "parsed"})
    # the included file is large (definitions start beyond byte 70 000); is reached through a symlinked directory and ..;
    # is spelt with ./ and a doubled slash
    for k, extra in enumerate(({"pad": 70000}, {"prefix": "lnk/../"}, {"prefix": ".//"}, {"prefix": "lnk/../", "pad": 70000})):
        out.append({"cells": [ref("cells", "c0", 400 + k, "m0", "b0"), ref("cells2", "k0", 410 + k, "m0", None)], "morphs": [], "bios": [],
                    "incs": [dict({"href": "inc0.nml", "morphs": [O("m0", 420 + k, [1])], "bios": [O("b0", 430 + k, [2])], "missing": False}, **extra)]})
    out.append({"cells": [ref("cells", "c0", 440, "m0", "b0")], "morphs": [], "bios": [],
                "incs": [{"href": "inc0.nml.h5", "prefix": ".//", "morphs": [], "bios": [O("b0", 441, [2])], "missing": False,
                          "nested": [{"href": "inc0_n.nml", "morphs": [O("m0", 442, [3])], "bios": []}]}]})
    # the definitions live in an included file, one case per file form the loader accepts
    for k, form in enumerate(FORMS):
        out.append({"cells": [{"list": "cells", "id": "c0", "rest": 50 + k, "m": {"attr": "m0", "emb": None}, "b": {"attr": "b0", "emb": None}},
                              {"list": "cells2", "id": "k0", "rest": 60 + k, "m": {"attr": "m0", "emb": None}, "b": {"attr": None, "emb": None}}],
                    "morphs": [], "bios": [],
                    "incs": [{"href": "inc0" + form, "morphs": [O("m0", 70 + k, [1, 2])], "bios": [O("b0", 80 + k, [3])], "missing": False}]})
    return out


# ------------------------------------------------------------------------------------- Coq literals
class Alloc:
    """identities for the model: consecutive numbers in the order the impl walks the document"""

    def __init__(self):
        self.n = 0

    def new(self):
        self.n += 1
        return self.n - 1


def q_obj(a, o):
    l = a.new()
    kids = ["(%d, (%d)%%Z)" % (a.new(), k) for k in o["kids"]]
    return "(CObj %d %s (%d)%%Z %s)" % (l, coq_str(o["id"]), o["v"], coq_list(kids))


def q_tmpl(o):
    return "(CObj 0 %s (%d)%%Z %s)" % (coq_str(o["id"]), o["v"], coq_list(["(0, (%d)%%Z)" % k for k in o["kids"]]))


def q_opt_str(s):
    return "None" if s is None else "(Some %s)" % coq_str(s)


def q_val(v):
    return "(%s, (%d)%%Z, %s)" % (coq_str(v[0]), v[1], coq_list(["(%d)%%Z" % k for k in v[2]]))


def q_sobs(s):
    return "(%s, %s)" % (q_opt_str(s[0]), "None" if s[1] is None else "(Some %s)" % q_val(s[1]))


def q_cellobs(c):
    return "(%s, (%d)%%Z, %s, %s)" % (coq_str(c[0]), c[1], q_sobs(c[2]), q_sobs(c[3]))


OUT = {"ok": 0, "keyerror": 1, "exit": 2}


def q_case(case, overwrite, run):
    a = Alloc()
    cells, locs = [], {"cells": [], "cells2": []}
    for c in case["cells"]:
        l = a.new()
        m = "(%s, %s)" % (q_opt_str(c["m"]["attr"]), "None" if c["m"]["emb"] is None else "(Some %s)" % q_obj(a, c["m"]["emb"]))
        b = "(%s, %s)" % (q_opt_str(c["b"]["attr"]), "None" if c["b"]["emb"] is None else "(Some %s)" % q_obj(a, c["b"]["emb"]))
        cells.append("(%d, {| k_id := %s; k_rest := (%d)%%Z; k_m := %s; k_b := %s |})" % (l, coq_str(c["id"]), c["rest"], m, b))
        locs[c["list"]].append(str(l))
    morphs = [q_obj(a, o) for o in case["morphs"]]
    bios = [q_obj(a, o) for o in case["bios"]]
    def loaded(f, key):
        # what read_neuroml2_file returns for the file: for the HDF5 forms the definitions travel in the embedded XML, which
        # the loader merges with add_all_to_document - of several definitions with one id only the first arrives
        os_ = f[key] + [x for n in f.get("nested", []) for x in n[key]]  # nested includes exist for the HDF5 forms only
        if f["href"].endswith((".h5", ".hdf5")):
            os_ = [o for i, o in enumerate(os_) if o["id"] not in [x["id"] for x in os_[:i]]]
        return coq_list([q_tmpl(o) for o in os_])

    table = ["(%s, (%s, %s))" % (coq_str(f["href"]), loaded(f, "morphs"), loaded(f, "bios")) for f in case["incs"] if not f.get("missing")]
    doc = ("{| d_cells := %s; d_cells2 := %s; d_morphs := %s; d_bios := %s; d_incs := %s |}"
           % (coq_list(locs["cells"]), coq_list(locs["cells2"]), coq_list(morphs), coq_list(bios),
              coq_list([coq_str(f["href"]) for f in case["incs"]])))
    obs = ("{| o_outcome := %d; o_input_after := %s; o_output := %s; o_out_lists := %s; o_pattern := %s |}"
           % (OUT[run["outcome"]], coq_list([q_cellobs(c) for c in run["input_after"]]),
              coq_list([q_cellobs(c) for c in run["output"]]), coq_list([q_val(v) for v in run["out_lists"]]),
              coq_list([str(x) for x in run["pattern"]])))
    return ("{| q_cells := %s; q_doc := %s; q_table := %s; q_next := %d; q_overwrite := %s; q_obs := %s |}"
            % (coq_list(cells), doc, coq_list(table), a.n, "true" if overwrite else "false", obs))


HEADER = ("From Coq Require Import String List Bool ZArith.\nFrom LNML Require Import Model.Refs.\n"
          "Import ListNotations.\nOpen Scope string_scope.\n")


# ------------------------------------------------------------------------------ property predicate
def candidates(case, kind, ident):
    key = "morphs" if kind == "m" else "bios"
    out = [o for f in case["incs"] if not f.get("missing") for o in f[key] + [x for n in f.get("nested", []) for x in n[key]] if o["id"] == ident]
    out += [o for o in case[key] if o["id"] == ident]
    return [[o["id"], o["v"], o["kids"]] for o in out]


def predicate(case, res):
    bad = []
    if any(f.get("missing") for f in case["incs"]):
        return bad  # outside the property's domain (an include that cannot be read ends the process)
    refs = []  # (cell index, kind, id) for cells that refer and do not embed
    for i, c in enumerate(case["cells"]):
        for kind in ("m", "b"):
            if c[kind]["attr"] is not None and c[kind]["emb"] is None:
                refs.append((i, kind, c[kind]["attr"]))
    dangling = [r for r in refs if not candidates(case, r[1], r[2])]
    t, f = res["true"], res["false"]
    for mode, run in (("overwrite=True", t), ("overwrite=False", f)):
        if run["outcome"] == "other":
            bad.append(("C17:unexpected-exception", "unexpected exception (%s)" % mode, "ok or KeyError", run["detail"]))
            continue
        if dangling:
            if run["outcome"] != "keyerror":
                bad.append(("C17:dangling-no-keyerror", "a reference that cannot be resolved does not raise KeyError (%s)" % mode,
                            "KeyError", run["outcome"]))
            continue
        if run["outcome"] != "ok":
            bad.append(("C17:resolvable-but-failed", "every reference can be resolved but the call failed (%s)" % mode, "ok",
                        run["outcome"] + " " + run.get("detail", "")))
            continue
        outc = run["output"]
        for i, c in enumerate(case["cells"]):
            o = outc[i]
            for kind, pos in (("m", 2), ("b", 3)):
                attr, emb = o[pos]
                if c[kind]["attr"] is not None and c[kind]["emb"] is None:
                    cl = "cell2capools" if c["list"] == "cells2" else "cell"
                    if emb is None or attr is not None:
                        bad.append(("C17:%s-reference-unresolved" % cl, "a %s that refers by id to an element defined in the document or "
                                    "an included file gets no embedded copy / keeps the reference (%s)" % (cl, mode),
                                    {"cell": c["id"], "attr": None, "embedded": candidates(case, kind, c[kind]["attr"])[-1:]},
                                    {"cell": o[0], "attr": attr, "embedded": emb}))
                    elif emb not in candidates(case, kind, c[kind]["attr"]):
                        bad.append(("C17:copy-not-equal", "the embedded copy differs from every element with the referenced id (%s)" % mode,
                                    candidates(case, kind, c[kind]["attr"]), emb))
                else:
                    want_emb = None if c[kind]["emb"] is None else [c[kind]["emb"]["id"], c[kind]["emb"]["v"], c[kind]["emb"]["kids"]]
                    if emb != want_emb or attr != c[kind]["attr"]:
                        bad.append(("C17:untouched-cell-changed", "a cell that embeds the element (or refers to nothing) was changed (%s)" % mode,
                                    [c[kind]["attr"], want_emb], [attr, emb]))
            if o[0] != c["id"] or o[1] != c["rest"]:
                bad.append(("C17:cell-payload-changed", "other content of a cell changed (%s)" % mode, [c["id"], c["rest"]], o[:2]))
        if run.get("hidden_docs"):
            bad.append(("C17:copy-drags-document-copy:parsed-document", "every embedded copy carries, through parent_object_, a private deep "
                        "copy of the whole document: time and memory double with every referring cell (%s)" % mode, 0, run["hidden_docs"]))
        if not run["copies_fresh"]:
            bad.append(("C17:copy-shares-objects", "an embedded copy shares objects with the referenced element or another copy (%s)" % mode,
                        "fresh objects only", run["pattern"]))
        if not run["embedded_kept"]:
            bad.append(("C17:embedded-replaced", "an element that was embedded already was replaced (%s)" % mode, None, None))
        mut = run.get("mutation")
        if mut and not (mut["others_same"] and mut["lists_same"] and mut["input_same"]):
            bad.append(("C17:copy-not-independent", "changing one embedded copy changed something else (%s)" % mode, "no change", mut))
    pr = res.get("parser")
    if pr is not None and pr.get("hidden_docs"):
        bad.append(("C17:copy-drags-document-copy:parsed-document", "in a document built by the parser every embedded copy carries, through "
                    "parent_object_, a private deep copy of the whole document (which holds the earlier copies and theirs ...): time and "
                    "memory double with every referring cell", 0, pr["hidden_docs"]))
    if pr is not None:
        if pr["outcome"] == "other":
            bad.append(("C17:parser:unexpected-exception", "NeuroMLXMLParser.parse failed unexpectedly", "ok or KeyError", pr["detail"]))
        elif dangling and pr["outcome"] != "keyerror":
            bad.append(("C17:parser:dangling-no-keyerror", "NeuroMLXMLParser.parse: an unresolvable reference raises nothing", "KeyError", pr["outcome"]))
        elif not dangling and pr["outcome"] != "ok":
            bad.append(("C17:parser:resolvable-but-failed", "NeuroMLXMLParser.parse failed although every reference can be resolved", "ok",
                        pr["outcome"] + " " + pr["detail"]))
        elif not dangling:
            order = [c for c in case["cells"] if c["list"] == "cells"] + [c for c in case["cells"] if c["list"] == "cells2"]
            for c, o in zip(order, pr["output"]):
                for kind, pos in (("m", 2), ("b", 3)):
                    if c[kind]["attr"] is not None and c[kind]["emb"] is None:
                        attr, emb = o[pos]
                        if emb is None or attr is not None or emb not in candidates(case, kind, c[kind]["attr"]):
                            bad.append(("C17:parser:reference-unresolved", "a document read through NeuroMLXMLParser.parse keeps an external "
                                        "reference unresolved", {"cell": c["id"], "candidates": candidates(case, kind, c[kind]["attr"])},
                                        {"cell": o[0], "attr": attr, "embedded": emb}))
    if f["outcome"] != "other":
        if f["dump_in_before"] != f["dump_in_after"]:
            bad.append(("C17:overwrite-false-mutates-input", "overwrite=False changed the document passed in", f["dump_in_before"][:400],
                        f["dump_in_after"][:400]))
        if f["outcome"] == "ok" and f["same_doc"]:
            bad.append(("C17:overwrite-false-returns-input", "overwrite=False returned the document passed in", False, True))
        if t["outcome"] == "ok" and t["same_doc"] is False:
            bad.append(("C17:overwrite-true-returns-copy", "overwrite=True returned another document", True, False))
        if (t["outcome"], t["dump_out"]) != (f["outcome"], f["dump_out"]):
            bad.append(("C17:overwrite-results-differ", "the document returned with overwrite=False differs from the overwrite=True result",
                        [t["outcome"], t["dump_out"][:400]], [f["outcome"], f["dump_out"][:400]]))
    return bad


def parse_nat_list(s):
    s = s.strip()
    if s.startswith("["):
        s = s[1:s.rindex("]")]
    return [int(x) for x in s.replace("%nat", "").split(";") if x.strip()]


def shape(case):
    kinds = set()
    for c in case["cells"]:
        for k in ("m", "b"):
            s = c[k]
            kinds.add(("ref+emb" if s["emb"] is not None else "ref") if s["attr"] is not None else ("emb" if s["emb"] is not None else "none"))
    refs = [c[k]["attr"] for c in case["cells"] for k in ("m", "b") if c[k]["attr"] is not None and c[k]["emb"] is None]
    return {"kinds": sorted(kinds), "shared": len(refs) != len(set(refs)), "cells2": any(c["list"] == "cells2" for c in case["cells"]),
            "incs": len(case["incs"])}


def run(ck):
    ck.rule = ("documents with 0-5 cells and 0-2 Cell2CaPools cells, each slot (morphology, biophysics) none / embedded / "
               "referenced / referenced+embedded / dangling, ids from small pools (shared references, duplicate definitions, "
               "one id used for both kinds), definitions local and in 0-2 included files; one evaluation = one document run "
               "with one value of overwrite, compared with the model by the kernel (values + aliasing pattern); non-trivial = "
               "at least one cell refers to an element without embedding it; distinct by the full case text")
    ck.trusted = ["Coq 8.16.1 kernel + vm_compute",
                  "copy.deepcopy: fresh objects, equal values, no object shared with the source (hypotheses dcopy_* of "
                  "Proofs/RefsP.v; the concrete instance cdcopy is proved to satisfy them; the real deepcopy is compared "
                  "through the aliasing pattern of id() on every run)",
                  "read_neuroml2_file of an include returns fresh objects with the values in the file (hypotheses load_*)",
                  "impl/c17_impl.py (builds the documents with the real classes, walks them, relabels id())"]
    ck.assumptions = ["the document passed in has no internal aliasing (every object is reachable along one path), as for "
                      "every document produced by the parser",
                      "include hrefs are readable from the working directory (otherwise read_neuroml2_file ends the process)",
                      "CPython keeps id() unique while the objects are alive (the harness holds references)"]
    ck.gate_static()
    g = Gen(ck.rng)
    cases = fixed_cases() + [g.case() for _ in range(ck.n(200, 2000))]
    for i, c in enumerate(cases):
        # also through NeuroMLXMLParser.parse (file -> include resolution -> fix), for the file forms an <include> may have there
        # (at most 8 referring slots there: see the known finding C17:copy-drags-document-copy - the cost doubles per slot)
        c["via_parser"] = (i < ck.n(80, 400) and all(f["href"].endswith(PARSER_FORMS) and "lnk" not in f.get("prefix", "") for f in c["incs"]) and
                           sum(1 for x in c["cells"] for k in ("m", "b") if x[k]["attr"] is not None and x[k]["emb"] is None) <= 8)
    results = []
    for i in range(0, len(cases), 500):
        got = ck.impl("c17_impl.py", {"cases": cases[i:i + 500], "ctor_probe": i == 0}, timeout=1500)
        results += got["results"]
        if i == 0:
            pr = got["ctor_probe"]
            ck.oblige("static:Cell2CaPools.__init__ forwards every parameter to the same-named Cell parameter",
                      pr["parse_ok"] and not pr["mismatches"], json.dumps(pr)[:800], kind="instance")
            ck.extra["ctor_forwarding_mismatches"] = pr["mismatches"]
    # ---- the interpreter's configuration is not input: the first deterministic documents again under `python -O` and with
    #      another hash seed from another working directory
    canon = lambda r: {m: {k: r[m].get(k) for k in ("outcome", "input_after", "output", "out_lists", "pattern")} for m in ("true", "false")}
    for label, kw in (("python-O", {"pyflags": ["-O"]}), ("PYTHONHASHSEED=3,cwd=/", {"extra_env": {"PYTHONHASHSEED": "3"}, "cwd": "/"})):
        alt = ck.impl("c17_impl.py", {"cases": cases[:12]}, timeout=900, **kw)["results"]
        for case, a, b in zip(cases[:12], results[:12], alt):
            ck.tally("other-interpreter-configuration")
            if canon(a) != canon(b):
                ck.witness("C17:interpreter-configuration:%s" % label.split(",")[0],
                           "under %s the call gives another result than under the default interpreter configuration" % label,
                           input={"case": case}, expected=canon(a), observed=canon(b))
    # ---- histories: several calls in ONE process, the included files rewritten between the calls; every call must behave as
    #      if it were the only one (the model's `load` is a function of the files at call time)
    hists = fixed_histories() + [g.history() for _ in range(ck.n(12, 120))]
    hout = ck.impl("c17_impl.py", {"histories": hists}, timeout=1500)["histories"]
    steps = [(hi, si, st) for hi, h in enumerate(hists) for si, st in enumerate(h)]
    fresh = ck.impl("c17_impl.py", {"cases": [st for _, si, st in steps], "fork": True}, timeout=1500)["results"]
    fresh_it = iter(fresh)
    for hi, si, st in steps:
        res = hout[hi]["steps"][si]
        st["history"] = [hi, si]
        cases.append(st)
        results.append(res)
        ck.tally("history-call:%d" % si)
        if True:
            fr = next(fresh_it)
            for m in ("true", "false"):
                a = {k: res[m][k] for k in ("outcome", "input_after", "output", "out_lists")}
                b = {k: fr[m][k] for k in ("outcome", "input_after", "output", "out_lists")}
                if a != b:
                    ck.witness("C17:result-depends-on-earlier-calls", "a call gives another result after earlier calls in the same process "
                               "(the included file was rewritten in between) than in a fresh process",
                               input={"history": hists[hi][:si + 1], "overwrite": m == "true"}, expected=b, observed=a)
    for hi, h in enumerate(hout):
        if h["copies_shared_between_calls"]:
            ck.witness("C17:copies-shared-between-calls", "copies embedded by different calls share objects", input={"history": hists[hi]},
                       expected=False, observed=True)
    ck.extra["histories"] = len(hists)
    flat = []
    for ci, (case, res) in enumerate(zip(cases, results)):
        for ow in (True, False):
            r = res["true" if ow else "false"]
            if r["outcome"] == "other":
                ck.disagree("Refs.fix_doc", {"case": case, "overwrite": ow}, "(ok / KeyError / exit)", r, note="outcome outside the model")
                continue
            flat.append((ci, ow, r))
    follows_old = True
    for fi in range(0, len(flat), 400):
        chunk = flat[fi:fi + 400]
        text = HEADER + "Definition cases : list case := [\n" + ";\n".join(q_case(cases[ci], ow, r) for ci, ow, r in chunk) + "\n].\n"
        text += "Eval vm_compute in (mismatches cases).\nEval vm_compute in (mismatches_old cases).\n"
        ok, res, out = ck.coq_eval("Cases_C17_%d.v" % (fi // 400), text, timeout=900)
        name = "Cases_C17_%d.v:model=implementation" % (fi // 400)
        if not ok or len(res) != 2:
            ck.oblige(name, False, out[-1500:], kind="correspondence")
            follows_old = False
            continue
        idx, idx_old = parse_nat_list(res[0]), parse_nat_list(res[1])
        ck.oblige(name, not idx, "cases differing from the model: %s" % idx[:20], kind="correspondence")
        if idx_old:
            follows_old = False
        for k in idx:
            ci, ow, r = chunk[k]
            ck.disagree("Refs.fix_doc", {"case": cases[ci], "overwrite": ow}, "see Cases_C17_%d.v case %d" % (fi // 400, k),
                        {k2: r[k2] for k2 in ("outcome", "input_after", "output", "out_lists", "pattern")},
                        note="implementation agrees with the pre-patch model (fix_doc false)" if k not in idx_old else "")
    ck.extra["tree_follows_prepatch_model"] = bool(follows_old and ck.disagreements)
    ck.compile_props()
    for ci, (case, res) in enumerate(zip(cases, results)):
        sh = shape(case)
        nontriv = any(c[k]["attr"] is not None and c[k]["emb"] is None for c in case["cells"] for k in ("m", "b"))
        for ow in (True, False):
            r = res["true" if ow else "false"]
            ck.count(1, nontrivial_key=json.dumps([case, ow], sort_keys=True) if nontriv else None,
                     sample={"case": case, "overwrite": ow, "outcome": r["outcome"], "output": r["output"], "pattern": r["pattern"]}
                     if ci in (1, 2, 6) and ow else None)
            ck.tally("outcome:" + r["outcome"])
        ck.tally("shared-reference" if sh["shared"] else "no-shared-reference")
        if sh["cells2"]:
            ck.tally("with-cell2capools")
        ck.tally("includes:%d" % sh["incs"])
        if "parser" in res:
            ck.tally("via-NeuroMLXMLParser:" + res["parser"]["outcome"])
        ck.tally("built:" + case.get("build", "api"))
        for pk in res.get("parent_kinds", []):
            ck.tally("referenced-element-parent:" + pk)
        for k in sh["kinds"]:
            ck.tally("slot:" + k)
        for key, what, exp, obs in predicate(case, res):
            ck.witness(key, what, input={"case": case}, expected=exp, observed=obs)
    ck.extra["documents"] = len(cases)


def replay(ck, data):
    hist = (data.get("input") or {}).get("history")
    if hist:
        h = ck.impl("c17_impl.py", {"histories": [hist]})["histories"][0]
        fr = ck.impl("c17_impl.py", {"cases": [hist[-1]], "fork": True})["results"][0]
        last = h["steps"][-1]
        diff = [m for m in ("true", "false") if any(last[m][k] != fr[m][k] for k in ("outcome", "input_after", "output", "out_lists"))]
        bad = predicate(hist[-1], last)
        print(json.dumps({"stored": {k: data.get(k) for k in ("key", "what")},
                          "last_call_in_history": {m: {"outcome": last[m]["outcome"], "output": last[m]["output"]} for m in ("true", "false")},
                          "same_call_in_fresh_process": {m: {"outcome": fr[m]["outcome"], "output": fr[m]["output"]} for m in ("true", "false")},
                          "differs_for_overwrite": diff, "copies_shared_between_calls": h["copies_shared_between_calls"],
                          "property_failures_now": [b[:2] for b in bad]}, indent=1)[:6000])
        return 1 if (diff or bad or h["copies_shared_between_calls"]) else 0
    case = (data.get("input") or {}).get("case")
    if not case:
        print(json.dumps(data, indent=1)[:4000])
        return 0
    res = ck.impl("c17_impl.py", {"cases": [case]})["results"][0]
    bad = predicate(case, res)
    print(json.dumps({"stored": {k: data.get(k) for k in ("key", "what", "expected", "observed")},
                      "now": {m: {"outcome": res[m]["outcome"], "output": res[m]["output"]} for m in ("true", "false")},
                      "property_failures_now": [b[:2] for b in bad]}, indent=1)[:6000])
    return 1 if bad else 0
