"""C06 — include resolution merges every included component once and always terminates.

Model   coq/Model/Includes.v  (rd: the loaders after fixes/C06-include-cycles.patch; rd_old: before it)
Proofs  coq/Proofs/IncludesP*.v, statements in coq/Props/C06.v (all finite file systems, all fuel-free)
Tie     correspondence: generated include graphs are materialised in a scratch directory by impl/c06_impl.py,
        the REAL read_neuroml2_file / read_neuroml2_string run on them from several working directories; the
        per-member-list (id, tag) sequences, the includes left, the final already_included list and the outcome
        go into Cases_C06_*.v as Coq terms and the kernel computes the indices where the model differs.
        The files actually opened (NeuroMLLoader.load / NeuroMLHdf5Loader.load wrapped) must equal that list.
Search  the property itself (termination, union of the reachable files, every file read once, nothing left in
        includes, independence of the working directory) is evaluated on the implementation's outputs against
        an oracle computed with os.path on the materialised tree - independent of the Coq model.
"""
import json
import os
import posixpath

from lib.vcommon import coq_list, coq_str

# frequently used member lists (small pool: id collisions between files); every other list member of
# NeuroMLDocument (impl: describe) is drawn less often and all of them appear in the fixed "all lists" cases
LISTS = ["ion_channel", "cells", "morphology", "ComponentType", "pulse_generators", "biophysical_properties",
         "iaf_cells", "networks", "networks", "intracellular_properties"]
INFO = {}  # member list -> {"has_id", "has_name", "tagged"}, filled by run() from the tree under test
IDS = ["x", "y", "z", "w"]
BASENAMES = ["a", "b", "c", "cell", "chan", "net"]
PREFIX = ["p0", "p1", "p2", "p3"]


# ----------------------------------------------------------------------------------------- generator
def P(segs):
    return "/" + "/".join(segs)


class Gen:
    def __init__(self, rng):
        self.rng = rng
        self.tag = 0

    def comp(self, lists=None):
        r = self.rng
        pool = lists or (LISTS if r.random() < 0.8 or not INFO else sorted(INFO))
        l = r.choice(pool)
        return self.mk(l, r.choice(["net0", "net1", "nx"]) if l == "networks" else r.choice(IDS))

    def mk(self, l, ident, idless_ok=True):
        info = INFO.get(l, {"has_id": l != "ComponentType", "has_name": l == "ComponentType", "tagged": True})
        self.tag += 1
        tag = self.tag if info["tagged"] else -1
        if not info["has_id"]:
            return {"list": l, "idk": "n", "id": ident if info["has_name"] else "", "tag": tag}
        if idless_ok and self.rng.random() < 0.06:
            return {"list": l, "idk": "0", "id": "", "tag": tag}
        return {"list": l, "idk": "s", "id": ident, "tag": tag}

    def comps(self, lo, hi, lists=None):
        return [self.comp(lists) for _ in range(self.rng.randint(lo, hi))]

    def dirs(self):
        """directory tree below PREFIX: hrefs written for one base are also resolved from other bases/working
        directories, and must never climb above the scratch root (where model and machine would differ)"""
        r = self.rng
        ds = [list(PREFIX)]
        for _ in range(r.randint(0, 5)):
            par = r.choice(ds)
            if len(par) >= 3 + len(PREFIX):
                continue
            d = par + ["d%d" % r.randint(0, 2)]
            if d not in ds:
                ds.append(d)
        return ds

    def href(self, frm_dir, to_path, dirs, cwd, style=None):
        """an href that names to_path: relative to the including directory, relative to cwd, or absolute;
        sometimes decorated with ./ , x/../ (existing or missing x)"""
        r = self.rng
        style = style or r.choice(["base", "base", "base", "base", "cwd", "abs"])
        if style == "abs":
            return {"abs": True, "segs": list(to_path)}
        start = cwd if style == "cwd" else frm_dir
        rel = posixpath.relpath(P(to_path), P(start)).split("/")
        x = r.random()
        if x < 0.12:
            rel = ["."] + rel
        elif x < 0.22:
            sub = [d for d in dirs if d[:len(start)] == start and len(d) == len(start) + 1]
            if sub and r.random() < 0.7:
                rel = [r.choice(sub)[-1], ".."] + rel  # existing directory and back
            else:
                rel = ["nodir", ".."] + rel  # lexically fine, the kernel says ENOENT
        elif x < 0.26 and len(rel) >= 2:
            rel = rel[:-1] + [""] + rel[-1:]  # double slash (never leading: that would be an absolute path)
        return {"abs": False, "segs": rel}

    def graph(self, shape=None):
        r = self.rng
        dirs = self.dirs()
        shape = shape or r.choice(["chain", "diamond", "cycle", "self", "random", "random", "tree", "mutual"])
        n = {"self": r.randint(1, 3), "mutual": r.randint(2, 4), "diamond": r.randint(4, 6),
             "chain": r.randint(2, 6), "cycle": r.randint(2, 5), "tree": r.randint(3, 7),
             "random": r.randint(2, 7)}[shape]
        # file names: small pool so that the same relative name exists in several directories
        paths, kinds = [], []
        for i in range(n):
            for _ in range(50):
                d = r.choice(dirs)
                x = r.random()
                ext = ".nml" if x < 0.6 else ".xml" if x < 0.73 else ".nml.h5" if x < 0.96 else r.choice([".txt", ".h5", ".nml.hdf5"])
                p = d + [r.choice(BASENAMES) + ext]
                if p not in paths and p not in dirs:
                    break
            else:
                p = r.choice(dirs) + ["u%d.nml" % i]
            if i == 0 and r.random() < 0.25 and not p[-1].endswith((".h5", ".hdf5")):
                p = p[:-1] + [p[-1].rsplit(".", 1)[0] + r.choice([".nml.h5", ".nml.h5", ".h5"])]  # an HDF5 ENTRY file
            paths.append(p)
            kinds.append("h5" if p[-1].endswith((".h5", ".hdf5")) else "xml")
        if r.random() < 0.04 and n > 1:  # content that does not fit the name
            j = r.randrange(1, n)
            kinds[j] = "xml" if kinds[j] == "h5" else "h5"
        edges = set()
        if shape == "chain":
            edges = {(i, i + 1) for i in range(n - 1)}
        elif shape == "cycle":
            edges = {(i, (i + 1) % n) for i in range(n)}
        elif shape == "self":
            edges = {(0, 0)} | {(i, i + 1) for i in range(n - 1)}
            if r.random() < 0.5:
                edges.add((n - 1, n - 1))
        elif shape == "mutual":
            edges = {(0, 1), (1, 0)} | {(r.randrange(n), r.randrange(n)) for _ in range(n - 2)}
        elif shape == "diamond":
            edges = {(0, 1), (0, 2), (1, 3), (2, 3)} | {(3, j) for j in range(4, n)}
            if r.random() < 0.3:
                edges.add((3, 0))
        elif shape == "tree":
            edges = {(r.randrange(i), i) for i in range(1, n)}
        else:
            edges = {(r.randrange(n), r.randrange(n)) for _ in range(r.randint(1, 2 * n))}
        cwd = r.choice(dirs)
        files = []
        for i in range(n):
            outs = sorted(j for (a, j) in edges if a == i)
            r.shuffle(outs)
            if r.random() < 0.15 and outs:
                outs.append(r.choice(outs))  # the same file included twice from one file
            fd = paths[i][:-1]
            incs = [self.href(fd, paths[j], dirs, cwd) for j in outs]
            x = r.random()
            if x < 0.025:
                incs.insert(r.randrange(len(incs) + 1), {"abs": False, "segs": ["missing.nml"]})
            elif x < 0.04 and len(dirs) > 1:
                incs.append(self.href(fd, r.choice(dirs[1:]), dirs, cwd, "base"))  # a directory
            if kinds[i] == "xml":
                files.append({"path": paths[i], "kind": "xml", "comps": self.comps(0, 3), "incs": incs})
            else:
                self.tag += 1
                net = {"list": "networks", "idk": "s", "id": r.choice(["net0", "net1"]), "tag": self.tag}
                emb = None if (r.random() < 0.25 and not incs) else {"comps": [c for c in self.comps(0, 2) if c["list"] != "networks"],
                                                                         "incs": incs}  # the writer strips networks from the embedded XML
                files.append({"path": paths[i], "kind": "h5", "nets": [net], "emb": emb})
        if r.random() < 0.75:
            entry = {"file": paths[0], "style": r.choice(["abs", "rel", "rel", "rel_dot"])}
        else:
            bd = r.choice(dirs)
            x = r.random()
            base = None if x < 0.25 else bd
            frm = cwd if base is None else bd
            outs = sorted({0} | {r.randrange(n) for _ in range(r.randint(0, 2))})
            entry = {"string": {"comps": self.comps(0, 3) + ([self.netcomp()] if r.random() < 0.3 else []),
                                "incs": [self.href(frm, paths[j], dirs, cwd) for j in outs]},
                     "base": base, "base_style": r.choice(["abs", "rel"])}
        al = []
        if r.random() < 0.12:
            al = [r.choice(paths) for _ in range(r.randint(1, 2))]
            al = [p for i, p in enumerate(al) if p not in al[:i]]
        cwds = []
        for _ in range(r.randint(1, 2)):
            c = r.choice(dirs)
            if c != cwd and c not in cwds:
                cwds.append(c)
        h5_entry = "file" in entry and entry["file"][-1].endswith((".h5", ".hdf5"))
        opts = [False, True] if h5_entry else [r.random() < 0.3]
        case = {"opts": opts, "files": files, "dirs": [PREFIX[:i] for i in range(len(PREFIX))] + dirs, "cwd": cwd, "cwds": cwds, "entry": entry, "al": al, "shape": shape}
        if not al and r.random() < 0.25:
            case["entries"] = [entry, entry]
            case["default_args"] = True
        case["names"] = names_of(case)
        return case

    def netcomp(self):
        self.tag += 1
        return {"list": "networks", "idk": "s", "id": self.rng.choice(["net0", "net1"]), "tag": self.tag}


def names_of(case):
    s = set()
    for f in case["files"]:
        for c in (f.get("comps") or []) + (f.get("nets") or []) + ((f.get("emb") or {}).get("comps") or []):
            s.add(c["list"])
    for e in case.get("entries") or [case["entry"]]:
        if "string" in e:
            for c in e["string"]["comps"]:
                s.add(c["list"])
    return sorted(s)


def C(l, i, t, k="s"):
    return {"list": l, "idk": k, "id": i, "tag": t}


def H(*segs, abs=False):
    return {"abs": abs, "segs": list(segs)}


def fixed_cases(g):
    """the stored witnesses and the named shapes of the property text; they run first on every run"""
    out = []
    # 0: a file that includes itself
    out.append({"files": [{"path": ["a.nml"], "kind": "xml", "comps": [C("ion_channel", "x", 1), C("ComponentType", "ct", 2, "n")],
                           "incs": [H("a.nml")]}],
                "dirs": [[]], "cwd": [], "cwds": [], "entry": {"file": ["a.nml"], "style": "abs"}, "al": [], "shape": "self"})
    # 1: two files in nested directories that include each other
    out.append({"files": [{"path": ["d0", "a.nml"], "kind": "xml", "comps": [C("cells", "x", 1), C("ComponentType", "p", 2, "n")],
                           "incs": [H("d1", "b.nml")]},
                          {"path": ["d0", "d1", "b.nml"], "kind": "xml", "comps": [C("cells", "y", 3), C("ComponentType", "q", 4, "n")],
                           "incs": [H("..", "a.nml")]}],
                "dirs": [[], ["d0"], ["d0", "d1"], ["e"]], "cwd": ["e"], "cwds": [[]],
                "entry": {"file": ["d0", "a.nml"], "style": "rel"}, "al": [], "shape": "mutual"})
    # 2: diamond with an id defined twice and an id-less ComponentType at the bottom
    out.append({"files": [{"path": ["top.nml"], "kind": "xml", "comps": [C("cells", "x", 1)], "incs": [H("l", "b.nml"), H("r", "c.nml")]},
                          {"path": ["l", "b.nml"], "kind": "xml", "comps": [C("ion_channel", "k", 2)], "incs": [H("..", "s", "d.nml")]},
                          {"path": ["r", "c.nml"], "kind": "xml", "comps": [C("ion_channel", "k", 3)], "incs": [H("..", "s", "d.nml")]},
                          {"path": ["s", "d.nml"], "kind": "xml", "comps": [C("ComponentType", "ct", 4, "n"), C("cells", "x", 5)], "incs": []}],
                "dirs": [[], ["l"], ["r"], ["s"]], "cwd": ["l"], "cwds": [["s"]],
                "entry": {"file": ["top.nml"], "style": "abs"}, "al": [], "shape": "diamond"})
    # 3: an HDF5 network file whose embedded XML includes a cell file that includes the network file
    out.append({"files": [{"path": ["n", "net.nml.h5"], "kind": "h5", "nets": [C("networks", "net0", 1)],
                           "emb": {"comps": [C("ion_channel", "k", 2)], "incs": [H("..", "c", "cell.nml")]}},
                          {"path": ["c", "cell.nml"], "kind": "xml", "comps": [C("cells", "x", 3), C("ComponentType", "ct", 4, "n")],
                           "incs": [H("..", "n", "net.nml.h5")]}],
                "dirs": [[], ["n"], ["c"]], "cwd": [], "cwds": [["c"]],
                "entry": {"file": ["n", "net.nml.h5"], "style": "abs"}, "al": [], "shape": "cycle"})
    # 4: two HDF5 files embedding an include of the same file (id-less component must arrive once), from a string
    out.append({"files": [{"path": ["n1.nml.h5"], "kind": "h5", "nets": [C("networks", "net0", 1)],
                           "emb": {"comps": [], "incs": [H("lib.nml")]}},
                          {"path": ["n2.nml.h5"], "kind": "h5", "nets": [C("networks", "net1", 2)],
                           "emb": {"comps": [], "incs": [H("lib.nml")]}},
                          {"path": ["lib.nml"], "kind": "xml", "comps": [C("ComponentType", "ct", 3, "n"), C("ion_channel", "k", 4)], "incs": []}],
                "dirs": [[], ["w"]], "cwd": ["w"], "cwds": [],
                "entry": {"string": {"comps": [C("cells", "x", 5)], "incs": [H("n1.nml.h5"), H("n2.nml.h5")]}, "base": [], "base_style": "rel"},
                "al": [], "shape": "diamond"})
    # 5: the same relative name exists below the working directory: the working directory wins
    out.append({"files": [{"path": ["m", "a.nml"], "kind": "xml", "comps": [C("cells", "x", 1)], "incs": [H("b.nml")]},
                          {"path": ["m", "b.nml"], "kind": "xml", "comps": [C("cells", "y", 2)], "incs": []},
                          {"path": ["o", "b.nml"], "kind": "xml", "comps": [C("cells", "z", 3)], "incs": []}],
                "dirs": [[], ["m"], ["o"]], "cwd": ["o"], "cwds": [[], ["m"]],
                "entry": {"file": ["m", "a.nml"], "style": "abs"}, "al": [], "shape": "chain"})
    # 6: the stored witness of the known finding: optimized=True on an HDF5 entry file, an included file defines a network
    #    with the id of the file's own network
    out.append({"files": [{"path": ["n.nml.h5"], "kind": "h5", "nets": [C("networks", "net0", 1)],
                           "emb": {"comps": [], "incs": [H("a.nml")]}},
                          {"path": ["a.nml"], "kind": "xml", "comps": [C("networks", "net0", 2)], "incs": []}],
                "dirs": [[]], "cwd": [], "cwds": [], "entry": {"file": ["n.nml.h5"], "style": "abs"}, "al": [], "shape": "chain"})
    # 7-10: EVERY top-level member list (id-less kinds included) defined in included files, one of them reached
    #    transitively, the second repeating every id: XML entry, string entry, HDF5 entry; all with optimized False and True
    lists = sorted(INFO) or ["cells", "networks", "ComponentType"]
    all1 = [g.mk(l, "u", idless_ok=False) for l in lists]
    all2 = [g.mk(l, "u", idless_ok=False) for l in lists] + [g.mk("networks", "deepnet", idless_ok=False)]
    own = [g.mk(l, "own", idless_ok=False) for l in lists if l != "networks"]
    lib = [{"path": ["lib", "all.nml"], "kind": "xml", "comps": all1, "incs": [H("deep", "all2.xml")]},
           {"path": ["lib", "deep", "all2.xml"], "kind": "xml", "comps": all2, "incs": []}]
    dirs = [[], ["lib"], ["lib", "deep"], ["w"]]
    out.append({"files": [{"path": ["top.nml"], "kind": "xml", "comps": own + [C("networks", "topnet", 0)], "incs": [H("lib", "all.nml")]}] + lib,
                "dirs": dirs, "cwd": ["w"], "cwds": [], "entry": {"file": ["top.nml"], "style": "rel"}, "al": [], "shape": "chain"})
    out.append({"files": lib, "dirs": dirs, "cwd": ["w"], "cwds": [],
                "entry": {"string": {"comps": own, "incs": [H("lib", "all.nml")]}, "base": [], "base_style": "abs"}, "al": [], "shape": "chain"})
    # one entry per HDF5 file form the loader accepts (.nml.h5, .h5, .hdf5); the included files above have the forms .nml and
    # .xml, the next case adds an included .nml.h5; an .xml entry is case 11b
    for name in ("top.nml.h5", "top.h5", "top.hdf5"):
        out.append({"files": [{"path": [name], "kind": "h5", "nets": [C("networks", "topnet", 0)],
                               "emb": {"comps": own, "incs": [H("lib", "all.nml")]}}] + lib,
                    "dirs": dirs, "cwd": ["w"], "cwds": [[]], "entry": {"file": [name], "style": "abs"}, "al": [], "shape": "chain"})
    out.append({"files": [{"path": ["top.xml"], "kind": "xml", "comps": [C("cells", "own", 0)],
                           "incs": [H("lib", "all.nml"), H("lib", "net.nml.h5")]},
                          {"path": ["lib", "net.nml.h5"], "kind": "h5", "nets": [C("networks", "h5net", 0)],
                           "emb": {"comps": [C("ion_channel", "k", 0)], "incs": [H("deep", "all2.xml")]}}] + lib,
                "dirs": dirs, "cwd": ["w"], "cwds": [], "entry": {"file": ["top.xml"], "style": "abs"}, "al": [], "shape": "diamond"})
    # call histories in ONE process with default arguments (no already_included passed), no file changed in between:
    # every fixed graph above is read twice in a row ...
    for k, c in enumerate(out):
        if k <= 6 or c["entry"].get("file") == ["top.nml.h5"]:
            c["entries"] = [c["entry"], c["entry"]]
            c["default_args"] = True
    # ... and two different entry files (and a string) that share an include are read one after the other
    shared = [{"path": ["s", "lib.nml"], "kind": "xml", "comps": [C("cells", "x", 1), C("ComponentType", "ct", 2, "n"), C("networks", "nx", 3)],
               "incs": [H("deep.xml")]},
              {"path": ["s", "deep.xml"], "kind": "xml", "comps": [C("ion_channel", "k", 4)], "incs": []},
              {"path": ["a.nml"], "kind": "xml", "comps": [C("cells", "a", 5)], "incs": [H("s", "lib.nml")]},
              {"path": ["b.nml.h5"], "kind": "h5", "nets": [C("networks", "net0", 6)], "emb": {"comps": [C("cells", "b", 7)], "incs": [H("s", "lib.nml")]}}]
    ents = [{"file": ["a.nml"], "style": "abs"}, {"file": ["b.nml.h5"], "style": "rel"},
            {"string": {"comps": [C("cells", "s", 8)], "incs": [H("s", "lib.nml")]}, "base": [], "base_style": "abs"},
            {"file": ["a.nml"], "style": "rel"}]
    out.append({"files": shared, "dirs": [[], ["s"]], "cwd": [], "cwds": [], "entry": ents[0], "entries": ents, "default_args": True,
                "al": [], "shape": "diamond"})
    # the same RELATIVE name read from different working directories in one process: two project trees with the same layout and
    # different content; file entry ("model/main.nml") and string entry (base_path None: hrefs relative to the working directory)
    proj = []
    for k, pj in enumerate(("proj1", "proj2")):
        proj += [{"path": [pj, "model", "main.nml"], "kind": "xml", "comps": [C("cells", "main", 10 * k + 1)], "incs": [H("parts", "cell.nml")]},
                 {"path": [pj, "model", "parts", "cell.nml"], "kind": "xml", "comps": [C("cells", "part%d" % k, 10 * k + 2), C("ComponentType", "ct", 10 * k + 3, "n")],
                  "incs": []}]
    ents = []
    for pj in ("proj1", "proj2", "proj1"):
        ents.append({"file": [pj, "model", "main.nml"], "style": "rel", "cwd": [pj]})
    for pj in ("proj2", "proj1"):
        ents.append({"string": {"comps": [C("cells", "s", 30)], "incs": [H("model", "parts", "cell.nml")]}, "base": None, "base_style": "abs", "cwd": [pj]})
    ents.append({"file": ["proj2", "model", "main.nml"], "style": "rel_dot", "cwd": ["proj2"]})
    out.append({"files": proj, "dirs": [[], ["proj1"], ["proj2"], ["proj1", "model"], ["proj2", "model"], ["proj1", "model", "parts"], ["proj2", "model", "parts"]],
                "cwd": ["proj1"], "cwds": [], "entry": ents[0], "entries": ents, "default_args": True, "al": [], "shape": "chain"})
    # scale: more than 100 files in one include graph (3 hubs x 42 leaves, two leaves reached from two hubs)
    big = [{"path": ["big.nml"], "kind": "xml", "comps": [C("cells", "top", 1)], "incs": [H("h%d" % i, "hub.nml") for i in range(3)]}]
    for i in range(3):
        big.append({"path": ["h%d" % i, "hub.nml"], "kind": "xml", "comps": [C("cells", "hub%d" % i, 2 + i)],
                    "incs": [H("leaf%d.nml" % j) for j in range(42)] + [H("..", "h0", "leaf%d.nml" % i)]})
        for j in range(42):
            big.append({"path": ["h%d" % i, "leaf%d.nml" % j], "kind": "xml", "comps": [C("ion_channel", "c%d_%d" % (i, j), 10 + 50 * i + j)], "incs": []})
    # ... and only then a file that has includes of its own
    big[0]["incs"].append(H("tail", "t1.nml"))
    big.append({"path": ["tail", "t1.nml"], "kind": "xml", "comps": [C("cells", "t1", 5)], "incs": [H("t2.xml")]})
    big.append({"path": ["tail", "t2.xml"], "kind": "xml", "comps": [C("cells", "t2", 6), C("networks", "tnet", 7)], "incs": []})
    out.append({"files": big, "dirs": [[], ["h0"], ["h1"], ["h2"], ["tail"]], "cwd": [], "cwds": [], "entry": {"file": ["big.nml"], "style": "abs"},
                "al": [], "shape": "diamond"})
    # form: file and directory names that look like percent escapes or contain a blank are names, not encodings
    out.append({"files": [{"path": ["top.nml"], "kind": "xml", "comps": [C("cells", "top", 1)],
                           "incs": [H("My%20Cell.cell.nml"), H("d%41", "syn_100%ACh.nml"), H("My Cell.cell.nml")]},
                          {"path": ["My%20Cell.cell.nml"], "kind": "xml", "comps": [C("cells", "pct", 2)], "incs": []},
                          {"path": ["My Cell.cell.nml"], "kind": "xml", "comps": [C("cells", "blank", 3)], "incs": []},
                          {"path": ["d%41", "syn_100%ACh.nml"], "kind": "xml", "comps": [C("ion_channel", "ach", 4)], "incs": []},
                          {"path": ["dA", "syn_100%ACh.nml"], "kind": "xml", "comps": [C("ion_channel", "decoy", 5)], "incs": []}],
                "dirs": [[], ["d%41"], ["dA"]], "cwd": [], "cwds": [["dA"]], "entry": {"file": ["top.nml"], "style": "rel"}, "al": [], "shape": "tree"})
    # ... the same at depth 2 and from a string, with '#', '+' and a blank as controls (ASCII only: the names go into Coq strings)
    odd = [{"path": ["lib", "a+b #1.nml"], "kind": "xml", "comps": [C("cells", "plus", 1)], "incs": [H("ch%2Fx%25.nml"), H("sub dir", "x+y.xml")]},
           {"path": ["lib", "ch%2Fx%25.nml"], "kind": "xml", "comps": [C("ion_channel", "pct2", 2)], "incs": []},
           {"path": ["lib", "ch%2Fx%.nml"], "kind": "xml", "comps": [C("ion_channel", "decoy", 3)], "incs": []},
           {"path": ["lib", "sub dir", "x+y.xml"], "kind": "xml", "comps": [C("ion_channel", "blankdir", 4)], "incs": []}]
    out.append({"files": odd, "dirs": [[], ["lib"], ["lib", "sub dir"], ["w"]], "cwd": ["w"], "cwds": [],
                "entry": {"string": {"comps": [C("cells", "s", 5)], "incs": [H("lib", "a+b #1.nml")]}, "base": [], "base_style": "rel"},
                "al": [], "shape": "tree"})
    for c in out:
        c["names"] = names_of(c)
        c["opts"] = [False, True]
    return out


# ------------------------------------------------------------------------------------- Coq literals
def q_path(p):
    return coq_list([coq_str(s) for s in p])


def q_href(h):
    return "{| h_abs := %s; h_segs := %s |}" % ("true" if h["abs"] else "false", coq_list([coq_str(s) for s in h["segs"]]))


def q_cid(k, i):
    return {"n": "NoIdField", "0": "IdNone"}.get(k) or "(Id %s)" % coq_str(i)


def q_comp(c):
    # for a ComponentType the name is not an id (NoIdField): the tag identifies it
    return "{| c_list := %s; c_id := %s; c_tag := (%d)%%Z |}" % (coq_str(c["list"]), q_cid(c["idk"], c["id"]), c["tag"])


def q_x(comps, incs):
    return "{| x_comps := %s; x_incs := %s |}" % (coq_list([q_comp(c) for c in comps]), coq_list([q_href(h) for h in incs]))


def q_file(f):
    if f["kind"] == "xml":
        return "(%s, FXml %s)" % (q_path(f["path"]), q_x(f["comps"], f["incs"]))
    emb = f.get("emb")
    return "(%s, FH5 %s %s)" % (q_path(f["path"]), coq_list([q_comp(c) for c in f["nets"]]),
                                "None" if emb is None else "(Some %s)" % q_x(emb["comps"], emb["incs"]))


ERR = {"exit": "EMissing", "badext": "EBadExt", "h5open": "EH5Open", "parse": "EParse"}


def q_obs(case, run):
    o = run["outcome"]
    if o == "done":
        rows = [coq_list(["(%s, (%d)%%Z)" % (q_cid(k, i), t) for k, i, t in run["lists"][n]]) for n in case["names"]]
        return "(ODone %s %d %s)" % (coq_list(rows), run["incs_left"], coq_list([q_path(p) for p in run["already"]]))
    if o in ERR:
        return "(OErr %s)" % ERR[o]
    return "ONonTerm"


def q_case(case, cwd, run):
    opt = bool(run.get("opt")) and "file" in case["entry"]  # the flag has no effect on a string (no HDF5 there)
    e = case["entry"]
    if "file" in e:
        ent = "(EntFile %s)" % q_path(e["file"])
    else:
        ent = "(EntString %s %s)" % (q_x(e["string"]["comps"], e["string"]["incs"]),
                                     "None" if e["base"] is None else "(Some %s)" % q_path(e["base"]))
    return ("{| k_fs := {| fs_files := %s; fs_dirs := %s |}; k_cwd := %s; k_entry := %s; k_opt := %s; k_al := %s; k_names := %s; k_obs := %s |}"
            % (coq_list([q_file(f) for f in case["files"]]), coq_list([q_path(d) for d in case["dirs"]]), q_path(cwd), ent,
               "true" if opt else "false",
               coq_list([q_path(p) for p in case["al"]]), coq_list([coq_str(n) for n in case["names"]]), q_obs(case, run)))


HEADER = ("From Coq Require Import String List Bool ZArith.\nFrom LNML Require Import Model.Includes.\n"
          "Import ListNotations.\nOpen Scope string_scope.\n")


# ------------------------------------------------------------------------------ property predicate
def key_of(c):
    return (c["list"], c["idk"], c["id"])


def predicate(case, cwd, run, orc):
    """the property on the implementation's output; returns a list of (key, what, expected, observed)"""
    bad = []
    shape = case.get("shape", "?")
    cyc = graph_class(case)
    if run["outcome"] in ("recursion", "timeout"):
        bad.append(("C06:nonterminating:" + cyc, "include resolution does not terminate (%s) on a %s include graph"
                    % (run["outcome"], cyc), "terminates", run["outcome"] + " " + run.get("detail", "")[:120]))
        return bad
    if not orc["ok"]:
        if run["outcome"] == "done":
            pass  # an unreachable/missing include was skipped: nothing the property forbids
        return bad
    if run["outcome"] != "done":
        bad.append(("C06:error-on-resolvable-graph:" + cyc, "every include resolves to an existing file but the read failed",
                    "done", run["outcome"] + " " + run.get("detail", "")[:200]))
        return bad
    if run["incs_left"] != 0:
        bad.append(("C06:includes-left", "include entries left in the result", 0, run["incs_left"]))
    loads = [json.dumps(p) for p in run["loads"]]
    if len(set(loads)) != len(loads):
        dup = sorted(p for p in set(loads) if loads.count(p) > 1)
        bad.append(("C06:file-read-twice:" + cyc, "a file was read more than once", "each reachable file once", dup))
    if sorted(set(loads)) != sorted(json.dumps(p) for p in orc["reach"]):
        bad.append(("C06:reachable-set:" + cyc, "files read differ from the files reachable through the hrefs",
                    orc["reach"], run["loads"]))
    # union
    want = orc["comps"]
    got = [{"list": n, "idk": k, "id": i, "tag": t} for n in case["names"] for (k, i, t) in run["lists"][n]]
    if run["extra_lists"]:
        bad.append(("C06:union:foreign-list", "member lists nobody defined are filled", [], run["extra_lists"]))
    wt = {(c["list"], c["idk"], c["id"], c["tag"]) for c in want}
    for g in got:
        if (g["list"], g["idk"], g["id"], g["tag"]) not in wt:
            bad.append(("C06:union:foreign-component", "component in the result that no reachable file defines", None, g))
            break
    idw = {key_of(c) for c in want if c["idk"] != "n"}
    idg = [key_of(c) for c in got if c["idk"] != "n"]
    if set(idg) != idw:
        bad.append(("C06:union:ids:" + cyc, "ids in the result differ from the union over the reachable files",
                    sorted(idw), sorted(set(idg))))
    first = entry_comps(case)
    own = [key_of(c) for c in first if c["idk"] != "n"]
    ent = case["entry"].get("file")
    own_nets = set()
    if run.get("opt") and ent and ent[-1].endswith((".h5", ".hdf5")):
        own_nets = {key_of(c) for f in case["files"] if f["path"] == ent and f["kind"] == "h5" for c in f["nets"]}
    for k in sorted(set(idg)):
        allowed = max(1, own.count(k))
        if idg.count(k) > allowed:
            if k in own_nets and idg.count(k) == allowed + 1:
                bad.append(("C06:id-twice:optimized-entry-own-network", "optimized=True on an HDF5 entry file: its own network is appended "
                            "without the id test, so an included network with the same id stays next to it", allowed, [k, idg.count(k)]))
                continue
            bad.append(("C06:id-twice:" + cyc, "a component id appears more than once in a member list", allowed, [k, idg.count(k)]))
            break
    nw = sorted((c["list"], c["id"], c["tag"]) for c in want if c["idk"] == "n")
    ng = sorted((c["list"], c["id"], c["tag"]) for c in got if c["idk"] == "n")
    if nw != ng:
        bad.append(("C06:idless-multiset:" + cyc, "id-less components (ComponentType) are not the multiset union of the reachable "
                    "files, each file counted once", nw, ng))
    return bad


def entry_comps(case):
    e = case["entry"]
    if "string" in e:
        return e["string"]["comps"]
    for f in case["files"]:
        if f["path"] == e["file"]:
            return (f.get("comps") or []) if f["kind"] == "xml" else f["nets"] + ((f.get("emb") or {}).get("comps") or [])
    return []


def graph_class(case):
    """structural class of the include graph as written (by file name only; used for keys and coverage)"""
    names = {}
    for i, f in enumerate(case["files"]):
        names.setdefault(f["path"][-1], []).append(i)
    adj = {i: set() for i in range(len(case["files"]))}
    for i, f in enumerate(case["files"]):
        for h in (f.get("incs") if f["kind"] == "xml" else (f.get("emb") or {}).get("incs")) or []:
            last = [s for s in h["segs"] if s not in ("", ".", "..")]
            for j in names.get(last[-1] if last else "", []):
                adj[i].add(j)
    if any(i in adj[i] for i in adj):
        return "self-loop"
    # cycle detection
    color = {}

    def dfs(u):
        color[u] = 1
        for v in adj[u]:
            if color.get(v) == 1 or (v not in color and dfs(v)):
                return True
        color[u] = 2
        return False

    if any(u not in color and dfs(u) for u in adj):
        return "cycle"
    indeg = {}
    for u in adj:
        for v in adj[u]:
            indeg[v] = indeg.get(v, 0) + 1
    if any(v > 1 for v in indeg.values()):
        return "diamond"
    return "acyclic"


# ---------------------------------------------------------------------------------------------- run
def run(ck):
    ck.rule = ("include graphs (chain, tree, diamond, cycle, self loop, mutual, random digraph) over 1-7 XML / .nml.h5 files in "
               "nested directories with colliding file names and ids, hrefs relative to the including directory / to the "
               "working directory / absolute, decorated with ./ and x/../, both entry points, 2-3 working directories each, "
               "optionally pre-filled already_included, components from all 67 top-level member lists (id-less kinds included), HDF5 "
               "entry files read with optimized=False and True; one evaluation = one (graph, working directory, optimized) run of the real "
               "loader compared with the model by the kernel; non-trivial = at least one include is followed; distinct by "
               "the full case text")
    ck.trusted = ["Coq 8.16.1 kernel + vm_compute",
                  "impl/c06_impl.py (materialises the graph with plain file writes and the repo's NeuroMLHdf5Writer; classifies "
                  "exceptions; wraps NeuroMLLoader.load / NeuroMLHdf5Loader.load to log the files opened)",
                  "POSIX path semantics without symbolic links: os.path.abspath/join/dirname/exists/isfile behave as "
                  "join_norm/dirname/walk/lookup of Model/Includes.v (exercised by the correspondence, not proved)",
                  "lxml / generateDS parsing of the generated files, PyTables for the HDF5 members"]
    ck.assumptions = ["no symbolic links in the include tree (already_included compares os.path.abspath strings)",
                      "within one member list either every class has an id member or none has",
                      "the file system does not change during a read"]
    ck.gate_static()
    d = ck.impl("c06_impl.py", {"describe": True}, timeout=300)
    INFO.clear()
    INFO.update({x["list"]: x for x in d["lists"]})
    ck.extra["member_lists_generated"] = len(INFO)
    ck.extra["member_lists_unusable"] = d["unusable"]
    g = Gen(ck.rng)
    cases = fixed_cases(g) + [g.graph() for _ in range(ck.n(110, 1400))]
    results = []
    B = 250
    for i in range(0, len(cases), B):
        out = ck.impl("c06_impl.py", {"cases": cases[i:i + B], "recursion_limit": 400, "guard_s": 20}, timeout=1500)
        results += out["results"]
    # ---- correspondence: Coq computes the indices that differ
    # the interpreter's configuration is not input: the first deterministic cases again under `python -O` and with another hash
    # seed (set/dict iteration order) from another working directory - same outcomes, same merged lists in the same order
    canon = lambda r: {k: r.get(k) for k in ("outcome", "lists", "incs_left", "loads", "already", "cwd", "opt", "ei")}
    for label, kw in (("python-O", {"pyflags": ["-O"]}), ("PYTHONHASHSEED=3,cwd=/", {"extra_env": {"PYTHONHASHSEED": "3"}, "cwd": "/"})):
        alt = ck.impl("c06_impl.py", {"cases": cases[:10], "recursion_limit": 400, "guard_s": 20}, timeout=900, **kw)["results"]
        for case, a, b in zip(cases[:10], results[:10], alt):
            for ra, rb in zip(a["runs"], b["runs"]):
                ck.tally("other-interpreter-configuration")
                if canon(ra) != canon(rb):
                    key = [k for k in canon(ra) if canon(ra)[k] != canon(rb)[k]][0]
                    ck.witness("C06:interpreter-configuration:%s:%s" % (label.split(",")[0], key),
                               "under %s the read gives another %s than under the default interpreter configuration" % (label, key),
                               input={"case": case, "cwd": ra["cwd"], "opt": ra["opt"]}, expected=canon(ra)[key], observed=canon(rb)[key])
                    break
    # a case with several "entries" is a history of calls in one process (default arguments, no list passed); each call is
    # an evaluation of its own over the virtual case that has this entry
    real_cases, real_results = cases, results
    cases, flat = [], []  # (virtual case index, cwd, run, oracle)
    for case, res in zip(real_cases, real_results):
        ents = case.get("entries") or [case["entry"]]
        base = len(cases)
        for ent in ents:
            vc = dict(case, entry=ent)
            vc["names"] = case["names"]
            cases.append(vc)
        for run_, orc in zip(res["runs"], res["oracles"]):
            flat.append((base + run_.get("ei", 0), run_["cwd"], run_, orc))
            if len(ents) > 1:
                ck.tally("history-call:%d" % run_.get("ei", 0))
    bad_harness = 0
    coqable = []
    for (ci, cwd, run_, orc) in flat:
        case = cases[ci]
        if run_["outcome"] == "other" or run_["extra_lists"] or (
                run_["outcome"] == "done" and any(isinstance(p, str) for p in run_["already"])):
            ck.disagree("Includes.rd", {"case": case, "cwd": cwd, "opt": run_["opt"]}, "(one of Done/Err/OutOfFuel)", run_, note="outcome outside the model")
            bad_harness += 1
            continue
        coqable.append((ci, cwd, run_, orc))
    follows_old = True
    for fi in range(0, len(coqable), 400):
        chunk = coqable[fi:fi + 400]
        text = HEADER + "Definition cases : list case := [\n" + ";\n".join(q_case(cases[ci], cwd, r) for ci, cwd, r, _ in chunk) + "\n].\n"
        text += "Eval vm_compute in (mismatches cases).\nEval vm_compute in (mismatches_old cases).\n"
        ok, res, out = ck.coq_eval("Cases_C06_%d.v" % (fi // 400), text, timeout=900)
        name = "Cases_C06_%d.v:model=implementation" % (fi // 400)
        if not ok or len(res) != 2:
            ck.oblige(name, False, out[-1500:], kind="correspondence")
            follows_old = False
            continue
        idx = parse_nat_list(res[0])
        idx_old = parse_nat_list(res[1])
        ck.oblige(name, not idx, "cases differing from the patched model: %s" % idx[:20], kind="correspondence")
        if idx_old:
            follows_old = False
        for k in idx:
            ci, cwd, r, _ = chunk[k]
            ck.disagree("Includes.rd", {"case": cases[ci], "cwd": cwd, "opt": r["opt"]}, "see Cases_C06_%d.v case %d" % (fi // 400, k), r,
                        note="implementation agrees with the pre-patch model rd_old" if k not in idx_old else "")
    ck.extra["tree_follows_prepatch_model"] = bool(follows_old and ck.disagreements)
    # loads == already (each file is marked exactly when it is opened) for runs that started with an empty list
    for (ci, cwd, r, orc) in coqable:
        if r["outcome"] == "done" and not cases[ci]["al"] and r["loads"] != r["already"]:
            ck.disagree("Includes.rd(already=files opened)", {"case": cases[ci], "cwd": cwd}, r["already"], r["loads"],
                        note="the files opened are not the already_included list")
    # ---- theorems
    ck.compile_props()
    # ---- the property itself on the implementation
    for (ci, cwd, r, orc) in flat:
        case = cases[ci]
        nfollow = len(r["loads"])
        cls = graph_class(case)
        ck.tally("graph:" + cls)
        ck.tally("outcome:" + r["outcome"])
        ck.tally("entry:" + ("file" if "file" in case["entry"] else "string"))
        if any(f["kind"] == "h5" for f in case["files"]):
            ck.tally("with-h5")
        ck.count(1, nontrivial_key=json.dumps([case["files"], case["entry"], cwd, case["al"], r["opt"]], sort_keys=True) if nfollow > 1 or
                 ("string" in case["entry"] and nfollow > 0) else None,
                 sample={"files": [[P(f["path"]), [P(h["segs"]) if h["abs"] else "/".join(h["segs"]) for h in
                                                   (f.get("incs") if f["kind"] == "xml" else (f.get("emb") or {}).get("incs") or [])]]
                                   for f in case["files"]], "cwd": P(cwd), "entry": case["entry"].get("file", "string"),
                         "outcome": r["outcome"], "opened": r["loads"]} if ci in (1, 2, 3, 6, 14, 15) and cwd == case["cwd"] and not r["opt"] else None)
        for key, what, exp, obs in predicate(case, cwd, r, orc):
            ck.witness(key, what, input={"case": case, "cwd": cwd, "opt": r["opt"]}, expected=exp, observed=obs)
        if "file" in case["entry"] and case["entry"]["file"][-1].endswith((".h5", ".hdf5")):
            ck.tally("hdf5-entry:optimized=%s" % r["opt"])
        if any(c["list"] == "networks" for f in case["files"] if f["kind"] == "xml" for c in f["comps"]):
            ck.tally("network-defined-in-included-xml")
    # cwd independence: runs of one graph from working directories where no href of a reachable file exists
    for ci, (case, res) in enumerate(zip(real_cases, real_results)):
        free = [(r["cwd"], r) for r, o in zip(res["runs"], res["oracles"])
                if r.get("ei", 0) == 0 and not o["href_exists_from_cwd"] and not ("string" in case["entry"] and case["entry"]["base"] is None)]
        pairs = [(a, b) for opt in (False, True) for a, b in zip([x for x in free if x[1]["opt"] == opt], [x for x in free if x[1]["opt"] == opt][1:])]
        for (c1, r1), (c2, r2) in pairs:
            ck.tally("cwd-pairs-compared")
            a = (r1["outcome"], r1["lists"], r1["loads"], r1["already"])
            b = (r2["outcome"], r2["lists"], r2["loads"], r2["already"])
            if a != b and "recursion" not in (r1["outcome"], r2["outcome"]):
                ck.witness("C06:cwd-dependent", "the result depends on the working directory although no href resolves from either",
                           input={"case": case, "cwds": [c1, c2]}, expected=a, observed=b)
    # optimized flag: same outcome, same files, same components per member list (as multisets)
    for ci, (case, res) in enumerate(zip(real_cases, real_results)):
        by = {}
        for r in res["runs"]:
            if r.get("ei", 0) == 0:
                by.setdefault(json.dumps(r["cwd"]), {})[r["opt"]] = r
        for k, d2 in by.items():
            if len(d2) == 2:
                ck.tally("optimized-pairs-compared")
                a, b = d2[False], d2[True]
                la = {n: sorted(map(json.dumps, v)) for n, v in a["lists"].items()}
                lb = {n: sorted(map(json.dumps, v)) for n, v in b["lists"].items()}
                if (a["outcome"], a["loads"], a["already"]) != (b["outcome"], b["loads"], b["already"]) or la != lb:
                    dup = [x for x in predicate(case, a["cwd"], b, [o for r, o in zip(res["runs"], res["oracles"]) if r is b][0])
                           if x[0] == "C06:id-twice:optimized-entry-own-network"]
                    if dup and (a["outcome"], a["loads"], a["already"]) == (b["outcome"], b["loads"], b["already"]) and \
                            all(la[n] == lb[n] for n in la if n != "networks"):
                        continue  # the known collision, reported by the predicate under its own key
                    ck.witness("C06:optimized-flag-changes-result", "optimized=True and optimized=False return different unions",
                               input={"case": case, "cwd": a["cwd"], "opt": True},
                               expected={"outcome": a["outcome"], "lists": {n: v for n, v in a["lists"].items() if v}},
                               observed={"outcome": b["outcome"], "lists": {n: v for n, v in b["lists"].items() if v}})
    ck.extra["graphs"] = len(real_cases)
    ck.extra["runs_outside_model"] = bad_harness


def parse_nat_list(s):
    s = s.strip()
    if s.startswith("["):
        s = s[1:s.rindex("]")]
    return [int(x) for x in s.replace("%nat", "").split(";") if x.strip()]


def replay(ck, data):
    inp = data.get("input") or {}
    case = inp.get("case")
    if not case:
        print(json.dumps(data, indent=1)[:4000])
        return 0
    case = dict(case)
    cw = inp.get("cwds") or [inp.get("cwd", case["cwd"])]
    case["cwd"], case["cwds"] = cw[0], cw[1:]
    case["opts"] = [bool(inp["opt"])] if "opt" in inp else case.get("opts", [False])
    if case.get("default_args"):
        case["entries"] = [case["entry"], case["entry"]]  # the call and the same call again in one process
    out = ck.impl("c06_impl.py", {"cases": [case], "recursion_limit": 400, "guard_s": 20})
    res = out["results"][0]
    bad = []
    for r, o in zip(res["runs"], res["oracles"]):
        bad += predicate(case, r["cwd"], r, o)
    if len(res["runs"]) == 2 and len(cw) == 2 and (res["runs"][0]["outcome"], res["runs"][0]["lists"]) != (res["runs"][1]["outcome"], res["runs"][1]["lists"]):
        bad.append(("C06:cwd-dependent", "results differ between the two working directories", None, None))
    print(json.dumps({"stored": {k: data.get(k) for k in ("key", "what", "expected", "observed")},
                      "now": [{"outcome": r["outcome"], "opened": r["loads"][:12], "files_opened": len(r["loads"]), "lists": r["lists"]}
                              for r in res["runs"]],
                      "property_failures_now": [b[:2] for b in bad]}, indent=1)[:6000])
    return 1 if bad else 0
