"""C12 — Segment length, surface area and volume are those of the frustum or sphere.

tie (translator): translators/tr_exprs.py turns the arithmetic of Segment.length/volume/surface_area,
  Point3DWithDiam.distance_to, Cell.get_actual_proximal and Cell.get_segment_* (nml.py, cross-checked against
  helper_methods.py) into terms of coq/Model/Geom.v -> Gen_C12.v;  Inst_C12.v proves, per run, that the terms read over
  R compute the reference functions (so `pi/3 -> pi/2` or a swapped radius breaks a proof);  Props/C12.v then gives
  the closed forms, non-negativity, symmetry, translation invariance and k/k^2/k^3 scaling for the translated terms.
tie (correspondence): the same terms read over PrimFloat are evaluated by the kernel on the generated inputs and
  compared in Coq with what the real code returned (bit-exact for get_actual_proximal, 2^-40 relative otherwise).
property predicate on the implementation: 60-digit decimal evaluation of the closed forms from the exact input
  doubles, metamorphic pairs (swap, translate, scale), cell-level getters against exact rational interpolation;
  histories: the SAME Cell / Segment object is queried, modified in place (translate, scale, fraction_along, point
  replacement, re-parenting, ...) and queried again, against a freshly built object with the same current data.
purity: tr_exprs refuses decorators (except @property on the Segment properties), rebinding / patching of the translated
  methods and any access to state other than the arguments.
"""
import json
import math
import os
import subprocess
from concurrent.futures import ThreadPoolExecutor
from decimal import Decimal, getcontext
from fractions import Fraction

from lib.vcommon import PY, VERIF, impl_env

getcontext().prec = 60
PI = Decimal("3.141592653589793238462643383279502884197169399375105820974944592307816")
EPS = 2.0 ** -53
REL = Decimal("1e-13")

INST_HEAD = r"""(* generated per run by checks/c12.py: the translated table computes the reference functions *)
From Coq Require Import ZArith List Bool Reals Lra.
From LNML Require Import Model.Geom Proofs.GeomP.
From Run Require Import Gen_C12.
Import ListNotations.
Local Open Scope R_scope.
Ltac unf := cbv [Gen_C12.table g_length g_volume g_area g_distance g_actual g_cell_length g_cell_area g_cell_volume
   src_length src_volume src_area src_distance src_actual src_cell_length src_cell_area src_cell_volume].
"""

# one obligation per file, so a broken method is named exactly
INST_FILES = [
    ("Inst_C12_wf.v", "", """Lemma table_wf : wf_table Gen_C12.table = true.
Proof. vm_compute. reflexivity. Qed.
"""),
    ("Inst_C12_length.v", "", """Lemma length_ok : forall np p d, run RA np (g_length Gen_C12.table) (env_seg p d) = ref_length np p d.
Proof. seg_inst unf. Qed.
"""),
    ("Inst_C12_volume.v", "", """Lemma volume_ok : forall np p d, run RA np (g_volume Gen_C12.table) (env_seg p d) = ref_volume np p d.
Proof. seg_inst unf. Qed.
"""),
    ("Inst_C12_area.v", "", """Lemma area_ok : forall np p d, run RA np (g_area Gen_C12.table) (env_seg p d) = ref_area np p d.
Proof. seg_inst unf. Qed.
"""),
    ("Inst_C12_distance.v", "", """Lemma distance_ok : forall a b, run RA false (g_distance Gen_C12.table) (env_seg a b) = Val (dist a b).
Proof. seg_inst unf. Qed.
"""),
    ("Inst_C12_actual.v", "", """Lemma actual_ok : pp_step_ok (g_actual Gen_C12.table).
Proof. actual_inst unf. Qed.
"""),
]
INST_FLOAT = ("Inst_C12_float.v", "From LNML Require Import Proofs.GeomPFloat.\n",
              """Ltac unfl := cbv [run evalc eval gpow env_seg nth RndA ar_add ar_sub ar_mul ar_div ar_neg ar_ofZ ar_pi ar_sqrt ar_powhalf
   ar_eqb fl_length fl_volume fl_area p_x p_y p_z p_d].
(* the regenerated terms, read with every operation rounded, are the expressions analysed in Proofs/GeomPFloat.v *)
Lemma length_fl : length_is_fl Gen_C12.table.
Proof. intros rnd ph [px py pz pd] [dx dy dz dd]. unf. unfl. reflexivity. Qed.
Lemma distance_fl : distance_is_fl Gen_C12.table.
Proof. intros rnd ph [px py pz pd] [dx dy dz dd]. unf. unfl. reflexivity. Qed.
Lemma volume_fl : volume_is_fl Gen_C12.table.
Proof.
  intros rnd ph [px py pz pd] [dx dy dz dd] H. unfold coincideb in H. cbv [p_x p_y p_z] in H.
  unf. unfl. cbv [negb]. rewrite H. reflexivity.
Qed.
Lemma area_fl : area_is_fl Gen_C12.table.
Proof.
  intros rnd ph [px py pz pd] [dx dy dz dd] H. unfold coincideb in H. cbv [p_x p_y p_z] in H.
  unf. unfl. cbv [negb]. rewrite H. reflexivity.
Qed.
""")
INST_CELL = ("Inst_C12_cell.v", "From Run Require Import Inst_C12_length Inst_C12_volume Inst_C12_area Inst_C12_distance Inst_C12_actual.\n",
             """Ltac rw := rewrite ?length_ok, ?volume_ok, ?area_ok, ?distance_ok.
Lemma cell_length_ok : forall chain, run_cp RA Gen_C12.table (g_cell_length Gen_C12.table) chain = ref_cell ref_length chain.
Proof. pose proof (actual_of_step _ actual_ok) as A. cell_inst unf A rw. Qed.
Lemma cell_area_ok : forall chain, run_cp RA Gen_C12.table (g_cell_area Gen_C12.table) chain = ref_cell ref_area chain.
Proof. pose proof (actual_of_step _ actual_ok) as A. cell_inst unf A rw. Qed.
Lemma cell_volume_ok : forall chain, run_cp RA Gen_C12.table (g_cell_volume Gen_C12.table) chain = ref_cell ref_volume chain.
Proof. pose proof (actual_of_step _ actual_ok) as A. cell_inst unf A rw. Qed.
""")
INST_ALL = ("Inst_C12.v", "From Run Require Import Inst_C12_wf Inst_C12_length Inst_C12_volume Inst_C12_area Inst_C12_distance "
            "Inst_C12_actual Inst_C12_cell.\n",
            """Lemma table_ok : GeomP.table_ok Gen_C12.table.
Proof.
  constructor; [exact length_ok | exact volume_ok | exact area_ok | exact distance_ok | exact actual_ok
               | exact cell_length_ok | exact cell_area_ok | exact cell_volume_ok].
Qed.
""")

PROP_THEOREMS = ["C12_length_is_euclidean_distance", "C12_volume_is_frustum", "C12_area_is_frustum"]


# ------------------------------------------------------------------ translate
def translate(ck):
    p = subprocess.run([PY, os.path.join(VERIF, "translators", "tr_exprs.py")], capture_output=True, text=True,
                       env=impl_env(), timeout=300)
    lines = [l for l in p.stdout.splitlines() if l.strip()]
    if p.returncode != 0 or not lines:
        ck.oblige("translate:tr_exprs", False, p.stderr[-2000:], kind="translate")
        return None
    d = json.loads(lines[-1])
    if not d.get("ok"):
        ck.oblige("translate:tr_exprs:" + d.get("error", "?")[:200], False, d.get("error", ""), kind="translate")
        return None
    ck.oblige("translate:tr_exprs", True, kind="translate")
    ck.oblige("translate:nml.py-and-helper_methods.py-give-the-same-terms", bool(d.get("sources_agree")),
              json.dumps(d.get("diffs"))[:1500], kind="translate")
    return d


def fix_axiom_parse(ck):
    """lib/vcommon.parse_assumptions also captures the header word 'Axioms' of Print Assumptions' output as if it
    were an axiom name (never seen by C20, which has no axioms).  Drop that artefact and redo the gate here."""
    ax = [a for a in ck.axioms.get("_axioms", []) if a != "Axioms"]
    if "_axioms" in ck.axioms:
        ck.axioms["_axioms"] = ax
    ck.obligations = [o for o in ck.obligations if not (o["name"] == "gate:axioms")]
    # Classical_Prop.classic comes in with Flocq's relative-error lemmas (C12_float_rounding_length only)
    allowed = ("sig_forall_dec", "sig_not_dec", "functional_extensionality_dep", "classic")
    bad = [a for a in ax if a.split(".")[-1] not in allowed]
    ck.oblige("gate:axioms-are-stdlib-reals-funext-and-classic-only", not bad and len(ax) > 0, "axioms: " + ",".join(ax), kind="gate")


# ------------------------------------------------------------------ generators
def mag(rng, lo, hi):
    return 10.0 ** rng.uniform(lo, hi)


def sgn(rng):
    return -1.0 if rng.random() < 0.5 else 1.0


def dyadic(rng, bits=18, frac=6):
    return rng.randint(-(1 << bits), 1 << bits) / float(1 << frac)


def gen_segment(rng):
    """-> (class tag, [px py pz pd dx dy dz dd])"""
    r = rng.random()
    if r < 0.30:
        e = rng.uniform(-6, 6)
        p = [sgn(rng) * mag(rng, e - 1, e + 1) for _ in range(3)]
        d = [sgn(rng) * mag(rng, e - 1, e + 1) for _ in range(3)]
        return "frustum", p + [mag(rng, -6, 6)] + d + [mag(rng, -6, 6)]
    if r < 0.38:
        p = [sgn(rng) * mag(rng, -6, 6) for _ in range(3)]
        d = [sgn(rng) * mag(rng, -6, 6) for _ in range(3)]
        dm = mag(rng, -6, 6)
        return "cylinder", p + [dm] + d + [dm]
    if r < 0.48:
        p = [sgn(rng) * mag(rng, -6, 6) for _ in range(3)]
        dm = mag(rng, -6, 6)
        return "sphere", p + [dm] + list(p) + [dm]
    if r < 0.54:
        p = [sgn(rng) * mag(rng, -6, 6) for _ in range(3)]
        return "coincident-unequal-diameters", p + [mag(rng, -6, 6)] + list(p) + [mag(rng, -6, 6)]
    if r < 0.64:
        p = [sgn(rng) * mag(rng, -3, 3) for _ in range(3)]
        rel = mag(rng, -15, -8)
        d = [c * (1.0 + sgn(rng) * rel) if rng.random() < 0.8 else c for c in p]
        if d == p:
            d[0] = math.nextafter(p[0], math.inf)
        dm = mag(rng, -3, 3)
        return "nearly-coincident", p + [dm] + d + [dm if rng.random() < 0.5 else mag(rng, -3, 3)]
    if r < 0.72:
        p = [sgn(rng) * mag(rng, -3, 3) for _ in range(3)]
        d = [sgn(rng) * mag(rng, -3, 3) for _ in range(3)]
        k = rng.sample([0, 1, 2], rng.choice([1, 2]))
        for i in k:
            d[i] = p[i]
        return "shares-%d-coordinates" % len(k), p + [mag(rng, -3, 3)] + d + [mag(rng, -3, 3)]
    if r < 0.78:
        p = [sgn(rng) * mag(rng, -3, 3) for _ in range(3)]
        d = [sgn(rng) * mag(rng, -3, 3) for _ in range(3)]
        dm = [mag(rng, -3, 3), 0.0]
        rng.shuffle(dm)
        return "cone", p + [dm[0]] + d + [dm[1]]
    if r < 0.90:
        p = [dyadic(rng) for _ in range(3)]
        d = [dyadic(rng) for _ in range(3)]
        return "dyadic", p + [abs(dyadic(rng, 10, 4)) + 0.0625] + d + [abs(dyadic(rng, 10, 4)) + 0.0625]
    e = rng.uniform(-30, 30)
    p = [sgn(rng) * mag(rng, e - 1, e + 1) for _ in range(3)]
    d = [sgn(rng) * mag(rng, e - 1, e + 1) for _ in range(3)]
    return "wide-range", p + [mag(rng, e - 2, e + 2)] + d + [mag(rng, e - 2, e + 2)]


def variants(rng, tag, c):
    """metamorphic partners of a base case: (relation, parameter, coordinates)"""
    out = [("swap", None, c[4:8] + c[0:4])]
    j = rng.randint(-8, 8)
    k = 2.0 ** j
    out.append(("scale", k, [x * k for x in c]))
    if tag == "dyadic":
        t = [dyadic(rng, 16, 6) for _ in range(3)]
        out.append(("translate", t, [c[0] + t[0], c[1] + t[1], c[2] + t[2], c[3], c[4] + t[0], c[5] + t[1], c[6] + t[2], c[7]]))
        k = float(rng.choice([3, 5, 7, 10, 0.375]))
        out.append(("scale", k, [x * k for x in c]))
    return out


FRACTS = [0.5, 0.25, 0.75, 0.125, 0.875, 0.0625]


def gen_cell(rng, maxdepth):
    exact = rng.random() < 0.6
    depth = rng.randint(1, maxdepth)

    def coord():
        return dyadic(rng, 12, 4) if exact else sgn(rng) * mag(rng, -1, 3)

    def diam():
        return abs(dyadic(rng, 8, 3)) + 0.125 if exact else mag(rng, -1, 2)

    chain = []
    for i in range(depth):
        last = i == depth - 1
        has_prox = (rng.random() < 0.93) if last else (rng.random() < 0.25)
        r = rng.random()
        if r < 0.35:
            f = 1.0
        elif r < 0.50:
            f = 0.0
        elif r < 0.80 or exact:
            f = rng.choice(FRACTS)
        else:
            f = rng.random()
        sg = {"prox": [coord(), coord(), coord(), diam()] if has_prox else None,
              "dist": [coord(), coord(), coord(), diam()], "fract": f}
        if rng.random() < 0.08 and sg["prox"] is not None:
            sg["dist"][0:3] = sg["prox"][0:3]  # a spherical segment in the chain
            if rng.random() < 0.7:
                sg["dist"][3] = sg["prox"][3]
        chain.append(sg)
    ids = rng.sample(range(0, 200), depth)
    extra = rng.randint(0, 3)
    order = list(range(depth + extra))
    rng.shuffle(order)
    return {"exact": exact, "chain": chain, "ids": ids, "extra": extra, "order": order}


# ------------------------------------------------------------------ histories: query, modify the same object in place, query again
def hx(v):
    return float(v).hex()


def hist_cell(chain, ids, extra=1):
    return {"chain": [{"prox": [hx(x) for x in sg["prox"]] if sg["prox"] is not None else None,
                       "dist": [hx(x) for x in sg["dist"]], "fract": hx(sg["fract"])} for sg in chain],
            "ids": ids, "extra": extra, "order": list(range(len(chain) + extra))[::-1]}


def fixed_histories():
    """the same in every run: a child attached part-way along its parent (and at its ends), each kind of in-place change"""
    out = []
    for f in (0.25, 1.0, 0.0):
        for parent_has_prox in (True, False):
            chain = [{"prox": None, "dist": [8.0, 12.0, 0.0, 1.0], "fract": f},
                     {"prox": [0.0, 0.0, 0.0, 4.0] if parent_has_prox else None, "dist": [16.0, 0.0, 0.0, 2.0], "fract": 0.5},
                     {"prox": [-4.0, -8.0, 2.0, 6.0], "dist": [0.0, 8.0, 0.0, 4.0], "fract": 1.0}]
            ids = [5, 3, 0]
            cell = hist_cell(chain, ids)
            for steps in (
                [{"op": "translate", "t": [hx(3.5), hx(-2.25), hx(10.0)]}],
                [{"op": "scale", "k": hx(2.0)}], [{"op": "scale", "k": hx(0.25)}],
                [{"op": "set_fract", "seg": 5, "f": hx(0.75)}], [{"op": "set_fract", "seg": 5, "f": hx(1.0)}],
                [{"op": "set_fract", "seg": 3, "f": hx(0.125)}],
                [{"op": "move_distal", "seg": 3, "d": [hx(1.0), hx(2.0), hx(-4.0)]}],
                [{"op": "move_distal", "seg": 0, "d": [hx(0.5), hx(0.0), hx(3.0)]}],
                [{"op": "move_proximal", "seg": 0, "d": [hx(2.0), hx(-1.0), hx(0.5)]}],
                [{"op": "set_diameter", "seg": 3, "v": hx(5.0)}],
                [{"op": "replace_distal", "seg": 3, "pt": [hx(20.0), hx(4.0), hx(-2.0), hx(3.0)]}],
                [{"op": "replace_distal", "seg": 0, "pt": [hx(1.0), hx(9.0), hx(1.0), hx(2.5)]}],
                [{"op": "reparent", "seg": 5, "to": 0, "f": hx(0.5)}], [{"op": "reparent", "seg": 5, "to": 0, "f": hx(1.0)}],
                [{"op": "reparent", "seg": 5, "to": 3, "f": hx(0.0)}],
                [{"op": "requery"}, {"op": "translate", "t": [hx(-1.0), hx(0.5), hx(0.0)]}, {"op": "scale", "k": hx(4.0)},
                 {"op": "set_fract", "seg": 5, "f": hx(0.5)}, {"op": "replace_distal", "seg": 3, "pt": [hx(2.0), hx(2.0), hx(2.0), hx(2.0)]}],
            ):
                out.append({"cell": cell, "steps": steps})
            if parent_has_prox:
                out.append({"cell": cell, "steps": [{"op": "replace_proximal", "seg": 3, "pt": [hx(1.0), hx(1.0), hx(1.0), hx(3.0)]}]})
                out.append({"cell": cell, "steps": [{"op": "move_proximal", "seg": 3, "d": [hx(0.0), hx(4.0), hx(0.0)]}]})
                out.append({"cell": cell, "steps": [{"op": "drop_proximal", "seg": 3}]})
    # a segment with its own proximal: swapping its end points in place
    chain = [{"prox": [1.0, 2.0, 3.0, 2.0], "dist": [5.0, -2.0, 3.0, 1.0], "fract": 1.0},
             {"prox": [0.0, 0.0, 0.0, 2.0], "dist": [1.0, 2.0, 3.0, 2.0], "fract": 1.0}]
    out.append({"cell": hist_cell(chain, [2, 1]), "steps": [{"op": "swap_ends", "seg": 2}, {"op": "drop_proximal", "seg": 2},
                                                            {"op": "set_fract", "seg": 2, "f": hx(0.5)}]})
    return out


def gen_history(rng, maxdepth):
    c = gen_cell(rng, maxdepth)
    while not c["exact"] or len(c["chain"]) < 2:
        c = gen_cell(rng, maxdepth)
    chain, ids = c["chain"], c["ids"]
    depth = len(chain)
    steps = []
    for _ in range(rng.randint(1, 5)):
        i = rng.randrange(depth)
        ops = ["translate", "scale", "move_distal", "set_diameter", "replace_distal", "requery"]
        if i < depth - 1:
            ops += ["set_fract", "set_fract", "reparent"]
        if chain[i]["prox"] is not None:
            ops += ["move_proximal", "replace_proximal", "swap_ends"]
            if i < depth - 1:
                ops.append("drop_proximal")
        op = rng.choice(ops)
        st = {"op": op}
        if op == "translate":
            st["t"] = [hx(dyadic(rng, 8, 3)) for _ in range(3)]
        elif op == "scale":
            st["k"] = hx(2.0 ** rng.randint(-3, 3))
        elif op in ("move_distal", "move_proximal"):
            st.update(seg=ids[i], d=[hx(dyadic(rng, 8, 3)) for _ in range(3)])
        elif op == "set_diameter":
            st.update(seg=ids[i], v=hx(abs(dyadic(rng, 8, 3)) + 0.125))
        elif op in ("replace_distal", "replace_proximal"):
            st.update(seg=ids[i], pt=[hx(dyadic(rng, 10, 3)) for _ in range(3)] + [hx(abs(dyadic(rng, 8, 3)) + 0.125)])
        elif op == "set_fract":
            st.update(seg=ids[i], f=hx(rng.choice(FRACTS + [0.0, 1.0])))
        elif op == "reparent":
            st.update(seg=ids[i], to=ids[rng.randrange(i + 1, depth)], f=hx(rng.choice(FRACTS + [0.0, 1.0])))
        elif op in ("swap_ends", "drop_proximal"):
            st["seg"] = ids[i]
        steps.append(st)
    return {"cell": hist_cell(chain, ids, c["extra"]), "steps": steps}


def unchain(ch):
    return [{"prox": [float.fromhex(v) for v in sg["prox"]] if sg["prox"] is not None else None,
             "dist": [float.fromhex(v) for v in sg["dist"]], "fract": float.fromhex(sg["fract"])} for sg in ch]


def check_histories(ck, hists, results):
    names = ["length", "area", "volume"]
    for h, snaps in zip(hists, results):
        ops = ["initial"] + [st["op"] for st in h["steps"]]
        ck.count(1, nontrivial_key=("hist", json.dumps(h, sort_keys=True)),
                 sample={"kind": "history", "steps": h["steps"], "ids": h["cell"]["ids"]} if len(ck.samples) < 5 and len(h["steps"]) > 2 else None)
        prev = None
        for k, (op, sn) in enumerate(zip(ops, snaps)):
            ck.tally("history:" + op)
            hist_input = {"cell": h["cell"], "steps applied in place after the first query": h["steps"][:k]}
            for j, sid in enumerate(h["cell"]["ids"]):
                same, fresh = sn["same"][j], sn["fresh"][j]
                # A. the queried-then-modified object must answer like a freshly built cell with the same data
                if same != fresh:
                    ck.witness("C12:history:%s" % op, "after the cell was queried and then modified in place (%s), segment %d is answered "
                               "differently from a freshly built cell with the same data (state left over from earlier calls)" % (op, sid),
                               input=hist_input, expected={"fresh cell": fresh}, observed={"same object": same},
                               broken="translate:tr_exprs (the geometry methods are pure functions of the cell's current data)")
                    continue
                # B. ... and like the specification on the current data
                chain = unchain(sn["chains"][j])
                ap = ref_actual(chain)
                got = same[0]
                if isinstance(ap, str) or isinstance(got, str):
                    okp = isinstance(ap, str) and isinstance(got, str)
                else:
                    okp = all(Fraction(float.fromhex(g)) == a for g, a in zip(got, ap))
                if not okp:
                    ck.witness("C12:history-value:actual_proximal", "get_actual_proximal differs from the specification on the current data",
                               input=hist_input, expected=[float(a) for a in ap] if not isinstance(ap, str) else ap, observed=got)
                    continue
                want = {"length": "EXC", "area": "EXC", "volume": "EXC"} if isinstance(ap, str) else \
                    ref_from_fractions(ap, [Fraction(v) for v in chain[0]["dist"]])
                vals = {"length": unhex(same[1]), "area": unhex(same[2]), "volume": unhex(same[3])}
                for n in names:
                    if not close(vals[n], want[n]):
                        ck.witness("C12:history-value:%s" % n, "Cell.get_segment_%s differs from the specification on the current data" % n,
                                   input=hist_input, expected=str(want[n])[:30], observed=repr(vals[n]))
                # C. translation / power-of-two scaling / end-point swap of the same object
                # (a swap only leaves the swapped segment itself unchanged: its children hang on its distal end)
                if prev is not None and (op in ("translate", "scale") or (op == "swap_ends" and h["steps"][k - 1]["seg"] == sid)):
                    k_ = float.fromhex(h["steps"][k - 1]["k"]) if op == "scale" else 1.0
                    pv = {"length": unhex(prev["same"][j][1]), "area": unhex(prev["same"][j][2]), "volume": unhex(prev["same"][j][3])}
                    for n, pw in (("length", 1), ("area", 2), ("volume", 3)):
                        w = pv[n] if isinstance(pv[n], str) else pv[n] * k_ ** pw
                        if not fclose(vals[n], w):
                            ck.witness("C12:history:%s:%s" % (op, n), "%s of segment %d is not %s after the cell was %s in place"
                                       % (n, sid, "unchanged" if op != "scale" else "scaled by k^%d" % pw, op),
                                       input=hist_input, expected=repr(w), observed=repr(vals[n]))
            prev = sn


def check_seghists(ck, hists, results):
    for h, snaps in zip(hists, results):
        ck.count(1, nontrivial_key=("seghist", json.dumps(h, sort_keys=True)))
        for k, sn in enumerate(snaps):
            ck.tally("segment-history:step")
            if sn["same"] != sn["fresh"]:
                ck.witness("C12:segment-history", "a Segment queried, then edited in place, answers differently from a fresh Segment with the "
                           "same points", input={"coords": h["coords"], "edits": h["steps"][:k]}, expected=sn["fresh"], observed=sn["same"])
                continue
            c = [float.fromhex(v) for v in sn["coords"]]
            ref = ref_segment(c)
            for i, n in enumerate(["length", "volume", "area"]):
                if not close(unhex(sn["same"][i]), ref[n]):
                    ck.witness("C12:segment-history-value:%s" % n, "Segment.%s differs from the closed form after an in-place edit" % n,
                               input={"coords": h["coords"], "edits": h["steps"][:k]}, expected=str(ref[n])[:30], observed=sn["same"][i])


def gen_seghist(rng):
    c = [dyadic(rng, 10, 3) for _ in range(3)] + [abs(dyadic(rng, 6, 3)) + 0.125] + [dyadic(rng, 10, 3) for _ in range(3)] \
        + [abs(dyadic(rng, 6, 3)) + 0.125]
    steps = []
    for _ in range(rng.randint(1, 4)):
        a = rng.choice(["x", "y", "z", "diameter"])
        steps.append({"end": rng.choice("pd"), "attr": a, "v": hx(abs(dyadic(rng, 6, 3)) + 0.125 if a == "diameter" else dyadic(rng, 10, 3))})
    return {"coords": [hx(v) for v in c], "steps": steps}


# ------------------------------------------------------------------ the specification, in exact / 60-digit arithmetic
def ref_segment(c):
    """closed forms from the exact input doubles -> {length, volume, area} as Decimal or 'EXC'"""
    x = [Fraction(v) for v in c]
    return ref_from_fractions(x[0:4], x[4:8])


def fdec(q):
    return Decimal(q.numerator) / Decimal(q.denominator)


def ref_from_fractions(p, d):
    dx, dy, dz = p[0] - d[0], p[1] - d[1], p[2] - d[2]
    l2 = dx * dx + dy * dy + dz * dz
    L = fdec(l2).sqrt()
    r1, r2 = p[3] / 2, d[3] / 2
    if l2 == 0:
        if r1 != r2:
            return {"length": L, "volume": "EXC", "area": "EXC"}
        r = fdec(r1)
        return {"length": L, "volume": Decimal(4) / Decimal(3) * PI * r * r * r, "area": Decimal(4) * PI * r * r}
    a, b = fdec(r1), fdec(r2)
    return {"length": L, "volume": PI / Decimal(3) * L * (a * a + b * b + a * b),
            "area": PI * (a + b) * ((a - b) * (a - b) + L * L).sqrt()}


def ref_actual(chain):
    """exact actual proximal point of chain[0] (list of 4 Fractions) or 'EXC'"""
    s = chain[0]
    if s["prox"] is not None:
        return [Fraction(v) for v in s["prox"]]
    if len(chain) < 2:
        return "EXC"
    f = Fraction(s["fract"])
    pd = [Fraction(v) for v in chain[1]["dist"]]
    if f == 1:
        return pd
    pp = ref_actual(chain[1:])
    if pp == "EXC":
        return "EXC"
    return [(1 - f) * a + f * b for a, b in zip(pp, pd)]


def unhex(s):
    return "EXC" if isinstance(s, str) and s.startswith("EXC") else float.fromhex(s)


def close(impl, ref, rel=REL):
    """impl: float or 'EXC'; ref: Decimal or 'EXC'"""
    if isinstance(ref, str) or isinstance(impl, str):
        return isinstance(ref, str) and isinstance(impl, str)
    if impl != impl or impl in (math.inf, -math.inf):
        return False
    return abs(Decimal(impl) - ref) <= rel * abs(ref)


def fclose(a, b, rel=1e-12):
    if isinstance(a, str) or isinstance(b, str):
        return isinstance(a, str) and isinstance(b, str)
    return a == b or abs(a - b) <= rel * max(abs(a), abs(b))


# ------------------------------------------------------------------ Coq literals
def cf(x):
    if isinstance(x, str):
        x = float.fromhex(x)
    if x != x:
        return "nan"
    if x == math.inf:
        return "infinity"
    if x == -math.inf:
        return "neg_infinity"
    h = x.hex()
    return "(%s)" % h


def cpt(c):
    return "(P %s %s %s %s)" % tuple(cf(v) for v in c)


def cout(s):
    return "Exc" if isinstance(s, str) and s.startswith("EXC") else "(Val %s)" % cf(s)


HEAD = ("From Coq Require Import Floats ZArith List.\nFrom LNML Require Import Model.Geom.\nFrom Run Require Import Gen_C12.\n"
        "Import ListNotations.\nOpen Scope float_scope.\nDefinition P := @MkPt float.\n")
TOL = "0x1p-40"


def seg_cases_v(cases, outs):
    rows = []
    for c, o in zip(cases, outs):
        rows.append("MkSegCase %s %s %s %s %s %s" % (cpt(c[0:4]), cpt(c[4:8]), cout(o[0]), cout(o[1]), cout(o[2]), cout(o[3])))
    return (HEAD + "Definition cases : list segcase := [\n  " + ";\n  ".join(rows) + "\n].\n"
            "Eval vm_compute in (mismatches (segcase_ok %s Gen_C12.table) cases).\n"
            "Eval vm_compute in (count_ok (segcase_exact Gen_C12.table) cases).\n" % TOL)


def cell_cases_v(cases, outs):
    rows = []
    for c, o in zip(cases, outs):
        segs = []
        for sg in c["chain"]:
            segs.append("MkSeg %s %s %s" % ("(Some %s)" % cpt(sg["prox"]) if sg["prox"] is not None else "None",
                                              cpt(sg["dist"]), cf(sg["fract"])))
        ap = "Exc" if isinstance(o[0], str) else "(Val %s)" % cpt(o[0])
        rows.append("MkCellCase [%s] %s %s %s %s" % ("; ".join(segs), ap, cout(o[1]), cout(o[2]), cout(o[3])))
    return (HEAD + "Definition cases : list cellcase := [\n  " + ";\n  ".join(rows) + "\n].\n"
            "Eval vm_compute in (mismatches (cellcase_ok %s Gen_C12.table) cases).\n" % TOL)


def parse_idx(s):
    s = s.strip()
    if s.startswith("["):
        s = s[1:-1]
    s = s.replace("%Z", "")
    return [int(x) for x in s.replace("(", "").replace(")", "").split(";") if x.strip()]


# ------------------------------------------------------------------ the run
def run(ck):
    ck.rule = ("segment cases: 9 generator classes (frustum, cylinder, sphere, coincident with unequal diameters, nearly "
               "coincident, shared coordinates, cone, dyadic, wide range) over 10^-6..10^6 (wide: 10^-30..10^30), each with "
               "its swap / power-of-two scaling (dyadic: also translation and non-power-of-two scaling) partners; histories: a cell "
               "queried, modified in place step by step and re-queried (99 fixed + random); cell cases: "
               "parent chains of depth 1..6 (thorough 1..12) with proximal-less segments and fraction_along in "
               "{0, 1, dyadic, random}; a case is non-trivial when the reference value is a non-zero number or an expected "
               "exception; distinct by (kind, inputs)")
    ck.trusted = ["Coq 8.16.1 kernel + vm_compute (PrimFloat primitives of the VM = IEEE-754 binary64, round to nearest even)",
                  "translators/tr_exprs.py (python ast; symbolic execution of straight-line code, if/elif/else, return, raise; "
                  "x**2 and x**3 read as repeated multiplication, x**0.5 and math.sqrt as the square root)",
                  "axioms (Print Assumptions): ClassicalDedekindReals.sig_forall_dec, ClassicalDedekindReals.sig_not_dec, "
                  "FunctionalExtensionality.functional_extensionality_dep (standard-library real numbers); "
                  "Classical_Prop.classic (through Flocq's relative_error_N_FLT_ex, in C12_float_rounding_length only)",
                  "Flocq 'round radix2 (FLT_exp (-1074) 53) ZnearestE' as binary64 round-to-nearest-even (unbounded exponent: "
                  "overflow excluded by the range hypothesis); libm pow(x, 0.5) within relative error 2^-52 (hypothesis "
                  "powhalf_accurate); CPython's x**2 = correctly rounded x*x (checked bit for bit by the correspondence)",
                  "get_segment(id) finds the segment with that id (the chain of ancestors is followed by the harness)",
                  "python decimal (60 digits) and fractions for the reference values of the witness search"]
    ck.assumptions = ["length / distance_to (6), frustum volume (16) and frustum area (13 units of 2^-53 relative): the forward error is PROVED "
                      "(C12_float_rounding_length / _volume / _area) and the measured error of CPython must lie within it; for the sphere "
                      "branch and the cell-level getters the float<->real distance is measured (<= 1e-13 relative against the 60-digit closed form from the exact "
                      "input doubles, condition-number scaled for inherited proximal points), not proved",
                      "libm pow(x,2), pow(x,3), pow(x,0.5) agree with x*x, x*x*x, sqrt(x) to 2^-40 relative "
                      "(bit-exact agreement is counted and reported)",
                      "no overflow/underflow of squares (|coordinates| within 1e-150..1e150)",
                      "recursion depth of get_actual_proximal below the interpreter limit (DESIGN.md §7 C16/C13)"]
    ck.gate_static()
    d = translate(ck)
    have_model = False
    if d is not None:
        g = ck.gen_v("Gen_C12.v", d["coq"])
        ok, out = ck.coqc(g)
        ck.oblige("Gen_C12.v:compiles", ok, out[-1500:], kind="translate")
        if ok:
            have_model = True
            paths = [(ck.gen_v(n, INST_HEAD + imp + body)) for n, imp, body in INST_FILES + [INST_FLOAT]]
            with ThreadPoolExecutor(max_workers=7) as ex:
                oks = list(ex.map(lambda pth: ck.compile_obligations(pth, kind="instance", timeout=300)[0], paths))
            iok = all(oks)
            for n, imp, body in (INST_CELL, INST_ALL):
                if iok:
                    iok = ck.compile_obligations(ck.gen_v(n, INST_HEAD + imp + body), kind="instance", timeout=300)[0]
                else:
                    ck.oblige(n, False, "not reached: an earlier instance obligation failed", kind="instance")
            if iok:
                ck.compile_props(timeout=600)
                fix_axiom_parse(ck)
            else:
                ck.oblige("Props_C12.v", False, "an instance obligation of Inst_C12.v failed (see its detail)", kind="theorem")
    # ---------------------------------------------------------------- inputs
    rng = ck.rng
    nbase = ck.n(700, 30000)
    ncell = ck.n(400, 20000)
    maxdepth = ck.n(6, 12)
    segs, meta = [], []  # meta[i] = (tag, relation, param, base index)
    # the same in every run (also re-run under other interpreter configurations): a frustum, a sphere, coincident points with
    # unequal diameters (must raise), a cone, a zero-diameter cylinder
    for tag, c in (("frustum", [0.0, 0.0, 0.0, 2.0, 3.0, 4.0, 12.0, 4.0]), ("sphere", [1.0, 2.0, 3.0, 5.0, 1.0, 2.0, 3.0, 5.0]),
                   ("coincident-unequal-diameters", [1.0, 2.0, 3.0, 5.0, 1.0, 2.0, 3.0, 4.0]),
                   ("cone", [0.0, 0.0, 0.0, 2.0, 0.0, 0.0, 8.0, 0.0]), ("cylinder", [0.5, 0.25, 0.0, 0.0, 4.5, 0.25, 0.0, 0.0])):
        segs.append(c)
        meta.append((tag, "base", None, len(segs) - 1))
        ck.tally("seg:" + tag)
    for _ in range(nbase):
        tag, c = gen_segment(rng)
        b = len(segs)
        segs.append(c)
        meta.append((tag, "base", None, b))
        ck.tally("seg:" + tag)
        for rel, par, v in variants(rng, tag, c):
            segs.append(v)
            meta.append((tag, rel, par, b))
    # deterministic cells whose segment ids are beyond 2^53 (xs:nonNegativeInteger is unbounded): an id that takes a detour
    # through a float resolves to another segment.  Ids are looked up by the library; the model sees the chain only.
    def bigid_cell(ids, fr):
        ch = [{"prox": None, "dist": [8.0, 12.0, 0.0, 1.0], "fract": fr},
              {"prox": None, "dist": [16.0, 0.0, 4.0, 2.0], "fract": 0.5},
              {"prox": [-4.0, -8.0, 2.0, 6.0], "dist": [0.0, 8.0, 0.0, 4.0], "fract": 1.0}]
        return {"exact": True, "chain": ch, "ids": ids, "extra": 2, "order": [4, 2, 0, 1, 3]}
    big_cells = [bigid_cell([2 ** 53 + 1, 2 ** 53 + 2, 2 ** 53 + 3], 0.25), bigid_cell([2 ** 53 + 3, 2 ** 53 + 1, 2 ** 53], 1.0),
                 bigid_cell([2 ** 62 + 5, 2 ** 62 + 3, 2 ** 62], 0.75), bigid_cell([2 ** 62 + 1, 2 ** 62 + 6, 2 ** 62 + 2], 0.0),
                 bigid_cell([2 ** 63 - 1, 2 ** 63 - 3, 2 ** 63 - 2], 0.5), bigid_cell([2 ** 31, 2 ** 31 + 1, 2 ** 32 + 7], 0.25)]
    # ... each also queried for its middle segment (the parent lookup inside get_actual_proximal uses the ids too)
    big_cells += [dict(c, chain=c["chain"][1:], ids=c["ids"][1:], extra=2, order=[3, 1, 0, 2]) for c in big_cells[:5]]
    for c in big_cells:
        ck.tally("cell:segment-ids-beyond-2^53" if max(c["ids"]) > 2 ** 53 else "cell:segment-ids-beyond-2^31")
    cells = big_cells + [gen_cell(rng, maxdepth) for _ in range(ncell)]
    payload = {"seg": [[float(x).hex() for x in c] for c in segs],
               "cell": [{"chain": [{"prox": [float(x).hex() for x in sg["prox"]] if sg["prox"] is not None else None,
                                    "dist": [float(x).hex() for x in sg["dist"]], "fract": float(sg["fract"]).hex()}
                                   for sg in c["chain"]], "ids": c["ids"], "extra": c["extra"], "order": c["order"]}
                        for c in cells]}
    hists = fixed_histories() + [gen_history(rng, 5) for _ in range(ck.n(60, 1500))]
    seghists = [{"coords": [hx(v) for v in (0.0, 0.0, 0.0, 2.0, 3.0, 4.0, 0.0, 2.0)],
                 "steps": [{"end": "d", "attr": "x", "v": hx(6.0)}, {"end": "p", "attr": "diameter", "v": hx(4.0)},
                           {"end": "d", "attr": "y", "v": hx(0.0)}, {"end": "d", "attr": "x", "v": hx(0.0)}]}] \
        + [gen_seghist(rng) for _ in range(ck.n(40, 1000))]
    payload["hist"] = hists
    payload["seghist"] = seghists
    res = ck.impl("c12_impl.py", payload, timeout=1200)
    # the interpreter's configuration is not an input: the deterministic part again under `python -O` (asserts stripped) and
    # with another hash seed from another working directory; the answers must be identical
    sub = {"seg": payload["seg"][:30], "cell": payload["cell"][:len(big_cells) + 20], "hist": hists[:40], "seghist": seghists[:5]}
    ref_sub = {"seg": res["seg"][:30], "cell": res["cell"][:len(big_cells) + 20], "hist": res["hist"][:40], "seghist": res["seghist"][:5]}
    for label, kw in (("python-O", {"pyflags": ["-O"]}), ("PYTHONHASHSEED=3-cwd=/", {"extra_env": {"PYTHONHASHSEED": "3"}, "cwd": "/"})):
        try:
            r2 = ck.impl("c12_impl.py", sub, timeout=600, **kw)
        except Exception as e:  # noqa: BLE001
            ck.witness("C12:interpreter-configuration:%s:raises" % label, "the implementation run under %s failed: %s" % (label, str(e)[-300:]),
                       input={"configuration": label}, observed=str(e)[-300:])
            continue
        for part in ("seg", "cell", "hist", "seghist"):
            for k, (inp, a, b) in enumerate(zip(sub[part], ref_sub[part], r2[part])):
                ck.tally("other-interpreter-configuration:" + label)
                if a != b:
                    ck.witness("C12:interpreter-configuration:%s" % label, "under %s the %s answers differ from the default interpreter"
                               % (label, {"seg": "Segment property", "cell": "cell-level getter", "hist": "history",
                                          "seghist": "segment history"}[part]),
                               input={"configuration": label, "part": part, "case": inp}, expected=a, observed=b)
                    break
    souts, couts = res["seg"], res["cell"]
    couts = [[o[0] if isinstance(o[0], str) else [float.fromhex(v) for v in o[0]], o[1], o[2], o[3]] for o in couts]
    # ---------------------------------------------------------------- correspondence: kernel evaluates the float reading
    if have_model:
        jobs = []
        for i in range(0, len(segs), 500):
            jobs.append(("seg", i, "Cases_C12_seg_%d.v" % (i // 500), seg_cases_v(segs[i:i + 500], souts[i:i + 500])))
        for i in range(0, len(cells), 250):
            jobs.append(("cell", i, "Cases_C12_cell_%d.v" % (i // 250), cell_cases_v(cells[i:i + 250], couts[i:i + 250])))
        with ThreadPoolExecutor(max_workers=8) as ex:
            results = list(ex.map(lambda j: (j, ck.coq_eval(j[2], j[3], timeout=600)), jobs))
        exact = 0
        for (kind, off, name, _), (ok, rs, out) in results:
            if not ok or not rs:
                ck.oblige("correspondence:%s" % name, False, out[-1500:], kind="correspondence")
                continue
            bad = parse_idx(rs[0])
            ck.oblige("correspondence:%s" % name, not bad, "mismatching case indices: %s" % bad[:20], kind="correspondence")
            if kind == "seg" and len(rs) > 1:
                exact += int(rs[1].replace("%Z", "").strip("() "))
            for b in bad[:5]:
                if kind == "seg":
                    ck.disagree("Geom.run FA (segment level)", {"coords": segs[off + b], "class": meta[off + b][0]},
                                "differs beyond 2^-40 (see %s)" % name, souts[off + b])
                else:
                    ck.disagree("Geom.run_cp/actual_prox FA (cell level)", cells[off + b], "differs (see %s)" % name, couts[off + b])
        ck.extra["segment_cases_bit_exact_in_all_four_methods"] = exact
        ck.extra["segment_cases_compared_by_kernel"] = len(segs)
        ck.extra["cell_cases_compared_by_kernel"] = len(cells)
    # ---------------------------------------------------------------- property predicate on the implementation
    names = ["length", "volume", "area"]
    for i, (c, o) in enumerate(zip(segs, souts)):
        tag, rel, par, b = meta[i]
        ref = ref_segment(c)
        vals = {"length": unhex(o[0]), "volume": unhex(o[1]), "area": unhex(o[2]), "distance_to": unhex(o[3])}
        nontrivial = any(isinstance(ref[k], str) or ref[k] != 0 for k in names)
        ck.count(1, nontrivial_key=("seg", [float(x).hex() for x in c]) if nontrivial else None,
                 sample={"kind": "segment", "class": tag, "relation": rel, "coords": c, "impl": vals} if i % 997 == 0 else None)
        for k in names:
            if not close(vals[k], ref[k]):
                shape = "sphere" if (c[0:3] == c[4:7]) else "frustum"
                ck.witness("C12:%s:%s" % (k, shape if k != "length" else "distance"),
                           "Segment.%s differs from the closed form (60-digit reference from the exact input doubles)" % k,
                           input={"proximal": c[0:4], "distal": c[4:8], "class": tag},
                           expected='%.25E' % ref[k] if not isinstance(ref[k], str) else ref[k], observed=repr(vals[k]), broken="Inst_C12_%s.v:%s_ok" % (k, k))
        # C12_float_rounding_length: within its range hypothesis the computed length / distance must lie within the
        # PROVED bound 6 * 2^-53 * L of the real distance (the reference carries 60 digits)
        diffs = [Fraction(c[j]) - Fraction(c[j + 4]) for j in range(3)]
        if all(t == 0 or Fraction(1, 2 ** 500) <= abs(t) <= 2 ** 500 for t in diffs):
            ck.tally("length:inside-the-proved-range")
            for nm in ("length", "distance_to"):
                v = vals[nm]
                if isinstance(v, str):
                    continue
                L = ref["length"]
                err = abs(Decimal(v) - L)
                if err > Decimal(6) * Decimal(2) ** -53 * L:
                    ck.witness("C12:%s:beyond-the-proved-rounding-bound" % nm, "%s is further than 6 * 2^-53 * L from the Euclidean "
                               "distance although the inputs satisfy the range hypothesis of C12_float_rounding_length" % nm,
                               input={"proximal": c[0:4], "distal": c[4:8], "class": tag}, expected="%.25E" % L, observed=repr(v),
                               broken="Props_C12.v:C12_float_rounding_length")
                elif L != 0:
                    ck.extra["max_length_error_in_units_of_2^-53"] = max(ck.extra.get("max_length_error_in_units_of_2^-53", 0.0),
                                                                         float(err / L * Decimal(2) ** 53))
        # C12_float_rounding_volume / _area: frustum, non-negative diameters, everything zero or within 2^-300 .. 2^300
        lo3, hi3 = Fraction(1, 2 ** 300), Fraction(2 ** 300)

        def r300(t):
            return t == 0 or lo3 <= abs(t) <= hi3
        dp, dd_ = Fraction(c[3]), Fraction(c[7])
        if any(t != 0 for t in diffs) and dp >= 0 and dd_ >= 0 and all(r300(t) for t in diffs + [dp, dd_]):
            ck.tally("volume:inside-the-proved-range")
            halves_ok = (c[3] / 2) * 2 == c[3] and (c[7] / 2) * 2 == c[7] and r300(dp / 2 - dd_ / 2)
            for nm, cst, okr in (("volume", 16, True), ("area", 13, halves_ok)):
                v = vals[nm]
                if not okr or isinstance(v, str) or isinstance(ref[nm], str):
                    continue
                err = abs(Decimal(v) - ref[nm])
                if err > Decimal(cst) * Decimal(2) ** -53 * ref[nm]:
                    ck.witness("C12:%s:beyond-the-proved-rounding-bound" % nm, "%s is further than %d * 2^-53 relative from the frustum "
                               "closed form although the inputs satisfy the hypotheses of C12_float_rounding_%s" % (nm, cst, nm),
                               input={"proximal": c[0:4], "distal": c[4:8], "class": tag}, expected="%.25E" % ref[nm], observed=repr(v),
                               broken="Props_C12.v:C12_float_rounding_%s" % nm)
                elif ref[nm] != 0:
                    kx = "max_%s_error_in_units_of_2^-53" % nm
                    ck.extra[kx] = max(ck.extra.get(kx, 0.0), float(err / ref[nm] * Decimal(2) ** 53))
        if not close(vals["distance_to"], ref["length"]):
            ck.witness("C12:distance_to", "Point3DWithDiam.distance_to differs from the Euclidean distance",
                       input={"a": c[0:4], "b": c[4:8]}, expected='%.25E' % ref['length'], observed=repr(vals["distance_to"]),
                       broken="Inst_C12_distance.v:distance_ok")
        for k in names:
            v = vals[k]
            if not isinstance(v, str) and v < 0 and c[3] >= 0 and c[7] >= 0:
                ck.witness("C12:negative:%s" % k, "negative %s" % k, input={"proximal": c[0:4], "distal": c[4:8]},
                           expected=">= 0", observed=repr(v), broken="Props_C12.v:C12_nonnegative")
        if rel != "base":
            bo = souts[b]
            bv = {"length": unhex(bo[0]), "volume": unhex(bo[1]), "area": unhex(bo[2])}
            for k, pw in (("length", 1), ("volume", 3), ("area", 2)):
                if rel == "scale":
                    want = bv[k] if isinstance(bv[k], str) else bv[k] * (par ** pw)
                else:
                    want = bv[k]
                if not fclose(vals[k], want):
                    ck.witness("C12:%s:%s" % (rel, k), "%s is not %s under %s" % (k, "scaled by k^%d" % pw if rel == "scale" else "unchanged", rel),
                               input={"base": segs[b], "transformed": c, "parameter": par}, expected=repr(want), observed=repr(vals[k]),
                               broken="Props_C12.v:C12_%s" % {"swap": "swap_end_points", "translate": "translation_invariant",
                                                                "scale": "uniform_scaling"}[rel])
            ck.tally("metamorphic:" + rel)
    check_histories(ck, hists, res["hist"])
    check_seghists(ck, seghists, res["seghist"])
    for i, (c, o) in enumerate(zip(cells, couts)):
        chain = c["chain"]
        depth = len(chain)
        ck.tally("cell:depth=%d" % depth)
        ck.tally("cell:" + ("own-proximal" if chain[0]["prox"] is not None else
                            "inherited:fract=%s" % ("1" if chain[0]["fract"] == 1 else "0" if chain[0]["fract"] == 0 else "interior")))
        ap = ref_actual(chain)
        got = o[0]
        maxabs = max([abs(v) for sg in chain for v in (sg["dist"] + (sg["prox"] or []))] + [1e-300])
        okp = True
        if isinstance(ap, str) or isinstance(got, str):
            okp = isinstance(ap, str) and isinstance(got, str)
        elif c["exact"]:
            okp = all(Fraction(g) == a for g, a in zip(got, ap))
        else:
            okp = all(abs(Fraction(g) - a) <= Fraction(8 * depth * EPS * maxabs) for g, a in zip(got, ap))
        key_f = "own" if chain[0]["prox"] is not None else ("end" if chain[0]["fract"] == 1 else "start" if chain[0]["fract"] == 0 else "interior")
        ck.count(1, nontrivial_key=("cell", json.dumps(c["chain"], sort_keys=True)),
                 sample={"kind": "cell", "chain": chain, "impl": o} if i % 499 == 0 else None)
        if not okp:
            ck.witness("C12:actual_proximal:%s" % key_f, "get_actual_proximal is not the point at fraction_along on the parent",
                       input={"chain(head=queried segment, then ancestors)": chain}, expected=[str(float(a)) for a in ap] if not isinstance(ap, str) else ap,
                       observed=got, broken="Inst_C12_actual.v:actual_ok")
        if isinstance(ap, str):
            want = {"length": "EXC", "volume": "EXC", "area": "EXC"}
            rel = REL
        else:
            dq = [Fraction(v) for v in chain[0]["dist"]]
            want = ref_from_fractions(ap, dq)
            rel = REL
            if not c["exact"] and chain[0]["prox"] is None:
                L = float(want["length"])
                rsum = float(ap[3] + dq[3]) / 2
                cond = maxabs / L if L > 0 else math.inf
                cond += maxabs / rsum if rsum > 0 else math.inf
                rel = Decimal(1e-12 + 64 * depth * EPS * min(cond, 1e30))
                if rel > Decimal("1e-4"):
                    ck.tally("cell:ill-conditioned-skipped")
                    continue
        got3 = {"length": unhex(o[1]), "area": unhex(o[2]), "volume": unhex(o[3])}
        for k in names:
            if not close(got3[k], want[k], rel):
                ck.witness("C12:cell:%s" % k, "Cell.get_segment_%s differs from the segment-level value at the actual proximal point" % k,
                           input={"chain(head=queried segment, then ancestors)": chain}, expected='%.25E' % want[k] if not isinstance(want[k], str) else want[k], observed=repr(got3[k]),
                           broken="Inst_C12_cell.v:cell_%s_ok" % k)


def replay(ck, data):
    inp = data.get("input") or {}
    out = {"stored": data}
    if "proximal" in inp:
        c = inp["proximal"] + inp["distal"]
        r = ck.impl("c12_impl.py", {"seg": [[float(x).hex() for x in c]]})
        ref = ref_segment(c)
        out["implementation"] = dict(zip(["length", "volume", "surface_area", "distance_to"],
                                         [x if x.startswith("EXC") else float.fromhex(x) for x in r["seg"][0]]))
        out["reference"] = {k: str(v)[:40] for k, v in ref.items()}
        bad = not all(close(unhex(r["seg"][0][i]), ref[k]) for i, k in enumerate(["length", "volume", "area"]))
        print(json.dumps(out, indent=1, default=str)[:4000])
        return 1 if bad else 0
    print(json.dumps(out, indent=1, default=str)[:4000])
    return 0
