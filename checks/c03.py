"""C03 - a schema violation anywhere in a tree makes validate(recursive=True) fail.  See design_notes/C03.md"""
import json
import re
from concurrent.futures import ThreadPoolExecutor

from lib import bindings, gdsgen, schemagen
from lib.vcommon import coq_list, coq_str

HEADER = ("From Coq Require Import String List ZArith Bool.\n"
          "From LNML Require Import Lib.Dec Lib.Regex Model.Gds Model.Validate.\n"
          "From Run Require Import Gen_Validate.\nImport ListNotations.\nOpen Scope string_scope.\n")


# ----------------------------------------------------------------------------- model vs real validate()
def usable(r):
    if "obj" not in r or "rec" not in r or "nonrec" not in r:
        return False
    if gdsgen.has_bad_float(r["obj"]):
        return False
    if '"raw": ["' in json.dumps(r["obj"]):
        return False
    for k in ("rec", "nonrec"):
        if r[k]["raised"] not in (None, "ValueError"):
            return False
        if any(schemagen.cmsg(m) is None for m in r[k]["msgs"]):
            return False
    return True


def vcase(r):
    return "{| vc_obj := %s;\n   vc_rec := %s;\n   vc_nonrec := %s |}" % (
        gdsgen.cobj(r["obj"]), coq_list([schemagen.cmsg(m) for m in r["rec"]["msgs"]]),
        coq_list([schemagen.cmsg(m) for m in r["nonrec"]["msgs"]]))


def correspondence(ck, cases, results, label="Cases_C03", shard=80):
    """diff inside Coq: the messages of the model's validate vs the ones the real validate collected"""
    us = [(c, r) for c, r in zip(cases, results) if usable(r)]
    files = []
    for i in range(0, len(us), shard):
        chunk = us[i:i + shard]
        text = HEADER + "Definition cases : list vcase := %s.\n" % coq_list(["\n " + vcase(r) for _, r in chunk]) + \
            "Eval vm_compute in (vmismatches Gen_Validate.V 0 cases).\n"
        files.append((i // shard, chunk, text))
    with ThreadPoolExecutor(max_workers=8) as ex:
        evals = list(ex.map(lambda f: ck.coq_eval("%s_%d.v" % (label, f[0]), f[2], timeout=900), files))
    for (i, chunk, _), (ok, res, out) in zip(files, evals):
        ck.oblige("%s_%d.v:evaluates" % (label, i), ok, out[-1500:], kind="correspondence")
        if not ok:
            continue
        for m in re.finditer(r"\((\d+)(?:%nat)?, (\d+)(?:%nat)?\)", res[0] if res else ""):
            case, r = chunk[int(m.group(1))]
            bits = int(m.group(2))
            ck.disagree("Validate.validate(%s)" % "+".join(n for b, n in ((1, "recursive"), (2, "non-recursive")) if bits & b),
                        case, "model collects other messages (bits %d)" % bits,
                        {"rec": r["rec"]["msgs"], "nonrec": r["nonrec"]["msgs"]})
    ck.extra["validate_correspondence_cases"] = ck.extra.get("validate_correspondence_cases", 0) + len(us)
    for c, r in zip(cases, results):
        for k in ("rec", "nonrec"):
            if k in r and r[k]["raised"] not in (None, "ValueError"):
                ck.tally("validate-raised-" + str(r[k]["raised"]))
    return us


def junk_leaf(rng):
    return rng.choice([{"i": 5}, {"s": "x y"}, {"f": "0.5"}, {"s": ""}, {"i": -1}, {"f": "-2.0"}, {"s": "12"}, {"s": "1e"}])


def correspondence_cases(ck, L, G, per_class):
    """conforming trees, trees with one or several facets violated at various depths, members of a wrong python type"""
    rng = ck.rng
    cases = []
    for c in L.T.order:
        for j in range(per_class):
            t = G.tree(c, rng.choice([1, 2, 2, 3]), rich=(j == 0))
            kind = "valid"
            if j % 3 == 1:
                kind = "mutated"
                mutate(L, G, t, rng, rng.choice([1, 1, 2, 3]))
            elif j % 3 == 2:
                kind = "junk"
                for _ in range(rng.choice([1, 2])):
                    tt = rng.choice(all_nodes(t))
                    leafs = [kv for kv in tt["kw"] if kv[1] is None or not ("o" in kv[1] or "l" in kv[1])]
                    if leafs:
                        rng.choice(leafs)[1] = junk_leaf(rng)
            cases.append({"tree": t, "tag": "probe_" + c, "kind": kind})
    return cases


def all_nodes(t):
    out = [t]
    for _, v in t["kw"]:
        if v is None:
            continue
        if "o" in v:
            out += all_nodes(v["o"])
        elif "l" in v:
            for x in v["l"]:
                out += all_nodes(x)
    return out


def mutate(L, G, t, rng, n):
    """violate n randomly chosen facets somewhere in the tree (in place)"""
    for _ in range(n):
        node = rng.choice(all_nodes(t))
        c = node["cls"]
        opts = []
        for a in L.all_attrs(c):
            if a["required"]:
                opts.append(("drop", a["py"], None))
            for lab, leaf in G.bad_values(a["st"]):
                opts.append(("set", a["py"], leaf))
        for e in L.all_elems(c):
            if e["lo"] >= 1:
                opts.append(("drop", e["py"], None))
        if not opts:
            continue
        op, py, leaf = rng.choice(opts)
        node["kw"] = [kv for kv in node["kw"] if kv[0] != py]
        if op == "set":
            node["kw"].append([py, leaf])


# ----------------------------------------------------------------------------- stored witnesses / Coq witnesses
def T_(cls, **kw):
    return {"cls": cls, "kw": [[k, v] for k, v in kw.items()]}


def s_(x):
    return {"s": x}


IAF = dict(leak_reversal=s_("-50mV"), thresh=s_("-55mV"), reset=s_("-70mV"), C=s_("0.2nF"), leak_conductance=s_("0.01uS"))
W_INHERITED = {"tree": T_("NeuroMLDocument", id=s_("d"), iaf_cells={"l": [T_("IafCell", id=s_("bad id!"), **IAF)]}),
               "tag": "neuroml", "doc": True}
W_RANGE = {"tree": T_("SegmentParent", segments={"i": -3}), "tag": "probe_SegmentParent"}
W_CHOICE = {"tree": T_("Layout"), "tag": "probe_Layout"}
STORED = [("C03:inherited-member-of-child-not-validated", W_INHERITED,
           "validate(recursive=True) accepts a document whose IafCell has the id 'bad id!' (an inherited member of a child)"),
          ("C03:integer-range-not-checked", W_RANGE,
           "validate accepts SegmentParent(segments=-3): the generated NonNegativeInteger/PositiveInteger validators have no range test"),
          ("C03:choice-group-not-checked", W_CHOICE,
           "validate accepts a Layout with none of random/grid/unstructured: nothing tests the occurrence constraints of a choice group")]


def kw_obj(t):
    """keyword tree -> Coq obj holding just the given members (absent members read as None in the model)"""
    fs = []
    for k, v in t["kw"]:
        if v is None:
            fs.append("(%s, VNone)" % coq_str(k))
        elif "o" in v:
            fs.append("(%s, VObj %s)" % (coq_str(k), kw_obj(v["o"])))
        elif "l" in v:
            fs.append("(%s, VObjs %s)" % (coq_str(k), coq_list([kw_obj(x) for x in v["l"]])))
        else:
            fs.append("(%s, %s)" % (coq_str(k), gdsgen.cval(v)))
    return "(Obj %s %s)" % (coq_str(t["cls"]), coq_list(fs))


def expected_unchecked(L):
    """python mirror of Xsd.unchecked: the members whose schema constraints the generated code cannot test exactly
    are the integer-typed attributes, the attributes with a fixed value and the members of choice groups"""
    out = []
    for c in L.T.order:
        k = L.T.C[c]
        attrs = {a["py"]: a for a in L.own_attrs(c)}
        elems = {e["py"]: e for e in L.own_elems(c)}
        for m in [a["py"] for a in k.get("exp_attrs", [])] + [e["py"] for e in k.get("exp_kids", [])]:
            a = attrs.get(m)
            if a is not None:
                if L.st[a["st"]]["prim"] in ("nonNegativeInteger", "positiveInteger"):
                    out.append((c, m, "VVal"))
                if a["fixed"] is not None:
                    out.append((c, m, "VVal"))
            e = elems.get(m)
            if e is not None and "choice" in e["ctx"]:
                out.append((c, m, "VFew"))
    return out


def inst_text(L):
    unch = coq_list(["(%s, %s, %s)" % (coq_str(c), coq_str(m), k) for c, m, k in expected_unchecked(L)])
    doc, cell = kw_obj(W_INHERITED["tree"]), kw_obj(W_INHERITED["tree"]["kw"][1][1]["l"][0])
    return ("From Coq Require Import String List ZArith Bool.\n"
            "From LNML Require Import Lib.Dec Lib.Regex Model.Gds Model.Validate Model.Xsd.\n"
            "From Run Require Import Gen_Bindings Gen_Validate Gen_Schema.\nImport ListNotations.\nOpen Scope string_scope.\n\n"
            "(* the tables of this run with the recursion left to the generated validate_ methods, as shipped *)\n"
            "Definition V_original : vtables := {| vt_mode := RecGenerated; vt_classes := vt_classes Gen_Validate.V |}.\n\n"
            "Definition w_doc : obj dec := %s.\nDefinition w_cell : obj dec := %s.\n"
            "Lemma refuted_inherited : exists (doc cell : obj dec) (m : string),\n"
            "  In cell (kids_of (field doc \"iaf_cells\")) /\\\n"
            "  violation dec_veqb dec_ltb (fun d => d) Gen_Bindings.T Gen_Schema.S cell m = Some VVal /\\\n"
            "  checkedb V_original Gen_Bindings.T Gen_Schema.S (o_cls dec cell) m VVal = true /\\\n"
            "  x_validate V_original cell true <> [] /\\ x_validate V_original doc true = [].\n"
            "Proof. exists w_doc, w_cell, \"id\". split; [left; reflexivity|]. split; [vm_compute; reflexivity|].\n"
            "  split; [vm_compute; reflexivity|]. split; [vm_compute; discriminate | vm_compute; reflexivity]. Qed.\n\n"
            "Definition w_range : obj dec := %s.\n"
            "Lemma refuted_range : exists (o : obj dec) (m : string),\n"
            "  violation dec_veqb dec_ltb (fun d => d) Gen_Bindings.T Gen_Schema.S o m = Some VVal /\\\n"
            "  x_validate Gen_Validate.V o true = [].\n"
            "Proof. exists w_range, \"segments\". split; vm_compute; reflexivity. Qed.\n\n"
            "Definition w_choice : obj dec := %s.\n"
            "Lemma refuted_choice : exists (o : obj dec),\n"
            "  forallb (counts_ok (cnt_of o (exp_kids_of (cfuel Gen_Bindings.T) Gen_Bindings.T (o_cls dec o))))\n"
            "          (eff_parts Gen_Schema.S (o_cls dec o)) = false /\\\n"
            "  x_validate Gen_Validate.V o true = [].\n"
            "Proof. exists w_choice. split; vm_compute; reflexivity. Qed.\n\n"
            "Lemma agree_val_ok : disagree_val Gen_Validate.V Gen_Bindings.T Gen_Schema.S = [].\n"
            "Proof. vm_compute. reflexivity. Qed.\n\n"
            "Lemma unchecked_exact : unchecked Gen_Validate.V Gen_Bindings.T Gen_Schema.S =\n  %s.\n"
            "Proof. vm_compute. reflexivity. Qed.\n\n"
            "(* last: false on a tree whose validate() still leaves the recursion to the generated code *)\n"
            "Lemma recursion_walks_all_members : vt_mode Gen_Validate.V = RecAllMembers.\n"
            "Proof. reflexivity. Qed.\n" % (doc, cell, kw_obj(W_RANGE["tree"]), kw_obj(W_CHOICE["tree"]), unch))


def diagnose(ck, L):
    """what the agreement predicates say about the tables of this run, as data: used to steer the witness search to the
    classes / members whose obligations broke (the kernel-checked statements are the lemmas of the Inst file)"""
    text = ("From Coq Require Import String List ZArith Bool.\n"
            "From LNML Require Import Lib.Dec Lib.Regex Model.Gds Model.Validate Model.Xsd.\n"
            "From Run Require Import Gen_Bindings Gen_Validate Gen_Schema.\nImport ListNotations.\nOpen Scope string_scope.\n"
            "Eval vm_compute in (unchecked Gen_Validate.V Gen_Bindings.T Gen_Schema.S).\n"
            "Eval vm_compute in (disagree_val Gen_Validate.V Gen_Bindings.T Gen_Schema.S).\n"
            "Eval vm_compute in (disagree_exp Gen_Bindings.T Gen_Schema.S).\n")
    ok, res, out = ck.coq_eval("Diag_%s.v" % ck.pid, text, timeout=600)
    if not ok or len(res) < 3:
        return None
    unch = set(re.findall(r'\("(\w+)",\s*"(\w+)",\s*(V\w+)\)', res[0]))
    exp = set(expected_unchecked(L))
    return {"unchecked_extra": sorted(unch - exp), "unchecked_missing": sorted(exp - unch),
            "disagree_val": re.findall(r'"(\w+)"', res[1]), "disagree_exp": re.findall(r'"(\w+)"', res[2])}


# ----------------------------------------------------------------------------- the property on the real code
def triples(L, G):
    """every (type, member, facet) triple of the schema, own and inherited members: (type, member, facet, inherited, op)"""
    out = []
    for c in L.T.order:
        for a in L.all_attrs(c):
            inh = a["owner"] != c
            if a["required"] and a["fixed"] is None:
                out.append((c, a["py"], "required", inh, ("drop",)))
            for lab, leaf in G.bad_values(a["st"]):
                out.append((c, a["py"], lab, inh, ("set", leaf)))
            if a["fixed"] is not None:
                out.append((c, a["py"], "fixed", inh, ("set", {"s": a["fixed"] + "_x"})))
        for e in L.all_elems(c):
            inh = e["owner"] != c
            ch = "-in-choice" if "choice" in e["ctx"] else ""
            if e["type"] not in L.ct:
                continue
            if e["lo"] >= 1:
                out.append((c, e["py"], "too-few" + ch, inh, ("count", e, e["lo"] - 1)))
            if e["hi"] is not None and e["kind"] == "objlist":
                out.append((c, e["py"], "too-many" + ch, inh, ("count", e, e["hi"] + 1)))
        for k in L.chain(c):
            for i, (lo, hi, alts) in enumerate(choices_of(L.ct[k]["content"])):
                tags = [[t for t, _, _, _, _ in schemagen.flat_elems(a)] for a in alts]
                if lo >= 1:
                    out.append((c, "choice%d" % i, "choice-none", k != c, ("choice", k, [t for ts in tags for t in ts], [])))
                if hi == 1 and len(alts) >= 2:
                    out.append((c, "choice%d" % i, "choice-two", k != c,
                                ("choice", k, [t for ts in tags for t in ts], [tags[0], tags[1]])))
    return out


def descendants(L, c):
    out = []
    for s in L.subtypes.get(c, []):
        out += [s] + descendants(L, s)
    return out


def choices_of(p):
    if p is None:
        return []
    if p[0] == "choice":
        return [(p[1], p[2], p[3])] + [x for q in p[3] for x in choices_of(q)]
    if p[0] in ("seq", "all"):
        return [x for q in p[1] for x in choices_of(q)]
    return []


def apply_op(L, G, t, member, op):
    if op[0] == "drop":
        t["kw"] = [kv for kv in t["kw"] if kv[0] != member]
    elif op[0] == "set":
        t["kw"] = [kv for kv in t["kw"] if kv[0] != member] + [[member, op[1]]]
    elif op[0] == "count":
        e, n = op[1], op[2]
        t["kw"] = [kv for kv in t["kw"] if kv[0] != member]
        kids = [G.tree(e["type"], 0) for _ in range(n)]
        if n and e["kind"] == "objlist":
            t["kw"].append([member, {"l": kids}])
        elif n:
            t["kw"].append([member, {"o": kids[0]}])
    elif op[0] == "choice":
        k, tags, take = op[1], op[2], op[3]
        es = {e["tag"]: e for e in L.own_elems(k)}
        t["kw"] = [kv for kv in t["kw"] if kv[0] not in [es[x]["py"] for x in tags]]
        for alt in take:
            for tag in alt:
                e = es[tag]
                kid = G.tree(e["type"], 0)
                t["kw"].append([e["py"], {"l": [kid]} if e["kind"] == "objlist" else {"o": kid}])


def key_of(facet, inh, depth, via_inherited):
    if facet == "integer-range":
        return "C03:integer-range-not-checked"
    if facet == "fixed":
        return "C03:fixed-value-not-checked"
    if facet.startswith("choice") or facet.endswith("-in-choice"):
        return "C03:choice-group-not-checked"
    if depth >= 1 and (inh or via_inherited):
        return "C03:inherited-member-of-child-not-validated"
    return None


def property_cases(ck, L, G, depths, per, limit, focus=()):
    """(type, member, facet) x depth: the violated component inside conforming parents.  focus = (class, member) pairs
    and classes named by a broken agreement obligation: all their triples are kept whatever the sampling limit"""
    rng = ck.rng
    tr = triples(L, G)
    ck.extra["schema_triples"] = len(tr)
    cases = []
    for (c, member, facet, inh, op) in tr:
        for d in depths:
            for _ in range(per):
                steps = G.parent_steps(c, d) if d else []
                if steps is None:
                    continue
                t = G.tree(c, 0)
                apply_op(L, G, t, member, op)
                root, path = G.embed(t, steps)
                # below the root, a holder member that the holding class inherits is followed only by the repaired code
                via = any(e["owner"] != par for par, e in steps[:-1])
                rc = root["cls"]
                cases.append({"tree": root, "tag": "probe_" + rc, "doc": rc == L.S["root"][1], "type": c, "member": member,
                              "facet": facet, "inherited": inh, "depth": d, "via_inherited": via, "path": path})
    if limit and len(cases) > limit:
        # a seeded sample that keeps every facet kind and depth represented
        rng.shuffle(cases)
        seen, keep, rest = set(), [], []
        for cs in cases:
            k = (cs["facet"], cs["depth"], cs["inherited"])
            hot = (cs["type"], cs["member"]) in focus or cs["type"] in focus
            (keep if k not in seen or (hot and cs["depth"] <= 1) else rest).append(cs)
            seen.add(k)
        cases = keep + rest[:max(0, limit - len(keep))]
    return cases


CHECKED = ("required", "pattern", "enumeration", "minInclusive", "maxInclusive", "minExclusive", "maxExclusive")


def pair_cases(ck, L, G):
    """one deterministic case for EVERY (parent class, child member) pair of the bindings: a child of the class the
    BUILDER instantiates for that member (element declaration type = bld_kids cls), violating one exactly tested facet,
    inside a conforming parent - alone and, where the parent can sit in a document, inside a whole document.
    Also returns the pairs whose MemberSpec data type differs from the builder's class."""
    tr = {}
    for t in triples(L, G):
        if t[2] in CHECKED and t[4][0] in ("drop", "set"):
            tr.setdefault(t[0], []).append(t)
    cases, differ, uncovered = [], [], []
    root = L.S["root"][1]

    def descend(c, budget):
        """(violable class, steps from it up to c) : c itself or its nearest descendant with an exactly tested facet"""
        if c in tr:
            return c, []
        if budget == 0:
            return None
        for e2 in L.all_elems(c):
            if e2["type"] in L.ct and "choice" not in e2["ctx"]:
                r = descend(e2["type"], budget - 1)
                if r is not None:
                    return r[0], r[1] + [(c, e2)]
        return None
    for par in L.T.order:
        ms = {m["name"]: m["type"] for m in L.T.C[par].get("mspecs", [])}
        bk = {b["tag"]: b for b in L.T.C[par].get("bld_kids", [])}
        for e in L.own_elems(par):
            c = e["type"]
            if c not in L.ct:
                continue
            b = bk.get(e["tag"])
            if b is not None and b.get("cls") and b["cls"] != c:
                ck.tally("pair:builder-class-differs-from-schema-type")
            if ms.get(e["py"]) not in (None, c):
                differ.append([par, e["py"], ms.get(e["py"]), c])
            # the child itself if its class has an exactly tested facet, else the nearest descendant that has one
            below = descend(c, 3)
            if below is None:
                uncovered.append("%s.%s:%s" % (par, e["py"], c))
                continue
            vc, inner = below
            (_, member, facet, inh, op) = tr[vc][0]
            chains = [inner + [(par, e)]]
            up = G.steps_to_document(par)
            if up and (ms.get(e["py"]) not in (None, c)):
                chains.append(inner + [(par, e)] + up)
            # the violated component duplicated as a VALID twin (same class, same id, equal values but the violated one)
            # elsewhere in the tree, visited earlier and later: siblings in one list, cousins under two parents
            good = G.tree(vc, 0)
            bad = json.loads(json.dumps(good))
            apply_op(L, G, bad, member, op)
            st0 = chains[0]
            twins = []
            if st0[0][1]["kind"] == "objlist" and st0[0][1]["hi"] is None:
                twins += [("sibling-twin-first", [good, bad], st0), ("sibling-twin-last", [bad, good], st0)]
            if len(st0) == 1:       # cousins need a grandparent that holds a list of the parent
                ups = [(gp, e2) for gp, e2 in L.parents.get(par, []) if e2["kind"] == "objlist" and e2["hi"] is None]
                if ups:
                    st0 = st0 + [ups[0]]
            if len(st0) >= 2 and st0[1][1]["kind"] == "objlist" and st0[1][1]["hi"] is None:
                pa, _ = G.embed(good, st0[:1])
                pb, _ = G.embed(bad, st0[:1])
                pb["kw"] = [[k, ({"s": v["s"] + "b"} if k == "id" and v and "s" in v else v)] for k, v in
                            json.loads(json.dumps([kv for kv in pa["kw"] if kv[0] != st0[0][1]["py"]]))] + \
                           [kv for kv in pb["kw"] if kv[0] == st0[0][1]["py"]]
                twins += [("cousin-twin-first", [pa, pb], st0[1:]), ("cousin-twin-last", [pb, pa], st0[1:])]
            for label, kids, steps in twins:
                rt, path = G.embed(kids[0], steps)
                holder = base_node(rt, path[:-1])
                for kv in holder["kw"]:
                    if kv[0] == steps[0][1]["py"]:
                        kv[1] = {"l": kids}
                cases.append({"tree": rt, "tag": "neuroml" if rt["cls"] == root else "probe_" + rt["cls"], "doc": rt["cls"] == root,
                              "type": vc, "member": member, "facet": facet, "inherited": inh, "depth": len(st0),
                              "via_inherited": any(x["owner"] != p_ for p_, x in st0[:-1]), "path": path,
                              "pair": "%s.%s" % (par, e["py"]), "twin": label})
            for steps in chains:
                t = json.loads(json.dumps(bad))
                rt, path = G.embed(t, steps)
                cases.append({"tree": rt, "tag": "neuroml" if rt["cls"] == root else "probe_" + rt["cls"], "doc": rt["cls"] == root,
                              "type": vc, "member": member, "facet": facet, "inherited": inh, "depth": len(steps),
                              "via_inherited": any(x["owner"] != p_ for p_, x in steps[:-1]), "path": path,
                              "pair": "%s.%s" % (par, e["py"]), "types_differ": ms.get(e["py"]) not in (None, c)})
    return cases, differ, uncovered


def base_node(tree, path):
    """the keyword-tree node reached from the root along path ([[member, index|None]..])"""
    node = tree
    for member, idx in path:
        v = dict((k, x) for k, x in node["kw"])[member]
        node = v["l"][idx] if idx is not None else v["o"]
    return node


def file_history_part(ck, L, G, order, n):
    """C03_file: the verdict of is_valid_neuroml2 / validate_neuroml2 on a file is a function of the files - whatever was
    checked before in the same process.  Violation in an INCLUDED file; same file twice; two parents sharing an include;
    the include checked first; a valid control."""
    rng = ck.rng
    inc = {"l": [T_("IncludeType", href=s_("shared.nml"))]}
    inc_good = {"l": [T_("IncludeType", href=s_("good_shared.nml"))]}

    def scenario(bad_comp_member, bad_comp, good_comp):
        pg = lambda i: {"l": [T_("PulseGenerator", id=s_("pg%d" % i), delay=s_("10ms"), duration=s_("50ms"), amplitude=s_("0.2nA"))]}  # noqa
        return {"files": {
            "shared.nml": {"cls": "NeuroMLDocument", "kw": [["id", s_("shared")], [bad_comp_member, {"l": [bad_comp]}]]},
            "good_shared.nml": {"cls": "NeuroMLDocument", "kw": [["id", s_("goodshared")], [bad_comp_member, {"l": [good_comp]}]]},
            "main1.nml": T_("NeuroMLDocument", id=s_("main1"), includes=inc, pulse_generators=pg(1)),
            "main2.nml": T_("NeuroMLDocument", id=s_("main2"), includes=inc, pulse_generators=pg(2)),
            "main_good.nml": T_("NeuroMLDocument", id=s_("maingood"), includes=inc_good, pulse_generators=pg(3))},
            "sequences": [
                [["is_valid", "main1.nml"], ["is_valid", "main1.nml"], ["is_valid", "main2.nml"], ["validate", "main1.nml"],
                 ["validate", "main2.nml"], ["is_valid", "main_good.nml"], ["is_valid", "main_good.nml"]],
                [["is_valid", "shared.nml"], ["is_valid", "main1.nml"], ["validate", "main2.nml"], ["is_valid", "shared.nml"]],
                [["validate", "main2.nml"], ["is_valid", "main2.nml"], ["is_valid", "good_shared.nml"], ["validate", "main_good.nml"],
                 ["is_valid", "shared.nml"]],
                # the global switch for build-time validation (documented to affect component_factory()/add() only)
                [["switch", "disable"], ["is_valid", "main1.nml"], ["validate", "main1.nml"], ["is_valid", "shared.nml"],
                 ["is_valid", "main_good.nml"], ["switch", "enable"], ["validate", "main2.nml"], ["switch", "disable"],
                 ["validate", "shared.nml"], ["is_valid", "main2.nml"]]]}
    scs = [scenario("iaf_cells", T_("IafCell", id=s_("iaf0"), **dict(IAF, thresh=s_("-55 seconds"))), T_("IafCell", id=s_("iaf0"), **IAF))]
    # further violations: a checked facet of a random top-level component type
    tops = [e for e in L.own_elems(L.S["root"][1]) if e["kind"] == "objlist" and e["type"] in L.ct and e["tag"] != "include"]
    tr = {}
    for t in triples(L, G):
        if t[2] in CHECKED and t[4][0] in ("drop", "set"):
            tr.setdefault(t[0], []).append(t)
    all_tops = tops
    tops = [e for e in tops if e["type"] in tr]

    def random_pair(no_id=False):
        for _ in range(50):
            e = rng.choice(tops)
            cands = [t for t in tr[e["type"]] if not (no_id and t[1] == "id")]
            if not cands:
                continue
            (_, member, facet, inh, op) = rng.choice(cands)
            good = G.tree(e["type"], 0)
            bad = json.loads(json.dumps(good))
            apply_op(L, G, bad, member, op)
            return e, bad, good
        raise RuntimeError("no top-level type with a checked facet")
    for _ in range(n):
        e, bad, good = random_pair()
        scs.append(scenario(e["py"], bad, good))
    # ---- the violating component of the included file has the id of a component of ANOTHER KIND (another member list)
    # of the including file: ids are only unique within one member list, the included component must not be dropped
    pg = lambda i: {"l": [T_("PulseGenerator", id=s_("pg%d" % i), delay=s_("10ms"), duration=s_("50ms"), amplitude=s_("0.2nA"))]}  # noqa

    def with_id(t, ident):
        t = json.loads(json.dumps(t))
        t["kw"] = [kv for kv in t["kw"] if kv[0] != "id"] + [["id", s_(ident)]]
        return t

    def has_id(c):
        return any(a["py"] == "id" and a["st"] == "NmlId" for a in L.all_attrs(c))

    def collision_scenario(member, bad, good, ident, others):
        files = {"shared.nml": {"cls": "NeuroMLDocument", "kw": [["id", s_("shared")], [member, {"l": [with_id(bad, ident)]}]]},
                 "good_shared.nml": {"cls": "NeuroMLDocument", "kw": [["id", s_("goodshared")], [member, {"l": [with_id(good, ident)]}]]}}
        expect = {"shared.nml": False, "good_shared.nml": True}
        seq = []
        for i, oe in enumerate(others):
            other = with_id(G.tree(oe["type"], 0), ident)
            for good_one in (False, True):
                name = "%s_%d_%s.nml" % ("control" if good_one else "main", i, oe["py"])
                files[name] = {"cls": "NeuroMLDocument", "kw": [
                    ["id", s_("m%d" % i)], ["includes", inc_good if good_one else inc], ["pulse_generators", pg(i)], [oe["py"], {"l": [other]}]]}
                expect[name] = good_one
                seq += [["is_valid", name], ["validate", name]]
        return {"files": files, "sequences": [seq], "expect": expect, "key": "C03:violation-in-include-whose-id-equals-an-id-of-another-list-accepted",
                "about": "included %s id=%s violates the schema; the including file holds %s with the same id" % (
                    member, ident, ", ".join(o["py"] for o in others))}
    izh_good = T_("IzhikevichCell", id=s_("granule"), v0=s_("-70mV"), thresh=s_("30mV"), a=s_("0.02"), b=s_("0.2"), c=s_("-65"), d=s_("6"))
    izh_bad = json.loads(json.dumps(izh_good))
    izh_bad["kw"] = [kv for kv in izh_bad["kw"] if kv[0] != "a"]
    by_py = {e["py"]: e for e in all_tops}
    idtops = [e for e in all_tops if has_id(e["type"])]
    if "izhikevich_cells" in by_py and "networks" in by_py:
        scs.append(collision_scenario("izhikevich_cells", izh_bad, izh_good, "granule",
                                      [by_py["networks"]] + [by_py[k] for k in ("iaf_cells", "ion_channel") if k in by_py]))
    for _ in range(n):
        e, bad, good = random_pair(no_id=True)
        if not has_id(e["type"]):
            continue
        same = [o for o in idtops if o["type"] == e["type"] and o["py"] != e["py"]]       # the same kind in another list
        rest = [o for o in idtops if o["py"] != e["py"] and o not in same]
        scs.append(collision_scenario(e["py"], bad, good, "shared_id_%d" % rng.randrange(100), same[:1] + rng.sample(rest, 2 - len(same[:1]))))
    # ---- include chains: the violation sits in the INNERMOST file of a chain of depth 3 (and 2), listed nowhere else
    def chain_scenario(member, bad, good, depths):
        files, expect, seq = {}, {}, []
        for depth in depths:
            for kind, comp in (("bad", bad), ("good", good)):
                names = ["%s_chain%d_level%d.nml" % (kind, depth, i) for i in range(depth + 1)]
                for i, name in enumerate(names):
                    kw = [["id", s_("%s%d_%d" % (kind, depth, i))], ["pulse_generators", pg(10 * depth + i)]]
                    if i < depth:
                        kw.append(["includes", {"l": [T_("IncludeType", href=s_(names[i + 1]))]}])
                    else:
                        kw.append([member, {"l": [comp]}])
                    files[name] = {"cls": "NeuroMLDocument", "kw": kw}
                    expect[name] = kind == "good"
                seq += [["is_valid", names[0]], ["validate", names[0]]]
        return {"files": files, "sequences": [seq, seq[::-1]], "expect": expect, "key": "C03:violation-in-nested-include-accepted",
                "about": "%s violating the schema in the innermost file of include chains of depth %s" % (member, list(depths))}
    scs.append(chain_scenario("iaf_cells", T_("IafCell", id=s_("iaf0"), **dict(IAF, thresh=s_("-55 seconds"))), T_("IafCell", id=s_("iaf0"), **IAF), (2, 3)))
    for _ in range(n):
        e, bad, good = random_pair()
        scs.append(chain_scenario(e["py"], bad, good, (rng.choice([3, 4]),)))
    out = ck.impl("c03_impl.py", {"mode": "filehistory", "order": order, "scenarios": scs}, timeout=1500)["results"]
    corr_c, corr_r = [], []
    for sc, r in zip(scs, out):
        ck.tally("file-history-scenario")
        if "err" in r:
            ck.oblige("file-history:scenario-runs", False, r["err"], kind="harness")
            continue
        fresh = r["fresh"]
        # the fresh-process verdicts themselves: the files that include the violating file are invalid, the controls valid
        expect = sc.get("expect") or {"shared.nml": False, "main1.nml": False, "main2.nml": False, "good_shared.nml": True, "main_good.nml": True}
        ck.tally("file-scenario:" + sc.get("key", "C03:file-with-violation-in-include-accepted"))
        for f, want in sorted(expect.items()):
            for fn, got in (("is_valid_neuroml2", fresh[f]["is_valid"]),
                            ("validate_neuroml2", {"ValueError": False, "no exception": True}.get(fresh[f]["validate"], fresh[f]["validate"]))):
                ck.count(1, nontrivial_key=("file-verdict", json.dumps(sc["files"][f], sort_keys=True)[:3000], fn) if "key" in sc else None)
                if got is not want and not (want is False and isinstance(got, str)):
                    ck.witness(sc.get("key", "C03:file-with-violation-in-include-accepted") if want is False else "C02:valid-file-with-include-rejected",
                               "%s(%s) in a fresh process, default arguments, says %s%s" % (
                                   fn, f, {True: "valid", False: "invalid"}.get(got, got), "; " + sc["about"] if "about" in sc else ""),
                               input={"files": sc["files"], "file": f}, expected=want, observed=got)
        for i, seq in enumerate(r["sequences"]):
            for j, (fn, f, v) in enumerate(seq):
                if fn == "switch":
                    continue
                ck.count(1, nontrivial_key=("file-history", json.dumps(sc["files"][sorted(sc["files"])[0]], sort_keys=True)[:3000], f, i, j))
                ck.tally("file-history-call:" + fn)
                if v != fresh[f][fn]:
                    ck.witness("C03:file-verdict-depends-on-build-time-validation-switch" if any(a == "switch" for a, _, _ in seq[:j])
                               else "C03:file-verdict-depends-on-history",
                               "%s(%s) as call #%d of one process gives %s, in a fresh process %s (calls before it: %s)" % (
                                   {"is_valid": "is_valid_neuroml2", "validate": "validate_neuroml2"}[fn], f, j + 1, v, fresh[f][fn],
                                   ", ".join(("neuroml.%s_build_time_validation()" % b) if a == "switch" else "%s(%s)" % (a, b)
                                             for a, b, _ in seq[:j]) or "none"),
                               input={"files": sc["files"], "calls": [[a, b] for a, b, _ in seq[:j + 1]]},
                               expected=fresh[f][fn], observed=v)
        # the model (C03_file: is_valid f = false <-> validate (load f) true <> []) on what a fresh process loads
        for f, ld in r["loaded"].items():
            if isinstance(ld, dict):
                corr_c.append({"file": f, "files": sc["files"]})
                corr_r.append(ld)
                if (ld["rec"]["raised"] is None) != (fresh[f]["is_valid"] is True):
                    ck.witness("C03:file-wrapper-disagrees-with-validate-of-loaded-document",
                               "is_valid_neuroml2(%s)=%s but validate(recursive=True) of the loaded document %s" % (
                                   f, fresh[f]["is_valid"], ld["rec"]["raised"]), input={"files": sc["files"], "file": f})
    correspondence(ck, corr_c, corr_r, label="Cases_C03_files")


FILE_PATH_RUNTIME = ("find_attr_value_", "_cast", "get_root_tag", "Tag_pattern_", "GDSClassesMapping", "GeneratedsSuper.gds_parse_string",
                     "GeneratedsSuper.gds_parse_integer", "GeneratedsSuper.gds_parse_float", "GeneratedsSuper.gds_parse_double",
                     "GeneratedsSuper.get_class_obj_", "template:build", "template:factory")


def file_path_tie(ck, tab):
    """C03_file reads 'load f' as: every attribute value of the file reaches the member unchanged.  The generateDS runtime
    functions on that path are textually the ones C01's model of the reader was written against (lib/runtime_ref.json)"""
    import os
    from lib.vcommon import VERIF
    ref = json.load(open(os.path.join(VERIF, "lib", "runtime_ref.json")))
    for k in FILE_PATH_RUNTIME:
        if k in ref:
            ck.oblige("runtime:%s is the modelled one (file path of C03_file)" % k, tab["runtime"].get(k) == ref[k],
                      "found: %s" % json.dumps(tab["runtime"].get(k))[:600], kind="instance")


def padded_part(ck, L, G, per):
    """deterministic file-level class: for every string-derived simple type with a pattern or an enumeration, a file the
    real writer wrote whose ONLY violation is white space around one attribute value of that type (space, tab and newline
    as character references, a literal newline), the component at depth 1-3 below the document, own and inherited
    attributes (the inherited id first).  Oracle: libxml2 against the bundled XSD; the wrappers must reject."""
    rng = ck.rng
    root = L.S["root"][1]
    hosts = {}
    for c in L.T.order:
        if c == root:
            continue
        steps = G.steps_to_document(c)
        if steps is None or not 1 <= len(steps) <= 3:
            continue
        for a in L.all_attrs(c):
            st = L.st[a["st"]]
            if st["prim"] != "string" or not (st["patterns"] or st["enums"]) or a["fixed"] is not None:
                continue
            hosts.setdefault(a["st"], {}).setdefault(len(steps), []).append((c, a, steps))
    cases = []
    for stn in sorted(hosts):
        for depth in sorted(hosts[stn]):
            hs = hosts[stn][depth]
            inh = [h for h in hs if h[1]["owner"] != h[0]]
            chosen = [(inh or hs)[0]] + ([h for h in hs if h[1]["owner"] == h[0]][:1] if inh else [])
            chosen += [rng.choice(hs) for _ in range(per)]
            seen = set()
            for c, a, steps in chosen:
                if (c, a["py"]) in seen:
                    continue
                seen.add((c, a["py"]))
                t = G.tree(c, 0)
                kv = [x for x in t["kw"] if x[0] == a["py"]]
                if not kv:
                    kv = [[a["py"], G.good_value(a["st"], a["kind"])]]
                    t["kw"].append(kv[0])
                good = kv[0][1]["s"]
                for _ in range(8):
                    if good and good == good.strip() and all(32 <= ord(ch) < 127 and ch not in "<>&\"'" for ch in good):
                        break
                    good = G.good_value(a["st"], a["kind"])["s"]
                else:
                    continue
                kv[0][1] = {"s": good}
                doc, _ = G.embed(t, steps)
                cases.append({"tree": doc, "tag": steps[0][1]["tag"], "attr": a["xml"], "good": good, "st": stn, "type": c,
                              "member": a["py"], "depth": depth, "inherited": a["owner"] != c})
    ck.extra["padded_attribute_simple_types"] = sorted(hosts)
    res = ck.impl("c03_impl.py", {"mode": "padded", "cases": cases}, timeout=1500)["results"]
    covered = set()
    for cs, r in zip(cases, res):
        if "err" in r:
            ck.tally("padded:skipped:" + r["err"].split(":")[0])
            continue
        if not r.get("base_lx", {}).get("valid") or r.get("base_is_valid") is not True:
            ck.tally("padded:skipped:unpadded-file-not-valid")
            continue
        for v in r["variants"]:
            if v["lx"]["valid"]:
                ck.tally("padded:skipped:libxml2-accepts-the-padded-value")
                continue
            covered.add(cs["st"])
            ck.tally("padded:depth:%d" % cs["depth"])
            ck.tally("padded:" + ("inherited" if cs["inherited"] else "own") + "-attribute")
            ck.count(1, nontrivial_key=("padded", cs["st"], cs["type"], cs["member"], cs["depth"], v["pad"]))
            if v["is_valid"] is True or v["validate"] == "no exception":
                ck.witness("C03:file-with-padded-attribute-value-accepted",
                           "a file whose only violation is white space (%s) around %s/@%s (type %s, %s, depth %d) - libxml2: %s - "
                           "is accepted: is_valid_neuroml2 -> %s, validate_neuroml2 -> %s, validate(recursive=True) of the loaded "
                           "document -> %s; in the file: %s" % (
                               v["pad"], cs["type"], cs["attr"], cs["st"], "inherited" if cs["inherited"] else "own", cs["depth"],
                               (v["lx"]["err"] or "")[:160], v["is_valid"], v["validate"], v["loaded_rec"], v["snippet"]),
                           input={"padded": {k: cs[k] for k in ("tree", "tag", "attr", "good", "st", "type", "member", "depth", "inherited")},
                                  "pad": v["pad"]}, expected=False, observed=v["is_valid"])
    missing = sorted(set(hosts) - covered)
    ck.extra["padded_simple_types_without_a_rejected_variant"] = missing
    ck.oblige("padded-attributes:every-string-derived-simple-type-exercised", len(missing) <= len(hosts) // 10,
              "no padded file rejected by libxml2 for: " + ", ".join(missing), kind="harness")


NUM_FACETS = ("minInclusive", "maxInclusive", "minExclusive", "maxExclusive")
NUM_FORMS = ("int", "numpy.int64", "numpy.float32", "numpy.float16", "numpy.float64", "Decimal", "Fraction")


def number_forms_part(ck, L, G, order, depths):
    """every numeric facet violation (type, member, facet) again with the violating number in another python FORM - int,
    numpy.int64, numpy.float32/16/64, Decimal, Fraction - assigned after construction, at depth 0 and below a parent;
    the case counts when libxml2 rejects the value the writer writes for it; validate(recursive=True) must raise"""
    import math
    tr = [t for t in triples(L, G) if t[2] in NUM_FACETS and t[4][0] == "set" and "f" in t[4][1]]
    ck.extra["numeric_facet_triples"] = len(tr)
    cases = []
    for (c, member, facet, inh, op) in tr:
        x = float(op[1]["f"])
        xi = math.floor(x) if facet.startswith("min") else math.ceil(x)
        for d in depths:
            steps = G.parent_steps(c, d) if d else []
            if steps is None:
                continue
            root, path = G.embed(G.tree(c, 0), steps)
            for form in NUM_FORMS:
                v = repr(float(xi)) if form in ("int", "numpy.int64") else repr(x)
                cases.append({"tree": root, "tag": "probe_" + root["cls"], "doc": root["cls"] == L.S["root"][1], "type": c, "member": member,
                              "facet": facet, "inherited": inh, "depth": d, "form": form,
                              "post": [[path, member, {"num": {"form": form, "v": v}}]]})
    res = []
    for i in range(0, len(cases), 1500):
        res += ck.impl("c03_impl.py", {"order": order, "cases": cases[i:i + 1500], "want": ["rec", "nonrec", "text"]}, timeout=2400)["results"]
    for cs, r in zip(cases, res):
        if "obj_err" in r or "text_err" in r or "lx" not in r:
            ck.tally("number-form:skipped:%s:%s" % (cs["form"], "constructor/assignment raised" if "obj_err" in r else "writer raised"))
            continue
        if not r["lx"]["wellformed"] or r["lx"]["valid"]:
            ck.tally("number-form:skipped:%s:written value accepted by libxml2" % cs["form"])
            continue
        ck.tally("number-form:" + cs["form"])
        ck.tally("number-form:depth:%d" % cs["depth"])
        ck.count(1, nontrivial_key=("number-form", cs["type"], cs["member"], cs["facet"], cs["depth"], cs["form"]))
        if r["rec"]["raised"] is None:
            ck.witness("C03:numeric-facet-violation-accepted-for-number-form:" + cs["form"],
                       "validate(recursive=True) accepts a tree whose %s.%s (depth %d) was assigned %s(%s), violating '%s'; the writer "
                       "writes it and libxml2 rejects the XML: %s" % (cs["type"], cs["member"], cs["depth"], cs["form"],
                                                                      cs["post"][0][2]["num"]["v"], cs["facet"], r["lx"]["err"]),
                       input={k: cs[k] for k in ("tree", "tag", "doc", "type", "member", "facet", "depth", "form", "post")},
                       expected="ValueError", observed="no exception")
        elif r["rec"]["raised"] != "ValueError":
            ck.witness("C03:validate-raises-" + r["rec"]["raised"], "validate(recursive=True) raises %s instead of ValueError for %s.%s = %s(...): %s" % (
                r["rec"]["raised"], cs["type"], cs["member"], cs["form"], r["rec"].get("text")),
                input={k: cs[k] for k in ("tree", "tag", "doc", "type", "member", "facet", "depth", "form", "post")})


CONFIGS = (("python -O", {"pyflags": ["-O"]}),
           ("PYTHONHASHSEED=3, cwd=/", {"extra_env": {"PYTHONHASHSEED": "3"}, "cwd": "/"}))


def interpreter_configuration(ck, prop, script, order, sub, ref, want, keys):
    """the interpreter's configuration is not input: the same deterministic cases through the same impl script under
    `python -O` (asserts stripped) and with another hash seed from another working directory give the same results"""
    for label, kw in CONFIGS:
        try:
            out = ck.impl(script, {"order": order, "cases": sub, "want": want}, timeout=600, **kw)["results"]
        except Exception as e:  # noqa
            ck.oblige("interpreter-configuration:%s:runs" % label, False, repr(e)[:400], kind="harness")
            continue
        for cs, a, b in zip(sub, ref, out):
            ck.tally("interpreter-configuration:" + label)
            ck.count(1)
            diff = [k for k in keys if a.get(k) != b.get(k)]
            if diff:
                ck.witness("%s:interpreter-configuration:%s" % (prop, label.split(",")[0].replace(" ", "")),
                           "under %s the result for the same tree differs from the default interpreter in %s: %s instead of %s" % (
                               label, ", ".join(diff), json.dumps(b.get(diff[0]))[:300], json.dumps(a.get(diff[0]))[:300]),
                           input={k: cs[k] for k in ("tree", "tag", "doc", "type", "post") if k in cs},
                           expected={k: a.get(k) for k in diff[:1]}, observed={k: b.get(k) for k in diff[:1]})


SWITCHES = (["disable"], ["disable", "enable"], ["disable", "enable", "disable"])


def switch_part(ck, order, pc, pres, limit):
    """the verdicts with neuroml.disable_build_time_validation() in force (and after toggling it) are the verdicts with
    the default: a deterministic subset - the first detected violation per (depth, facet, document or component), the
    first accepted conforming-looking cases - evaluated again, file wrappers included"""
    sel, keys = [], set()
    for cs, r in zip(pc, pres):
        if "obj_err" in r or "rec" not in r or "lx" not in r:
            continue
        k = (cs["depth"], cs["facet"], bool(cs.get("doc")), r["rec"]["raised"], r["lx"]["valid"])
        if k in keys:
            continue
        keys.add(k)
        sel.append((cs, r))
    sel.sort(key=lambda x: (x[1]["rec"]["raised"] is None, not x[0].get("doc")))
    sel = sel[:limit]
    cases = [dict(cs, switch=sw) for cs, _ in sel for sw in SWITCHES]
    res = ck.impl("c03_impl.py", {"order": order, "cases": cases, "want": ["rec", "nonrec", "file"]}, timeout=1500)["results"]
    i = 0
    for cs, r0 in sel:
        for sw in SWITCHES:
            r = res[i]
            i += 1
            ck.tally("switch:" + "-".join(sw))
            ck.tally("switch:depth:%d" % cs["depth"])
            ck.count(1, nontrivial_key=("switch", cs["type"], cs["member"], cs["facet"], cs["depth"], "-".join(sw))
                     if r0["rec"]["raised"] == "ValueError" else None)
            diffs = []
            for k, label in (("rec", "validate(recursive=True)"), ("nonrec", "validate()")):
                a, b = r0.get(k, {}), r.get(k, {})
                if k in r0 and (a.get("raised") != b.get("raised") or a.get("msgs") != b.get("msgs")):
                    diffs.append("%s: %s by default, %s with the switch" % (label, a.get("raised") or "accepts", b.get("raised") or "accepts"))
            for k, label in (("file_valid", "is_valid_neuroml2"), ("file_validate", "validate_neuroml2")):
                if k in r0 and r0.get(k) != r.get(k):
                    diffs.append("%s of the written file: %s by default, %s with the switch" % (label, r0.get(k), r.get(k)))
            if diffs:
                how = "; ".join("neuroml.%s_build_time_validation()" % x for x in sw)
                ck.witness("C03:verdict-depends-on-build-time-validation-switch",
                           "after %s (documented to affect component_factory()/add() only) the verdict on a tree whose %s.%s violates "
                           "'%s' at depth %d changes: %s" % (how, cs["type"], cs["member"], cs["facet"], cs["depth"], "; ".join(diffs)),
                           input=dict({k: cs[k] for k in ("tree", "tag", "doc", "type", "member", "facet", "depth") if k in cs}, switch=sw),
                           expected=r0["rec"]["raised"], observed=r.get("rec", {}).get("raised"))


def judge(ck, L, cs, r):
    """the property predicate on one case of the real code"""
    if "obj_err" in r or "text_err" in r or "lx" not in r:
        ck.tally("prop:skipped:" + ("constructor" if "obj_err" in r else "export") + "-raised")
        return
    if not r["lx"]["wellformed"]:
        ck.tally("prop:skipped:not-wellformed")
        return
    if r["lx"]["valid"]:
        ck.tally("prop:skipped:libxml2-accepts (not a violation)")
        return
    if cs.get("twin"):
        ck.tally("prop:twin:" + cs["twin"])
    ck.tally("prop:facet:" + cs["facet"])
    ck.tally("prop:depth:%d" % cs["depth"])
    ck.tally("prop:" + ("inherited" if cs["inherited"] else "own") + "-member")
    ck.count(1, nontrivial_key=(cs["type"], cs["member"], cs["facet"], cs["depth"], cs.get("twin")),
             sample={"type": cs["type"], "member": cs["member"], "facet": cs["facet"], "depth": cs["depth"],
                     "xml": (r.get("text") or "")[-300:], "validate": r["rec"]["raised"]} if len(ck.samples) < 4 else None)
    raised = r["rec"]["raised"]
    key = key_of(cs["facet"], cs["inherited"], cs["depth"], cs["via_inherited"]) or \
        "C03:%s.%s:%s" % (cs["type"], cs["member"], cs["facet"])
    inp = {k: cs[k] for k in ("tree", "tag", "doc", "type", "member", "facet", "depth", "pair") if k in cs}
    if cs.get("twin"):
        key = "C03:violation-beside-a-valid-same-id-twin-not-validated"
        inp["twin"] = cs["twin"]
    if cs.get("types_differ") and not (cs["facet"] in ("integer-range", "fixed") or "choice" in cs["facet"]):
        key = "C03:children-under-%s-not-validated(MemberSpec-type-differs-from-their-class)" % cs["pair"]
    if raised is None:
        ck.witness(key, "validate(recursive=True) accepts a tree whose %s.%s violates '%s' at depth %d; libxml2: %s" % (
            cs["type"], cs["member"], cs["facet"], cs["depth"], r["lx"]["err"]), input=inp,
            expected="ValueError", observed="no exception")
        ck.tally("prop:accepted-invalid")
    elif raised != "ValueError":
        ck.witness("C03:validate-raises-" + raised, "validate(recursive=True) raises %s instead of ValueError: %s" % (
            raised, r["rec"].get("text")), input=inp, expected="ValueError", observed=raised)
    if cs.get("doc") and "file_valid" in r:
        fv = r["file_valid"]
        ck.tally("prop:file:" + str(fv))
        if fv is True and raised == "ValueError":
            ck.witness("C03:file-wrapper-accepts-what-validate-rejects", "is_valid_neuroml2 says True for the written file",
                       input=inp, expected=False, observed=True)
        elif fv is True and raised is None:
            pass   # same defect as above, already reported under its structural key
def run(ck):
    ck.rule = ("(a) model vs real validate(), recursive and not: for each of the 199 classes conforming trees, trees with "
               "1-3 violated facets at random depths and trees with members of a wrong python type; the collected messages "
               "(class, kind, member) are compared in order inside Coq.  (b) property: every (type, member, facet) triple "
               "of the schema x depth 0-3 x own/inherited member inside otherwise conforming parents; the case counts when "
               "libxml2 rejects the written XML; non-trivial = such a case, distinct by (type, member, facet, depth)")
    ck.trusted = ["Coq 8.16.1 kernel + vm_compute", "translators/tr_bindings.py, translators/tr_schema.py (fail closed)",
                  "libxml2 (lxml.etree.XMLSchema) as the oracle for 'violates the schema'",
                  "Python re on the generated ^(...)$ patterns = regular-language full match (exercised with samples)"]
    ck.gate_static()
    tab = bindings.translate(ck)
    if tab is None:
        return
    schemagen.runtime_tie(ck, tab)
    file_path_tie(ck, tab)
    mode = schemagen.validate_mode(ck, switch_obligation=True)
    ck.extra["validate_recursion_variant"] = mode
    if not schemagen.gen_validate(ck, tab, mode):
        return
    S = schemagen.translate_schema(ck)
    if S is None:
        return
    T = bindings.Tables(tab)
    L = schemagen.Link(S, T)
    ck.oblige("link:schema-items-have-binding-members", not L.problems, "; ".join(L.problems[:10]), kind="instance")
    G = schemagen.SchemaGen(L, ck.rng)
    order = {c: T.field_order(c) for c in T.order}
    if not schemagen.gen_schema(ck, S) or not bindings.gen_bindings(ck, tab):
        return
    # ---- stored witnesses first (known findings are re-demonstrated on every run)
    stored = [dict(w, key=k, what=what) for k, w, what in STORED]
    sres = ck.impl("c03_impl.py", {"order": order, "cases": stored, "want": ["rec", "nonrec", "text", "file"]}, timeout=600)["results"]
    for w, r in zip(stored, sres):
        ck.tally("stored-witness")
        lxv = r.get("lx", {}).get("valid")
        ck.count(1, nontrivial_key=("stored", w["key"]))
        if lxv is False and r["rec"]["raised"] is None:
            ck.witness(w["key"], w["what"], input={k: w[k] for k in ("tree", "tag", "doc") if k in w},
                       expected="ValueError (libxml2: %s)" % r["lx"]["err"], observed="no exception")
        ck.extra.setdefault("stored_witness_outcomes", {})[w["key"]] = {
            "libxml2_valid": lxv, "validate_raised": r["rec"]["raised"], "is_valid_neuroml2": r.get("file_valid")}
    # ---- instance obligations and the theorems
    inst = ck.gen_v("Inst_C03.v", inst_text(L))
    iok, iout = ck.compile_obligations(inst, kind="instance")
    if iok:
        ck.compile_props()
    else:
        ck.oblige("Props_C03.v", False, "instance obligations failed", kind="theorem")
    ck.extra["unchecked_by_generated_code"] = ["%s.%s:%s" % x for x in expected_unchecked(L)]
    # ---- model vs real validate
    cases = correspondence_cases(ck, L, G, ck.n(3, 9))
    cases += [dict(w, kind="stored") for w in stored]
    res = ck.impl("c03_impl.py", {"order": order, "cases": cases, "want": ["rec", "nonrec"]}, timeout=1500)["results"]
    for c, r in zip(cases, res):
        ck.tally("corr:" + c["kind"])
        if "obj_err" in r:
            ck.tally("corr:constructor-raised")
    correspondence(ck, cases, res)
    # ---- the property itself on the real code
    focus = set()
    if not iok:
        dg = diagnose(ck, L)
        ck.extra["agreement_diagnosis"] = dg
        if dg:
            # a member that lost its exact test, in the class that declares it and in every class that inherits it
            for c, m, _ in dg["unchecked_extra"]:
                for sub in [c] + descendants(L, c):
                    focus.add((sub, m))
            focus.update(dg["disagree_val"])
    if ck.tier == "thorough":
        pc = property_cases(ck, L, G, depths=(0, 1, 2, 3), per=ck.n(1, 2), limit=None)
        ck.extra["exhaustive_over_triples_x_depths"] = True
    else:
        pc = property_cases(ck, L, G, depths=(0, 1, 2, 3), per=1, limit=420, focus=focus)
    pairs, differ, uncovered = pair_cases(ck, L, G)
    ck.extra["memberspec_type_differs_from_builder_class"] = differ
    ck.extra["pairs_without_a_checked_facet_in_the_child"] = uncovered
    pc = pairs + pc
    pres = []
    for i in range(0, len(pc), 1500):
        pres += ck.impl("c03_impl.py", {"order": order, "cases": pc[i:i + 1500], "want": ["rec", "nonrec", "text", "file"]},
                        timeout=2400)["results"]
    nw = len(ck.witnesses)
    missed = []
    for cs, r in zip(pc, pres):
        n0 = len(ck.witnesses)
        judge(ck, L, cs, r)
        if "pair" in cs and len(ck.witnesses) > n0 and r.get("rec", {}).get("raised") is None:
            missed.append(cs["pair"])
    ck.extra["property_cases_generated"] = len(pc)
    ck.extra["parent_member_pairs_exercised"] = len(set(cs["pair"] for cs in pairs))
    # the recursion reaches the children held by every (parent class, child member) pair (complete over the pairs)
    ck.oblige("recursion:reaches-the-children-of-every-(parent, member)-pair", not missed,
              "violating child not seen under: " + ", ".join(sorted(set(missed))[:12]), kind="instance")
    sub = [(c, r) for c, r in zip(pc, pres) if c.get("doc")][:6] + list(zip(pc, pres))[:10]
    interpreter_configuration(ck, "C03", "c03_impl.py", order, [c for c, _ in sub] + stored, [r for _, r in sub] + sres,
                              ["rec", "nonrec", "text", "file"], ("rec", "nonrec", "text", "lx", "file_valid", "file_validate", "obj_err", "text_err"))
    number_forms_part(ck, L, G, order, (0, 1) if ck.tier != "thorough" else (0, 1, 2))
    switch_part(ck, order, pc, pres, ck.n(90, 600))
    padded_part(ck, L, G, ck.n(0, 3))
    file_history_part(ck, L, G, order, ck.n(1, 8))
    # the violated trees are correspondence cases as well (a seeded part of them in the quick tier)
    sub = list(zip(pc, pres))
    if ck.tier != "thorough":
        sub = sub[:240]
    correspondence(ck, [c for c, _ in sub], [r for _, r in sub], label="Cases_C03_prop")


def replay(ck, data):
    """re-run a stored failing input on the implementation (and print what libxml2 says about the written XML)"""
    inp = data.get("input") or {}
    tab = bindings.translate(ck)
    T = bindings.Tables(tab)
    order = {c: T.field_order(c) for c in T.order}
    if "files" in inp and "calls" in inp:
        r = ck.impl("c03_impl.py", {"mode": "filehistory", "order": order,
                                    "scenarios": [{"files": inp["files"], "sequences": [inp["calls"]]}]})["results"][0]
        seq = r.get("sequences", [[]])[0]
        fresh = r.get("fresh", {})
        rows = [{"call": "%s(%s)" % (fn, f), "in this sequence": v, "in a fresh process": fresh.get(f, {}).get(fn)} for fn, f, v in seq]
        print(json.dumps({"stored": {k: data.get(k) for k in ("key", "what")}, "now": rows, "error": r.get("err")}, indent=1)[:6000])
        return 1 if any(x["in this sequence"] != x["in a fresh process"] for x in rows) else 0
    if "padded" in inp:
        r = ck.impl("c03_impl.py", {"mode": "padded", "cases": [inp["padded"]]})["results"][0]
        rows = [{"pad": v["pad"], "libxml2": v["lx"], "is_valid_neuroml2": v["is_valid"], "validate_neuroml2": v["validate"],
                 "validate(recursive=True) of the loaded document": v["loaded_rec"], "in the file": v["snippet"]} for v in r.get("variants", [])]
        print(json.dumps({"stored": {k: data.get(k) for k in ("key", "what")}, "now": rows, "error": r.get("err")}, indent=1)[:6000])
        return 1 if any(not x["libxml2"]["valid"] and (x["is_valid_neuroml2"] is True or x["validate_neuroml2"] == "no exception") for x in rows) else 0
    if "switch" in inp:
        r0, r = ck.impl("c03_impl.py", {"order": order, "cases": [dict(inp, switch=[]), inp], "want": ["rec", "nonrec", "file"]})["results"]
        rows = {k: {"default switch": (r0.get(k) or {}).get("raised") if isinstance(r0.get(k), dict) else r0.get(k),
                    "after " + ", ".join(inp["switch"]): (r.get(k) or {}).get("raised") if isinstance(r.get(k), dict) else r.get(k)}
                for k in ("rec", "nonrec", "file_valid", "file_validate") if k in r0}
        print(json.dumps({"stored": {k: data.get(k) for k in ("key", "what")}, "now": rows}, indent=1)[:6000])
        return 1 if any(len(set(json.dumps(x) for x in v.values())) > 1 for v in rows.values()) else 0
    if "files" in inp and "file" in inp:
        r = ck.impl("c03_impl.py", {"mode": "filehistory", "order": order, "scenarios": [{"files": inp["files"], "sequences": []}]})["results"][0]
        now = r.get("fresh", {}).get(inp["file"])
        ld = r.get("loaded", {}).get(inp["file"])
        print(json.dumps({"stored": {k: data.get(k) for k in ("key", "what", "expected", "observed")}, "file": inp["file"],
                          "now (fresh process, default arguments)": now,
                          "validate(recursive=True) of the loaded document": ld.get("rec") if isinstance(ld, dict) else ld,
                          "all files": {f: v for f, v in r.get("fresh", {}).items()}, "error": r.get("err")}, indent=1)[:6000])
        return 1 if not now or now.get("is_valid") is not data.get("expected") else 0
    r = ck.impl("c03_impl.py", {"order": order, "cases": [inp], "want": ["rec", "nonrec", "text", "file"]})["results"][0]
    model = None
    try:     # the model on the same tree (tables regenerated from the tree under test)
        mode = schemagen.validate_mode(ck)
        if "obj" in r and usable(dict(r, nonrec=r.get("nonrec", {"raised": None, "msgs": []}))) and schemagen.gen_validate(ck, tab, mode):
            ok, res, _ = ck.coq_eval("Replay_C03.v", HEADER + "Eval vm_compute in (x_validate Gen_Validate.V %s true).\n" % gdsgen.cobj(r["obj"]))
            model = res[0] if ok and res else None
    except Exception as e:  # noqa
        model = "model evaluation failed: %r" % e
    out = {"stored": {k: data.get(k) for k in ("key", "what", "expected", "observed")},
           "now": {"validate(recursive=True)": r.get("rec"), "libxml2": r.get("lx"), "is_valid_neuroml2": r.get("file_valid"),
                   "model Validate.validate (messages)": model, "xml": (r.get("text") or "")[:1500]}}
    print(json.dumps(out, indent=1)[:6000])
    bad = r.get("lx", {}).get("valid") is False and r.get("rec", {}).get("raised") is None
    return 1 if bad else 0
