"""C03 - a schema violation anywhere in a tree makes validate(recursive=True) fail.  See design_notes/C03.md"""
import json
import re
from concurrent.futures import ThreadPoolExecutor

from lib import bindings, gdsgen, schemagen
from lib.vcommon import coq_list, coq_str

HEADER = ("From Coq Require Import String List ZArith Bool.\n"
          "From LNML Require Import Lib.Dec Lib.Regex Model.Gds Model.Validate.\n"
          "From Run Require Import Gen_Validate.\nImport ListNotations.\nOpen Scope string_scope.\n")


# ----------------------------------------------------------------------------- model vs real validate()
def usable(r):
    if "obj" not in r or "rec" not in r or "nonrec" not in r:
        return False
    if gdsgen.has_bad_float(r["obj"]):
        return False
    if '"raw": ["' in json.dumps(r["obj"]):
        return False
    for k in ("rec", "nonrec"):
        if r[k]["raised"] not in (None, "ValueError"):
            return False
        if any(schemagen.cmsg(m) is None for m in r[k]["msgs"]):
            return False
    return True


def vcase(r):
    return "{| vc_obj := %s;\n   vc_rec := %s;\n   vc_nonrec := %s |}" % (
        gdsgen.cobj(r["obj"]), coq_list([schemagen.cmsg(m) for m in r["rec"]["msgs"]]),
        coq_list([schemagen.cmsg(m) for m in r["nonrec"]["msgs"]]))


def correspondence(ck, cases, results, label="Cases_C03", shard=80):
    """diff inside Coq: the messages of the model's validate vs the ones the real validate collected"""
    us = [(c, r) for c, r in zip(cases, results) if usable(r)]
    files = []
    for i in range(0, len(us), shard):
        chunk = us[i:i + shard]
        text = HEADER + "Definition cases : list vcase := %s.\n" % coq_list(["\n " + vcase(r) for _, r in chunk]) + \
            "Eval vm_compute in (vmismatches Gen_Validate.V 0 cases).\n"
        files.append((i // shard, chunk, text))
    with ThreadPoolExecutor(max_workers=8) as ex:
        evals = list(ex.map(lambda f: ck.coq_eval("%s_%d.v" % (label, f[0]), f[2], timeout=900), files))
    for (i, chunk, _), (ok, res, out) in zip(files, evals):
        ck.oblige("%s_%d.v:evaluates" % (label, i), ok, out[-1500:], kind="correspondence")
        if not ok:
            continue
        for m in re.finditer(r"\((\d+)%nat, (\d+)%nat\)", res[0] if res else ""):
            case, r = chunk[int(m.group(1))]
            bits = int(m.group(2))
            ck.disagree("Validate.validate(%s)" % "+".join(n for b, n in ((1, "recursive"), (2, "non-recursive")) if bits & b),
                        case, "model collects other messages (bits %d)" % bits,
                        {"rec": r["rec"]["msgs"], "nonrec": r["nonrec"]["msgs"]})
    ck.extra["validate_correspondence_cases"] = ck.extra.get("validate_correspondence_cases", 0) + len(us)
    for c, r in zip(cases, results):
        for k in ("rec", "nonrec"):
            if k in r and r[k]["raised"] not in (None, "ValueError"):
                ck.tally("validate-raised-" + str(r[k]["raised"]))
    return us


def junk_leaf(rng):
    return rng.choice([{"i": 5}, {"s": "x y"}, {"f": "0.5"}, {"s": ""}, {"i": -1}, {"f": "-2.0"}, {"s": "12"}, {"s": "1e"}])


def correspondence_cases(ck, L, G, per_class):
    """conforming trees, trees with one or several facets violated at various depths, members of a wrong python type"""
    rng = ck.rng
    cases = []
    for c in L.T.order:
        for j in range(per_class):
            t = G.tree(c, rng.choice([1, 2, 2, 3]), rich=(j == 0))
            kind = "valid"
            if j % 3 == 1:
                kind = "mutated"
                mutate(L, G, t, rng, rng.choice([1, 1, 2, 3]))
            elif j % 3 == 2:
                kind = "junk"
                for _ in range(rng.choice([1, 2])):
                    tt = rng.choice(all_nodes(t))
                    leafs = [kv for kv in tt["kw"] if kv[1] is None or not ("o" in kv[1] or "l" in kv[1])]
                    if leafs:
                        rng.choice(leafs)[1] = junk_leaf(rng)
            cases.append({"tree": t, "tag": "probe_" + c, "kind": kind})
    return cases


def all_nodes(t):
    out = [t]
    for _, v in t["kw"]:
        if v is None:
            continue
        if "o" in v:
            out += all_nodes(v["o"])
        elif "l" in v:
            for x in v["l"]:
                out += all_nodes(x)
    return out


def mutate(L, G, t, rng, n):
    """violate n randomly chosen facets somewhere in the tree (in place)"""
    for _ in range(n):
        node = rng.choice(all_nodes(t))
        c = node["cls"]
        opts = []
        for a in L.all_attrs(c):
            if a["required"]:
                opts.append(("drop", a["py"], None))
            for lab, leaf in G.bad_values(a["st"]):
                opts.append(("set", a["py"], leaf))
        for e in L.all_elems(c):
            if e["lo"] >= 1:
                opts.append(("drop", e["py"], None))
        if not opts:
            continue
        op, py, leaf = rng.choice(opts)
        node["kw"] = [kv for kv in node["kw"] if kv[0] != py]
        if op == "set":
            node["kw"].append([py, leaf])


def run(ck):
    ck.rule = ("(a) model vs real validate(), recursive and not: for each of the 199 classes conforming trees, trees with "
               "1-3 violated facets at random depths and trees with members of a wrong python type; the collected messages "
               "(class, kind, member) are compared in order inside Coq.  (b) property: every (type, member, facet) triple "
               "of the schema x depth 0-3 x own/inherited member inside otherwise conforming parents; the case counts when "
               "libxml2 rejects the written XML; non-trivial = such a case, distinct by (type, member, facet, depth)")
    ck.trusted = ["Coq 8.16.1 kernel + vm_compute", "translators/tr_bindings.py, translators/tr_schema.py (fail closed)",
                  "libxml2 (lxml.etree.XMLSchema) as the oracle for 'violates the schema'",
                  "Python re on the generated ^(...)$ patterns = regular-language full match (exercised with samples)"]
    ck.gate_static()
    tab = bindings.translate(ck)
    if tab is None:
        return
    schemagen.runtime_tie(ck, tab)
    mode = schemagen.validate_mode(ck)
    ck.extra["validate_recursion_variant"] = mode
    if not schemagen.gen_validate(ck, tab, mode):
        return
    S = schemagen.translate_schema(ck)
    if S is None:
        return
    T = bindings.Tables(tab)
    L = schemagen.Link(S, T)
    ck.oblige("link:schema-items-have-binding-members", not L.problems, "; ".join(L.problems[:10]), kind="instance")
    G = schemagen.SchemaGen(L, ck.rng)
    order = {c: T.field_order(c) for c in T.order}
    cases = correspondence_cases(ck, L, G, ck.n(3, 9))
    res = ck.impl("c03_impl.py", {"order": order, "cases": cases, "want": ["rec", "nonrec"]}, timeout=1500)["results"]
    for c, r in zip(cases, res):
        ck.tally("corr:" + c["kind"])
        if "obj_err" in r:
            ck.tally("corr:constructor-raised")
    correspondence(ck, cases, res)
