"""C01 — XML write -> read returns the same component tree, for every component type.  See design_notes/C01.md"""
import json

from lib import bindings, gdsgen
from lib.vcommon import coq_list, coq_str

HEADER = ("From Coq Require Import String List ZArith Bool.\nFrom LNML Require Import Lib.Dec Model.Gds Model.GdsExec.\n"
          "From Run Require Import Gen_Bindings.\nImport ListNotations.\nOpen Scope string_scope.\n")


def case_to_coq(tree, tag, r):
    obj = r["obj"]
    fields = dict((n, v) for n, v in obj["fields"])
    args = []
    for n, v in tree["kw"]:
        if v is not None and ("o" in v or "l" in v):
            args.append("(%s, %s)" % (coq_str(n), gdsgen.cval(fields[n])))
        else:
            args.append("(%s, %s)" % (coq_str(n), gdsgen.cval(v)))
    return ("{| g_tag := %s; g_args := %s;\n   g_obj := %s;\n   g_xml := %s;\n   g_back := %s |}" % (
        coq_str(tag), coq_list(args), gdsgen.cobj(obj),
        "(Some %s)" % gdsgen.cxml(r["xml"]) if "xml" in r else "None",
        "(Some %s)" % gdsgen.cobj(r["back"]) if "back" in r else "None"))


def run_correspondence(ck, tab, T, per_class, depth, label="Cases_C01"):
    gen = gdsgen.Gen(T, ck.rng)
    order = {c: T.field_order(c) for c in T.order}
    cases = []
    for c in T.order:
        for j in range(per_class):
            cases.append({"tag": "probe", "tree": gen.tree(c, depth if j else min(depth, 2), full=(j == 0))})
    res = ck.impl("gds_impl.py", {"order": order, "cases": cases}, timeout=1200)["results"]
    usable = []
    for case, r in zip(cases, res):
        c = case["tree"]["cls"]
        ck.tally("class:" + ("leaf" if not T.exp_kids(c) else "with-children"))
        if "obj_err" in r:
            ck.disagree("Gds.init_fields", case, "constructor expected to succeed", r["obj_err"])
            continue
        # ---- the property itself on the real code: write -> read gives the same tree
        nontrivial = sum(1 for _, v in r["obj"]["fields"] if v is not None and v != {"l": []})
        ck.count(1, nontrivial_key=json.dumps(r["obj"], sort_keys=True) if nontrivial >= 2 else None,
                 sample={"class": c, "xml": (r.get("text") or "")[:300]} if len(ck.samples) < 3 and nontrivial >= 3 else None)
        if "xml_err" in r or "back_err" in r:
            ck.witness("C01:%s:export-or-load-raises" % c, "round trip raises: %s" % (r.get("xml_err") or r.get("back_err")),
                       input=case, observed=r.get("xml_err") or r.get("back_err"))
        elif r["back"] != r["obj"]:
            diff = [(a[0], a[1], b[1]) for a, b in zip(r["obj"]["fields"], r["back"]["fields"]) if a != b][:3]
            ck.witness("C01:%s:%s" % (c, ",".join(d[0] for d in diff) or "fields"),
                       "XML write->read changes the tree of a %s: %s" % (c, json.dumps(diff)[:300]),
                       input=case, expected=r["obj"], observed=r["back"])
        if not r.get("obj_after", True) or not r.get("text_again", True):
            ck.witness("C04:%s:export-not-pure" % c, "export modified the object or wrote different text the second time", input=case)
        if gdsgen.has_bad_float(r):
            ck.tally("skipped:float-outside-decimal-instance")
            continue
        usable.append((case, r))
    # ---- model vs implementation, diffed inside Coq
    shard = 60
    files = []
    for i in range(0, len(usable), shard):
        chunk = usable[i:i + shard]
        text = HEADER + "Definition cases : list gcase := %s.\n" % coq_list(
            ["\n " + case_to_coq(c["tree"], c["tag"], r) for c, r in chunk]) + \
            "Eval vm_compute in (mismatches Gen_Bindings.T 40 0 cases).\n"
        files.append((i, chunk, text))
    from concurrent.futures import ThreadPoolExecutor
    with ThreadPoolExecutor(max_workers=8) as ex:
        evals = list(ex.map(lambda f: ck.coq_eval("%s_%d.v" % (label, f[0] // shard), f[2], timeout=900), files))
    for (i, chunk, text), (ok, results, out) in zip(files, evals):
        ck.oblige("%s_%d.v:evaluates" % (label, i // shard), ok, out[-1500:], kind="correspondence")
        if not ok:
            continue
        import re
        for m in re.finditer(r"\((\d+)%nat, (\d+)%nat\)", results[0] if results else ""):
            idx, bits = int(m.group(1)), int(m.group(2))
            case, r = chunk[idx]
            which = [n for b, n in ((1, "constructor"), (2, "export"), (4, "build")) if bits & b]
            ck.disagree("Gds." + "+".join(which), case, "model differs (bits %d)" % bits,
                        {k: r.get(k) for k in ("obj", "xml", "back") if k in r})
    ck.extra["correspondence_cases"] = len(usable)
    return usable


def run(ck):
    ck.rule = ("for each of the 199 binding classes: one object with every own and inherited member populated plus random "
               "typed objects (members omitted/None/default, lists of 0-3, nested to the tier's depth, strings over a "
               "special-character alphabet, dyadic floats); each is constructed, exported, parsed by lxml and rebuilt by the "
               "REAL code and the same three steps are evaluated by the Coq model and diffed inside Coq; non-trivial = at "
               "least two populated members, distinct by the dumped tree")
    ck.trusted = ["Coq 8.16.1 kernel + vm_compute", "translators/tr_bindings.py (fail-closed template matcher over ast.unparse)",
                  "lxml text<->infoset", "CPython float formatting/parsing (Section hypotheses, exercised with dyadic values)"]
    ck.gate_static()
    tab = bindings.translate(ck)
    if tab is None:
        return
    if not bindings.gen_bindings(ck, tab):
        return
    T = bindings.Tables(tab)
    run_correspondence(ck, tab, T, per_class=ck.n(3, 12), depth=ck.n(2, 4))
