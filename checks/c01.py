"""C01 — XML write -> read returns the same component tree, for every component type.  See design_notes/C01.md"""
import json

from lib import bindings, gdsgen
from lib.vcommon import coq_list, coq_str

HEADER = ("From Coq Require Import String List ZArith Bool.\nFrom LNML Require Import Lib.Dec Model.Gds Model.GdsExec.\n"
          "From Run Require Import Gen_Bindings.\nImport ListNotations.\nOpen Scope string_scope.\n")


def first_diff(a, b):
    """innermost position where two dumped trees differ -> (class, member, kind)"""
    if a is None or b is None or a.get("cls") != b.get("cls"):
        return (a or {}).get("cls"), "", "class"
    for (n1, v1), (n2, v2) in zip(a["fields"], b["fields"]):
        if n1 != n2:
            return a["cls"], n1, "field-set"
        if v1 == v2:
            continue
        if isinstance(v1, dict) and isinstance(v2, dict):
            if "o" in v1 and "o" in v2:
                if v1["o"]["cls"] != v2["o"]["cls"]:
                    return a["cls"], n1, "child-class"
                return first_diff(v1["o"], v2["o"])
            if "l" in v1 and "l" in v2 and len(v1["l"]) == len(v2["l"]):
                for x, y in zip(v1["l"], v2["l"]):
                    if x != y:
                        if x["cls"] != y["cls"]:
                            return a["cls"], n1, "child-class"
                        return first_diff(x, y)
        return a["cls"], n1, "value"
    return a["cls"], "", "length"


def diff_key(prop, a, b):
    c, m, kind = first_diff(a, b)
    if kind == "child-class":
        return "%s:%s:child-class-vs-memberspec:%s" % (prop, c, m)
    return "%s:%s:%s" % (prop, c, m)


def case_to_coq(tree, tag, r):
    obj = r["obj"]
    fields = dict((n, v) for n, v in obj["fields"])
    args = []
    for n, v in tree["kw"]:
        if v is not None and ("o" in v or "l" in v):
            args.append("(%s, %s)" % (coq_str(n), gdsgen.cval(fields[n])))
        else:
            args.append("(%s, %s)" % (coq_str(n), gdsgen.cval(v)))
    return ("{| g_tag := %s; g_args := %s;\n   g_obj := %s;\n   g_xml := %s;\n   g_back := %s |}" % (
        coq_str(tag), coq_list(args), gdsgen.cobj(obj),
        "(Some %s)" % gdsgen.cxml(r["xml"]) if "xml" in r else "None",
        "(Some %s)" % gdsgen.cobj(r["back"]) if "back" in r else "None"))


def run_correspondence(ck, tab, T, per_class, depth, label="Cases_C01"):
    gen = gdsgen.Gen(T, ck.rng)
    order = {c: T.field_order(c) for c in T.order}
    cases = []
    for c in T.order:
        for j in range(per_class):
            cases.append({"tag": "probe", "tree": gen.tree(c, depth if j else min(depth, 2), full=(j == 0))})
    out = ck.try_impl("gds_impl.py", {"order": order, "cases": cases}, timeout=900, label="all-classes")
    res = out["results"] if out else []
    usable = []
    for case, r in zip(cases, res):
        c = case["tree"]["cls"]
        ck.tally("class:" + ("leaf" if not T.exp_kids(c) else "with-children"))
        if "obj_err" in r:
            ck.disagree("Gds.init_fields", case, "constructor expected to succeed", r["obj_err"])
            continue
        # ---- the property itself on the real code: write -> read gives the same tree
        nontrivial = sum(1 for _, v in r["obj"]["fields"] if v is not None and v != {"l": []})
        ck.count(1, nontrivial_key=json.dumps(r["obj"], sort_keys=True) if nontrivial >= 2 else None,
                 sample={"class": c, "xml": (r.get("text") or "")[:300]} if len(ck.samples) < 3 and nontrivial >= 3 else None)
        if "xml_err" in r or "back_err" in r:
            ck.witness("C01:%s:export-or-load-raises" % c, "round trip raises: %s" % (r.get("xml_err") or r.get("back_err")),
                       input=case, observed=r.get("xml_err") or r.get("back_err"))
        elif r["back"] != r["obj"]:
            diff = [(a[0], a[1], b[1]) for a, b in zip(r["obj"]["fields"], r["back"]["fields"]) if a != b][:3]
            ck.witness(diff_key("C01", r["obj"], r["back"]),
                       "XML write->read changes the tree of a %s: %s" % (c, json.dumps(diff)[:300]),
                       input=case, expected=r["obj"], observed=r["back"])
        if not r.get("obj_after", True) or not r.get("text_again", True):
            ck.witness("C04:%s:export-not-pure" % c, "export modified the object or wrote different text the second time", input=case)
        if gdsgen.has_bad_float(r):
            ck.tally("skipped:float-outside-decimal-instance")
            continue
        usable.append((case, r))
    # ---- model vs implementation, diffed inside Coq
    shard = 60
    files = []
    for i in range(0, len(usable), shard):
        chunk = usable[i:i + shard]
        text = HEADER + "Definition cases : list gcase := %s.\n" % coq_list(
            ["\n " + case_to_coq(c["tree"], c["tag"], r) for c, r in chunk]) + \
            "Eval vm_compute in (mismatches Gen_Bindings.T 40 0 cases).\nEval vm_compute in (typed_count Gen_Bindings.T 40 cases).\n"
        files.append((i, chunk, text))
    from concurrent.futures import ThreadPoolExecutor
    with ThreadPoolExecutor(max_workers=8) as ex:
        evals = list(ex.map(lambda f: ck.coq_eval("%s_%d.v" % (label, f[0] // shard), f[2], timeout=900), files))
    for (i, chunk, text), (ok, results, out) in zip(files, evals):
        ck.oblige("%s_%d.v:evaluates" % (label, i // shard), ok, out[-1500:], kind="correspondence")
        if not ok:
            continue
        import re
        for m in re.finditer(r"\((\d+)%nat, (\d+)%nat\)", results[0] if results else ""):
            idx, bits = int(m.group(1)), int(m.group(2))
            case, r = chunk[idx]
            which = [n for b, n in ((1, "constructor"), (2, "export"), (4, "build")) if bits & b]
            ck.disagree("Gds." + "+".join(which), case, "model differs (bits %d)" % bits,
                        {k: r.get(k) for k in ("obj", "xml", "back") if k in r})
        if len(results) > 1:
            mt = re.search(r"(\d+)", results[1])
            ck.extra["cases_in_theorem_domain_typed"] = ck.extra.get("cases_in_theorem_domain_typed", 0) + (int(mt.group(1)) if mt else 0)
    ck.extra["correspondence_cases"] = len(usable)
    return usable


def run_documents(ck, T, n, depth, prop="C01"):
    """whole documents through the real NeuroMLWriter.write / NeuroMLLoader.load, three cycles"""
    gen = gdsgen.Gen(T, ck.rng)
    order = {c: T.field_order(c) for c in T.order}
    cases = [{"tag": "neuroml", "tree": gen.tree("NeuroMLDocument", depth, full=(j == 0))} for j in range(n)]
    # fixed documents that run on every run: non-ASCII printable text (outside the Coq string model, inside the property),
    # <include> children that a plain read must keep, every special character at once
    cases += [
        {"tag": "neuroml", "fixed": "non-ascii", "tree": {"cls": "NeuroMLDocument", "kw": [
            ["id", {"s": "unicode_doc"}], ["notes", {"s": "10 \u00b5m \u2013 caf\u00e9 \u20ac \U0001d6fc \u00df"}],
            ["properties", {"l": [{"cls": "Property", "kw": [["tag", {"s": "\u00b5"}], ["value", {"s": "\u00e9\u20ac<&>\"'"}]]}]}]]}},
        {"tag": "neuroml", "fixed": "includes-kept", "tree": {"cls": "NeuroMLDocument", "kw": [
            ["id", {"s": "with_includes"}],
            ["includes", {"l": [{"cls": "IncludeType", "kw": [["href", {"s": "not_there_a.nml"}]]},
                                {"cls": "IncludeType", "kw": [["href", {"s": "sub/not_there_b.nml"}]]}]}],
            ["iaf_cells", {"l": [{"cls": "IafCell", "kw": [["id", {"s": "c0"}], ["leak_reversal", {"s": "-50mV"}], ["thresh", {"s": "-55mV"}],
                                                           ["reset", {"s": "-70mV"}], ["C", {"s": "0.2nF"}], ["leak_conductance", {"s": "0.01uS"}]]}]}]]}},
        {"tag": "neuroml", "fixed": "specials", "tree": {"cls": "NeuroMLDocument", "kw": [
            ["id", {"s": "specials"}], ["notes", {"s": "a < b && c > d \"q\" 'a' ]]> \n second line &amp; &lt;"}],
            ["properties", {"l": [{"cls": "Property", "kw": [["tag", {"s": "5' 11\""}], ["value", {"s": "x\ny & <z> ]]>"}]]}]}]]}},
    ]
    # the interpreter's configuration is not input: the same documents under `python -O` (asserts stripped), with another hash
    # seed (set/dict iteration order) from another working directory, and in a non-UTF-8 locale must give the same bytes and the
    # same documents (the four runs execute side by side)
    sub = cases[:10] + cases[-3:]
    configs = (("python -O", {"pyflags": ["-O"]}),
               ("PYTHONHASHSEED=3, cwd=/", {"extra_env": {"PYTHONHASHSEED": "3"}, "cwd": "/"}),
               ("LC_ALL=C without UTF-8 mode", {"extra_env": {"LC_ALL": "C", "LANG": "C", "PYTHONUTF8": "0", "PYTHONCOERCECLOCALE": "0",
                                                              "PYTHONIOENCODING": "utf-8"}}))
    from concurrent.futures import ThreadPoolExecutor
    with ThreadPoolExecutor(max_workers=4) as ex:
        fmain = ex.submit(ck.try_impl, "gds_impl.py", {"mode": "document", "order": order, "cases": cases},
                          timeout=ck.n(900, 3600), label="documents")
        fcfg = [(label, ex.submit(ck.try_impl, "gds_impl.py", {"mode": "document", "order": order, "cases": sub}, timeout=900,
                                  label="documents[%s]" % label, **kw)) for label, kw in configs]
        out = fmain.result()
        cfg_out = [(label, f.result()) for label, f in fcfg]
    res = out["results"] if out else []
    if res:
        ref = res[:10] + res[-3:]
        for label, o2 in cfg_out:
            for case, a, b in zip(sub, ref, (o2 or {}).get("results", [])):
                ck.tally("document-other-interpreter-configuration")
                if label.startswith("LC_ALL=C"):
                    # known finding: _read_neuroml2 calls os.path.realpath() on the XML TEXT of a string load before it
                    # notices that it is not a file name; with an ASCII file-system encoding that raises for non-ASCII text
                    kf = [m for m in b.get("entry_mismatch", []) if m.startswith("loader:read_neuroml2_string") and "UnicodeEncodeError" in m]
                    if kf:
                        ck.witness("%s:read_neuroml2_string:non-ascii-text-under-ascii-filesystem-encoding" % prop, kf[0], input=case)
                        b = dict(b, entry_mismatch=[m for m in b.get("entry_mismatch", []) if m not in kf])
                keys = [k for k in ("text0", "back0", "back2", "entry_mismatch", "err", "bytes_stable") if a.get(k) != b.get(k)]
                if keys:
                    ck.witness("%s:interpreter-configuration:%s:%s" % (prop, label.split(",")[0].replace(" ", ""), keys[0]),
                               "under %s the written bytes / the document read back differ from the default interpreter in %s" % (label, ",".join(keys)),
                               input=case, expected={k: a.get(k) for k in keys[:1]}, observed={k: b.get(k) for k in keys[:1]})
    for case, r in zip(cases, res):
        ck.tally("document")
        size = len(json.dumps(r.get("obj", "")))
        ck.count(1, nontrivial_key=json.dumps(r.get("obj"), sort_keys=True) if size > 400 else None,
                 sample={"document_xml": r.get("text0", "")[:400]} if len(ck.samples) < 4 else None)
        if "err" in r:
            ck.witness(prop + ":document:write-or-load-raises", "writer/loader raised on a generated document: " + r["err"][:300],
                       input=case, observed=r["err"])
            continue
        for mm in r.get("entry_mismatch", []):
            ck.witness("%s:entry-point:%s" % (prop, mm.split(" ")[0]), "public writer/loader entry points disagree: " + mm, input=case)
        if prop == "C01":
            if r["back0"] != r["obj"]:
                diff = [(a[0]) for a, b in zip(r["obj"]["fields"], r["back0"]["fields"]) if a != b][:5]
                ck.witness(diff_key("C01", r["obj"], r["back0"]), "NeuroMLWriter.write -> NeuroMLLoader.load changes the document in " + ",".join(diff),
                           input=case, expected=r["obj"], observed=r["back0"])
        else:
            if r["back1"] != r["back0"] or r["back2"] != r["back1"]:
                ck.witness("C04:document:not-a-fixed-point", "loading a written loaded document gives a different document", input=case)
            if not r["bytes_stable"]:
                ck.witness("C04:document:bytes-not-stable", "the bytes written in the 2nd and 3rd cycle differ", input=case)
            if r.get("second_write_differs"):
                ck.witness("C04:document:second-write-differs", "writing the same document twice gives different bytes", input=case)
            if r.get("write_modified_document"):
                ck.witness("C04:document:write-modifies", "writing modified the in-memory document", input=case)
    return res


INST = HEADER.replace("Model.GdsExec", "Model.GdsExec Model.GdsWf") + """
(* the table set regenerated from nml.py on this run is well-formed for the round-trip theorem *)
Lemma wf_ok : rt_wf Gen_Bindings.T = true.
Proof. vm_compute. reflexivity. Qed.

(* the float-free constructor defaults used by build agree with the general constructor model on every class *)
Lemma ctor_defaults_ok :
  forallb (fun k => match x_init (cfuel Gen_Bindings.T) Gen_Bindings.T (c_name k) [], init_lits Gen_Bindings.T (c_name k) with
                    | Some a, Some b => fields_eqb a (map (fun nv => (fst nv, inject XF dec_norm (snd nv))) b)
                    | _, _ => false end) Gen_Bindings.T = true.
Proof. vm_compute. reflexivity. Qed.
"""


def glue_facts(ck):
    """root element mapping of the parser and root name used by the writer (ast, fail closed)"""
    import ast
    import os
    from lib.vcommon import REPO
    facts = {}
    t = ast.parse(open(os.path.join(REPO, "neuroml", "nml", "nml.py")).read())
    for n in t.body:
        if isinstance(n, ast.Assign) and getattr(n.targets[0], "id", "") == "GDSClassesMapping" and isinstance(n.value, ast.Dict):
            facts["root_map"] = {ast.literal_eval(k): ast.unparse(v) for k, v in zip(n.value.keys, n.value.values)}
    w = ast.parse(open(os.path.join(REPO, "neuroml", "writers.py")).read())
    for n in ast.walk(w):
        if isinstance(n, ast.Call) and ast.unparse(n.func).endswith(".export"):
            for kw in n.keywords:
                if kw.arg == "name_" and isinstance(kw.value, ast.Constant):
                    facts.setdefault("writer_root", kw.value.value)
    ck.oblige("glue:parser-root-map neuroml->NeuroMLDocument", facts.get("root_map", {}).get("neuroml") == "NeuroMLDocument",
              str(facts.get("root_map")), kind="instance")
    ck.oblige("glue:writer-root-name neuroml", facts.get("writer_root") == "neuroml", str(facts.get("writer_root")), kind="instance")
    return facts


def directed_search(ck, T, diag, prop="C01"):
    """rt_wf is false: instantiate exactly the classes/members the diagnostic names on the real code"""
    gen = gdsgen.Gen(T, ck.rng)
    order = {c: T.field_order(c) for c in T.order}
    cases = []
    for c, items in diag:
        if c not in T.C:
            continue
        for label, member in items:
            for others in ("none", "all"):
                try:
                    cases.append({"tag": "probe", "tree": gen.focus_tree(c, member, others), "why": [c, label, member]})
                except Exception as e:  # noqa
                    ck.tally("directed-generator-failed")
        for j in range(6):
            cases.append({"tag": "probe", "tree": gen.tree(c, 2, full=(j == 0)), "why": [c, "random", ""]})
    if not cases:
        return 0
    out = ck.try_impl("gds_impl.py", {"order": order, "cases": cases}, timeout=240, label="directed")
    res = out["results"] if out else []
    found = 0
    for case, r in zip(cases, res):
        c = case["tree"]["cls"]
        bad = None
        if "obj_err" in r:
            continue
        if "xml_err" in r or "back_err" in r:
            bad = "round trip raises: %s" % (r.get("xml_err") or r.get("back_err"))
        elif r["back"] != r["obj"]:
            diff = [(a[0], a[1], b[1]) for a, b in zip(r["obj"]["fields"], r["back"]["fields"]) if a != b][:3]
            bad = "XML write->read changes the tree of a %s: %s" % (c, json.dumps(diff)[:300])
        if bad:
            found += 1
            ck.witness("%s:%s:%s:%s" % (prop, c, case["why"][1], case["why"][2]), bad, input=case, expected=r.get("obj"),
                       observed=r.get("back"), broken="Inst_C01.v:wf_ok")
    return found


def runtime_obligations(ck, tab):
    """the generateDS runtime functions the model mirrors (constructor casts, attribute lookup, tag matching, number
    formatting/parsing, string validation, the export/build/factory templates) are textually the ones the model was
    written against (ast.unparse normal form); a change there is a named broken obligation and the all-classes
    correspondence of the same run looks for the failing input"""
    import os
    from lib.vcommon import VERIF
    ref = json.load(open(os.path.join(VERIF, "lib", "runtime_ref.json")))
    for k, v in ref.items():
        ck.oblige("runtime:%s is the modelled one" % k, tab["runtime"].get(k) == v,
                  "found: %s" % json.dumps(tab["runtime"].get(k))[:600], kind="instance")


def directed_by_errors(ck, T, errors, prop="C01"):
    """the translator refused a statement of some class: exercise exactly those classes on the real code
    (several instances in one process, every member populated, alone and inside a document)"""
    import re
    classes = []
    for e in errors:
        m = re.match(r"(\w+)[.:]", e)
        if m and m.group(1) in T.C and m.group(1) not in classes:
            classes.append(m.group(1))
    if not classes:
        return
    diag = [(c, [("translator-refused", ek["py"]) for ek in T.exp_kids(c)][:6] + [("translator-refused", ea["py"]) for ea in T.exp_attrs(c)][:6])
            for c in classes[:20]]
    directed_search(ck, T, diag, prop)
    # inside documents, twice, through the real writer/loader
    gen = gdsgen.Gen(T, ck.rng)
    order = {c: T.field_order(c) for c in T.order}
    holders = []
    for c in classes[:20]:
        for ek in T.exp_kids("NeuroMLDocument"):
            if T.child_class("NeuroMLDocument", ek["py"], None) == c and ek["kind"] == "objlist":
                holders.append((c, ek["py"]))
    cases = []
    for c, member in holders:
        for _ in range(2):
            cases.append({"tag": "neuroml", "tree": {"cls": "NeuroMLDocument", "kw": [["id", {"s": "d"}], [member, {"l": [gen.tree(c, 2, True), gen.tree(c, 2, True)]}]]}})
    if cases:
        out = ck.try_impl("gds_impl.py", {"mode": "document", "order": order, "cases": cases}, timeout=240, label="directed-documents")
        for case, r in zip(cases, out["results"] if out else []):
            if "err" in r:
                ck.witness(prop + ":document:write-or-load-raises", r["err"][:300], input=case)
            elif r["back0"] != r["obj"] or r["back1"] != r["back0"] or not r["bytes_stable"]:
                ck.witness(diff_key(prop, r["obj"], r["back0"]) if r["back0"] != r["obj"] else prop + ":document:not-a-fixed-point",
                           "a document holding two %s does not survive write/load cycles unchanged" % case["tree"]["kw"][1][0],
                           input=case, expected=r["obj"], observed=r["back1"])


def wf_obligations(ck, T, prop="C01"):
    inst = ck.gen_v("Inst_C01.v", INST)
    ok, out = ck.compile_obligations(inst, kind="instance")
    if ok:
        return True
    okd, res, outd = ck.coq_eval("Diag_C01.v", HEADER.replace("Model.GdsExec", "Model.GdsWf") +
                                 "Eval vm_compute in (rt_diag Gen_Bindings.T).\n")
    import re
    diag = []
    if okd and res:
        # ("Cls", ("label", "member") :: ... :: nil) :: ...
        for m in re.finditer(r'\("(\w+)",\s*\[((?:\("[\w-]+",\s*"\w*"\);?\s*)*)\]\)', res[0]):
            items = re.findall(r'\("([\w-]+)",\s*"(\w*)"\)', m.group(2))
            diag.append((m.group(1), items))
    ck.extra["rt_wf_diagnostic"] = diag
    directed_search(ck, T, diag, prop)
    return False


def run(ck):
    ck.rule = ("for each of the 199 binding classes: one object with every own and inherited member populated plus random "
               "typed objects (members omitted/None/default, lists of 0-3, nested to the tier's depth, strings over a "
               "special-character alphabet, dyadic floats); each is constructed, exported, parsed by lxml and rebuilt by the "
               "REAL code and the same three steps are evaluated by the Coq model and diffed inside Coq; non-trivial = at "
               "least two populated members, distinct by the dumped tree")
    ck.trusted = ["Coq 8.16.1 kernel + vm_compute", "translators/tr_bindings.py (fail-closed template matcher over ast.unparse)",
                  "lxml text<->infoset", "CPython float formatting/parsing (Section hypotheses, exercised with dyadic values)"]
    ck.gate_static()
    tab = bindings.translate(ck)
    if tab is None:
        return
    if not bindings.gen_bindings(ck, tab):
        return
    T = bindings.Tables(tab)
    glue_facts(ck)
    runtime_obligations(ck, tab)
    if tab["errors"]:
        directed_by_errors(ck, T, tab["errors"])
    if wf_obligations(ck, T):
        ck.compile_props()
    else:
        ck.oblige("Props_C01.v:C01_roundtrip", False, "instance obligation wf_ok failed", kind="theorem")
    # the class the builder instantiates for a child must be the class the MemberSpec declares for that member
    mism = T.class_mismatches()
    ck.oblige("tables:builder-class = MemberSpec type for every child member", not [m for m in mism if (m[0], m[1]) != ("ComponentType", "Property")],
              str(mism), kind="instance")
    if mism:
        gen = gdsgen.Gen(T, ck.rng)
        order = {c: T.field_order(c) for c in T.order}
        cases = [{"tag": "probe", "tree": gen.focus_tree(c, m, "none"), "why": [c, "child-class-vs-memberspec", m]} for c, m, _, _ in mism]
        for case, r in zip(cases, ck.impl("gds_impl.py", {"order": order, "cases": cases})["results"]):
            if r.get("back") != r.get("obj"):
                ck.witness("C01:%s:child-class-vs-memberspec:%s" % (case["why"][0], case["why"][2]),
                           "a %s under member %s is read back as another class" % (T.mspec_type(case["why"][0], case["why"][2]), case["why"][2]),
                           input=case, expected=r.get("obj"), observed=r.get("back") or r.get("back_err"))
    from lib.escape_check import run_escape
    run_escape(ck)
    run_correspondence(ck, tab, T, per_class=ck.n(3, 12), depth=ck.n(2, 4))
    run_documents(ck, T, n=ck.n(6, 40), depth=ck.n(3, 4))


def replay(ck, data):
    inp = data.get("input") or {}
    if isinstance(inp, dict) and any(k in inp for k in ("string", "text", "z", "value")) and "tree" not in inp:
        from lib.escape_check import replay_escape
        return replay_escape(ck, data)
    tab = bindings.translate(ck)
    T = bindings.Tables(tab)
    order = {c: T.field_order(c) for c in T.order}
    mode = "document" if inp.get("tag") == "neuroml" else "component"
    payload = {"order": order, "cases": [inp]}
    if mode == "document":
        payload["mode"] = "document"
    r = ck.impl("gds_impl.py", payload)["results"][0]
    back = r.get("back") or r.get("back0")
    same = back is not None and back == r.get("obj")
    print(json.dumps({"input": inp, "written": r.get("text") or r.get("text0"), "same_after_round_trip": same,
                      "error": r.get("xml_err") or r.get("back_err") or r.get("err")}, indent=1)[:6000])
    return 0 if same else 1
