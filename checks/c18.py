"""C18 — array morphologies survive their file format; their views agree with the arrays.

model      coq/Model/ArrayMorph.v   (to_root loop, segment view through the mask, conversion, writer/loader over a store)
theorems   coq/Props/C18.v          (all trees, all new roots, all documents; PyTables = Section hypotheses)
tie        correspondence: generated inputs -> real implementation (impl/c18_impl.py) -> cases files whose
           expected values are the implementation's outputs; Coq evaluates the model and prints the indices that differ
predicate  the property itself evaluated on the implementation's outputs (numpy array equality is computed in the
           implementation process), independent of the model
"""
import concurrent.futures
import copy
import itertools
import json
import os
import re
import struct
import subprocess

from lib.vcommon import PY, VERIF, coq_list, coq_str, impl_env

HDR = ("From Coq Require Import String List ZArith Bool.\nFrom LNML Require Import Model.ArrayMorph.\n"
       "Import ListNotations.\nOpen Scope Z_scope.\n")

K_CONVERT = "C18:to_neuroml_morphology-segments-differ-from-segment-view"
K_DOC = "C18:stand-alone-morphology-in-document-not-written"
K_ROOT = "C18:to_root-changes-tree-or-root"
K_VIEW = "C18:segment-view-not-one-segment-per-non-root-vertex"
K_RT = "C18:arrays-differ-after-reload"
K_ACC = "C18:accessors-disagree-with-connectivity-array"
K_HIST = "C18:file-content-depends-on-what-the-path-held-before"
K_STATIC = "C18:writer-open-mode-or-derived-state-in-SegmentList"
K_SCALE = "C18:segment-view-of-a-large-morphology"
K_PATH = "C18:round-trip-depends-on-the-form-of-the-file-name"
K_RELOAD = "C18:second-load-returns-state-of-an-earlier-load"
K_ENV = "C18:result-depends-on-interpreter-flags-hash-seed-or-cwd"
K_FRAME = "C18:operation-on-one-morphology-changes-another-or-the-callers-arrays"


# ---------------------------------------------------------------------------------- Coq terms
def z(x):
    return "(%d)" % x if x < 0 else "%d" % x


def zs(l):
    return "[" + "; ".join(z(x) for x in l) + "]"


def bs(l):
    return "[" + "; ".join("true" if b else "false" for b in l) + "]"


def fb(x):
    """injective code of a float64 value (same function as impl/c18_impl.py:fbits): multiples of 1/16 below 2**40
    (except -0.0) -> 2*(16*x); everything else -> 4*(IEEE-754 bit pattern, signed 64-bit) + 3.  The Coq side thereby
    compares vertex rows bit for bit while most numerals stay small."""
    x = float(x)
    bits = struct.unpack("<q", struct.pack("<d", x))[0]
    if x == x and abs(x) < 2.0 ** 40 and bits != -(2 ** 63):
        k = x * 16.0
        if k == int(k):
            return 2 * int(k)
    return 4 * bits + 3


def unfb(c):
    c = int(c)
    if c % 2 == 0:
        return (c // 2) / 16.0
    return struct.unpack("<d", struct.pack("<q", (c - 3) // 4))[0]


def vt(r):
    """a vertex row given as VALUES (harness input)"""
    return "(%s, %s, %s, %s)" % tuple(z(fb(x)) for x in r)


def vts(rows):
    return "[" + "; ".join(vt(r) for r in rows) + "]"


def vt_raw(r):
    """a vertex row already given as bit patterns (implementation output)"""
    return "(%s, %s, %s, %s)" % tuple(z(int(x)) for x in r)


def vts_raw(rows):
    return "[" + "; ".join(vt_raw(r) for r in rows) + "]"


def ostr(s):
    return "None" if s is None else "(Some %s%%string)" % coq_str(s)


def morph_term(m):
    mask = m.get("mask")
    return "(mk_amorph vtx %s %s %s %s)" % (ostr(m.get("id")), vts(m["verts"]), zs(m["conn"]),
                                            "None" if mask is None else "(Some %s)" % bs(mask))


def seg_term(s):
    return "(Build_segment vtx %s %s %s %s)" % (z(s[0]), vt_raw(s[1]), vt_raw(s[2]), "None" if s[3] is None else "(Some %s)" % z(s[3]))


def rt_term(o):
    r = o["r"]
    if r == "ok":
        return "(RtOk vtx [%s])" % "; ".join(
            "(Build_amorph vtx None %s %s %s)" % (vts_raw(m["verts"]), zs(m["conn"]), bs(m["mask"])) for m in o["loaded"])
    if r == "NodeError":
        return "(RtNodeError vtx)"
    if r == "UnboundLocalError":
        return "(RtUnbound vtx)"
    if r == "LoadError":
        return "(RtLoadError vtx)"
    return None


# ---------------------------------------------------------------------------------- generators
def is_tree(conn):
    n = len(conn)
    rts = [v for v in range(n) if conn[v] == -1]
    if len(rts) != 1 or any(not (-1 <= p < n) for p in conn):
        return False
    for v in range(n):
        k, steps = v, 0
        while conn[k] != -1:
            k = conn[k]
            steps += 1
            if steps > n:
                return False
    return True


def all_trees_rooted_at_0(n):
    """every parent array of length n that is a tree with root 0"""
    if n == 0:
        return []
    out = []
    for ps in itertools.product(range(n), repeat=n - 1):
        conn = [-1] + list(ps)
        if all(conn[v] != v for v in range(1, n)) and is_tree(conn):
            out.append(conn)
    return out


def random_tree(rng, n, shape=None):
    """parent array of a tree rooted at vertex 0, several families of shapes"""
    shape = shape or rng.choice(["recursive", "recursive", "chain", "star", "caterpillar", "binary", "deep", "broom",
                                 "relabelled", "relabelled", "relabelled"])
    if n <= 1:
        return [-1] * n, shape
    if shape == "chain":
        conn = [-1] + list(range(n - 1))
    elif shape == "star":
        conn = [-1] + [0] * (n - 1)
    elif shape == "caterpillar":
        spine = max(1, n // 2)
        conn = [-1] + list(range(spine - 1)) + [rng.randrange(spine) for _ in range(n - spine)]
    elif shape == "binary":
        conn = [-1] + [(v - 1) // 2 for v in range(1, n)]
    elif shape == "deep":
        conn = [-1] + [max(0, v - 1 - rng.randrange(3)) for v in range(1, n)]
    elif shape == "broom":
        h = max(1, n // 2)
        conn = [-1] + list(range(h - 1)) + [h - 1] * (n - h)
    else:
        conn = [-1] + [rng.randrange(v) for v in range(1, n)]
    if shape == "relabelled" or rng.random() < 0.3:
        # keep the root at 0, permute the other labels: parents need not have smaller indices
        perm = list(range(1, n))
        rng.shuffle(perm)
        perm = [0] + perm
        new = [0] * n
        for v in range(n):
            new[perm[v]] = -1 if conn[v] == -1 else perm[conn[v]]
        conn = new
    return conn, shape


def depth_of(conn, v):
    d = 0
    while conn[v] != -1:
        v = conn[v]
        d += 1
    return d


# value classes of coordinates / diameters (all exactly representable; compared bit for bit)
SPECIAL = [0.0, -0.0, 5e-324, -5e-324, 2.2250738585072014e-308, 1e-300, 1e308, -1e308, 1.7976931348623157e308,
           0.5, -2.75, 3.0, -7.0, 1e-3, 123456789.125, 4503599627370497.0]


def rand_verts(rng, n):
    """vertex rows of one of several flavours: Python ints (-> integer-dtype arrays; diameter 0 included),
    floats incl. signed zeros / denormals / huge values, integer-valued floats, mixed"""
    flavour = rng.choice(["int", "int", "int", "int0", "int0", "float", "float", "float", "mixed", "special"])
    rows = []
    for _ in range(n):
        if flavour == "int":
            r = [rng.randrange(-50, 51), rng.randrange(-50, 51), rng.randrange(-50, 51), rng.randrange(1, 20)]
        elif flavour == "int0":
            r = [rng.randrange(-3, 4), rng.randrange(-3, 4), rng.randrange(-3, 4), rng.choice([0, 0, 1, 2])]
        elif flavour == "float":
            r = [rng.randrange(-400, 401) / 8.0 for _ in range(3)] + [rng.choice([0.0, -0.0, 0.25, 1.5, 3.0])]
        elif flavour == "special":
            r = [rng.choice(SPECIAL) for _ in range(4)]
        else:
            r = [rng.choice([rng.randrange(-9, 10), float(rng.randrange(-9, 10)), rng.randrange(-40, 41) / 4.0, rng.choice(SPECIAL)])
                 for _ in range(4)]
        rows.append(r)
    return rows


def value_class_cases():
    """deterministic (both tiers): diameter 0.0 / -0.0 / integer 0 at a leaf, an internal vertex, the root, everywhere;
    signed-zero coordinates, denormals, huge magnitudes, integer-valued floats, integer arrays; each built from lists,
    from ndarrays, and with the arrays assigned after construction"""
    conn = [-1, 0, 1, 1, 0]          # root 0, internal 1, leaves 2 3 4
    base = [[1.5, -2.0, 0.25, 2.0], [3.0, 4.5, -1.0, 1.25], [5.0, 6.0, 7.0, 0.75], [-8.0, 9.5, 10.0, 0.5], [11.0, -12.0, 13.0, 1.0]]
    ibase = [[1, -2, 3, 2], [3, 4, -1, 1], [5, 6, 7, 3], [-8, 9, 10, 5], [11, -12, 13, 1]]
    out = []

    def add(name, verts):
        for nd, assign in ((False, None), (True, None), (True, "all")):
            c = {"verts": [list(r) for r in verts], "conn": list(conn), "mask": None, "kind": "value:" + name, "plain": True,
                 "nd": nd}
            if assign:
                c["assign"] = assign
            out.append(c)

    for zname, zero in (("0.0", 0.0), ("-0.0", -0.0)):
        for where, idx in (("leaf", [2]), ("internal", [1]), ("root", [0]), ("all", [0, 1, 2, 3, 4]), ("leaf+internal", [1, 3])):
            v = [list(r) for r in base]
            for i in idx:
                v[i][3] = zero
            add("diameter%s@%s" % (zname, where), v)
    for where, idx in (("leaf", [4]), ("internal", [1]), ("root", [0]), ("all", [0, 1, 2, 3, 4])):
        v = [list(r) for r in ibase]
        for i in idx:
            v[i][3] = 0
        add("int-diameter0@%s" % where, v)
    add("int-array", ibase)
    add("integer-valued-floats", [[float(x) for x in r] for r in ibase])
    v = [list(r) for r in base]
    v[2][0], v[2][1], v[1][2], v[0][0], v[4][1] = 0.0, -0.0, -0.0, -0.0, 0.0
    add("signed-zero-coordinates", v)
    add("all-zero", [[0.0, 0.0, 0.0, 0.0] for _ in range(5)])
    add("all-negative-zero", [[-0.0, -0.0, -0.0, -0.0] for _ in range(5)])
    v = [list(r) for r in base]
    v[2] = [5e-324, -5e-324, 2.2250738585072014e-308, 5e-324]
    v[1] = [-2.2250738585072014e-308, 1e-310, 5e-324, 1e-320]
    add("denormals", v)
    v = [list(r) for r in base]
    v[3] = [1e308, -1e308, 1.7976931348623157e308, 1e300]
    v[1] = [-1.7976931348623157e308, 4503599627370497.0, 9007199254740992.0, 1e200]
    add("huge-magnitudes", v)
    v = [list(r) for r in base]
    v[2] = [1, 2.5, -0.0, 0]
    v[0] = [0, 0, 0, 1]
    add("mixed-int-float-rows", v)
    return out


NAMES = ["a", "b", "B", "a10", "a2", "_z", "Z1", "cell_1", "cell_2", "m", "Morphology", "Morphology0", "Morphology1",
         "Cell0", "Cell1", "soma", "x", "connectivity", "physical_mask", "TestMorphology"]


def gen_to_root(ck):
    cases = []
    # exhaustive: every tree rooted at 0 with up to N vertices, every new root
    nmax = ck.n(5, 6)
    for n in range(1, nmax + 1):
        for conn in all_trees_rooted_at_0(n):
            for i in range(n):
                cases.append({"conn": conn, "index": i, "kind": "exhaustive", "valid": True, "nd": (i + n) % 2 == 0})
    ck.extra["exhaustive_trees_up_to_n"] = nmax
    # random shapes and sizes, every / several new roots, repeated re-rooting
    for _ in range(ck.n(140, 1500)):
        n = ck.rng.choice([1, 2, 3, 5, 8, 13, 21, 34, 55, 89, 144, 233, 300]) if ck.rng.random() < 0.5 else ck.rng.randrange(1, 301)
        conn, shape = random_tree(ck.rng, n)
        if n <= 8:
            idxs = list(range(n))
        else:
            deepest = max(range(n), key=lambda v: depth_of(conn, v))
            idxs = [deepest, 0] + [ck.rng.randrange(n) for _ in range(2)]
        for i in idxs:
            c = {"conn": conn, "index": i, "kind": "random:" + shape, "valid": True, "nd": ck.rng.random() < 0.5}
            if ck.rng.random() < 0.35:
                c["then"] = [ck.rng.randrange(n) for _ in range(ck.rng.randrange(1, 4))]
            cases.append(c)
    # malformed stream (no property claim, model must still agree): forests re-rooted inside the first
    # root's component, out-of-range and negative indices, no root at all, empty
    for _ in range(ck.n(40, 300)):
        n = ck.rng.randrange(2, 40)
        conn, shape = random_tree(ck.rng, n)
        kind = ck.rng.choice(["forest", "badindex", "negindex", "noroot"])
        if kind == "forest":
            # cut an edge: the subtree below v floats; choose the index in the component of the FIRST -1
            v = ck.rng.randrange(1, n)
            conn = list(conn)
            conn[v] = -1
            first = conn.index(-1)
            comp = [w for w in range(n) if _top(conn, w) == first]
            cases.append({"conn": conn, "index": ck.rng.choice(comp), "kind": "malformed:forest", "valid": False})
        elif kind == "badindex":
            cases.append({"conn": conn, "index": n + ck.rng.randrange(0, 3), "kind": "malformed:index>=n", "valid": False})
        elif kind == "negindex":
            cases.append({"conn": conn, "index": -ck.rng.randrange(1, n + 3), "kind": "malformed:index<0", "valid": False})
        else:
            conn = list(conn)
            conn[0] = ck.rng.randrange(1, n)
            cases.append({"conn": conn, "index": ck.rng.randrange(n), "kind": "malformed:no-root", "valid": False})
    cases.append({"conn": [], "index": 0, "kind": "malformed:empty", "valid": False})
    return cases


def _top(conn, v):
    while conn[v] != -1:
        v = conn[v]
    return v


def gen_views(ck):
    cases = [
        # stored witness of the conversion defect (DESIGN.md section 7): 4-vertex tree
        {"verts": [[0, 0, 0, 1], [1, 0, 0, 2], [2, 0, 0, 3], [3, 0, 0, 4]], "conn": [-1, 0, 1, 1], "mask": None,
         "kind": "stored:convert", "plain": True},
    ]
    cases += value_class_cases()
    for n in range(1, ck.n(5, 6)):
        for conn in all_trees_rooted_at_0(n):
            cases.append({"verts": rand_verts(ck.rng, n), "conn": conn, "mask": None, "kind": "exhaustive", "plain": True})
    for _ in range(ck.n(120, 1200)):
        n = ck.rng.randrange(1, 301) if ck.rng.random() < 0.3 else ck.rng.randrange(1, 40)
        conn, shape = random_tree(ck.rng, n)
        c = {"verts": rand_verts(ck.rng, n), "conn": conn, "mask": None, "kind": "plain:" + shape, "plain": True,
             "nd": ck.rng.random() < 0.5}
        u = ck.rng.random()
        if u < 0.25:
            # floating vertices: a mask with a few True entries (model mirrors the index mapping; no property claim)
            c["mask"] = [ck.rng.random() < 0.15 for _ in range(n)]
            c["plain"] = not any(c["mask"])
            c["kind"] = "masked:" + shape
        elif u < 0.30:
            c["mask"] = [ck.rng.random() < 0.3 for _ in range(max(0, n + ck.rng.choice([-2, -1, 1, 2])))]
            c["plain"] = not any(c["mask"])
            c["kind"] = "mask-of-other-length"
        elif u < 0.36 and n > 1:
            # root elsewhere (as left by to_root): the view still takes vertices 1..n-1
            r = ck.rng.randrange(1, n)
            conn2 = _reroot(conn, r)
            c["conn"] = conn2
            c["plain"] = False
            c["kind"] = "root-not-at-0"
        # half of the morphologies receive their arrays AFTER construction (as ArrayMorphLoader does), or get the mask
        # re-assigned: the views must be computed from the current arrays
        u = ck.rng.random()
        if u < 0.3 and len(c["verts"]) == len(c["conn"]):
            c["assign"] = "all"
        elif u < 0.5 and (c["mask"] is None or len(c["mask"]) == n):
            c["assign"] = "mask"
        cases.append(c)
    cases[0] = dict(cases[0])
    cases.insert(1, dict(cases[0], assign="all", kind="stored:assigned-after-construction"))
    return cases


def _reroot(conn, i):
    conn = list(conn)
    prev = -1
    v = i
    while v != -1:
        nxt = conn[v]
        conn[v] = prev
        prev = v
        v = nxt
    return conn


def gen_morph(ck, nmax=8, named=True):
    n = ck.rng.choice([0, 1, 2]) if ck.rng.random() < 0.2 else ck.rng.randrange(1, nmax + 1)
    conn, _ = random_tree(ck.rng, n)
    m = {"verts": rand_verts(ck.rng, n), "conn": conn, "mask": None, "id": None, "nd": ck.rng.random() < 0.5}
    if ck.rng.random() < 0.4 and n > 0:
        m["mask"] = [ck.rng.random() < 0.3 for _ in range(n)]
    if named and ck.rng.random() < 0.75:
        m["id"] = ck.rng.choice(NAMES)
    return m


def effective_names(doc):
    """top-level group names the (repaired) writer creates, and whether the document is in the theorem's domain"""
    top = []
    ok = True
    for k, c in enumerate(doc["cells"]):
        top.append(c["id"] if c["id"] is not None else "Cell%d" % k)
        mid = c["m"]["id"] if c["m"]["id"] is not None else "Morphology%d" % k
        if mid == "vertices":
            ok = False
    for k, m in enumerate(doc["morphs"]):
        top.append(m["id"] if m["id"] is not None else "Morphology%d" % k)
    return top, ok and len(set(top)) == len(top)


def gen_docs(ck):
    m3 = {"verts": [[0, 0, 0, 1], [1, 0, 0, 2], [2, 0, 0, 3]], "conn": [-1, 0, 0], "mask": None, "id": "m1"}
    m2 = {"verts": [[5, 0, 0, 1], [6, 0, 0, 2]], "conn": [-1, 0], "mask": None, "id": None}
    cases = [
        # stored witnesses of the document defect (DESIGN.md section 7)
        {"cells": [], "morphs": [m3], "kind": "stored:standalone-no-cells"},
        {"cells": [{"id": "c1", "m": m2}], "morphs": [m3], "kind": "stored:standalone-after-cell"},
    ]
    kmax = ck.n(4, 7)
    for nc in range(0, 3):
        for nm in range(0, 3):
            for _ in range(ck.n(3, 12)):
                cases.append(_gen_doc(ck, nc, nm, distinct=True))
    for _ in range(ck.n(60, 700)):
        cases.append(_gen_doc(ck, ck.rng.randrange(0, kmax + 1), ck.rng.randrange(0, kmax + 1), distinct=ck.rng.random() < 0.8))
    return cases


def _gen_doc(ck, nc, nm, distinct):
    doc = {"cells": [{"id": (ck.rng.choice(NAMES) if ck.rng.random() < 0.7 else None), "m": gen_morph(ck)} for _ in range(nc)],
           "morphs": [gen_morph(ck) for _ in range(nm)], "kind": "doc:%dc%dm" % (min(nc, 3), min(nm, 3))}
    if distinct:
        # make the top-level names distinct (the theorem's domain); morphology ids inside cells may repeat
        for _try in range(20):
            top, ok = effective_names(doc)
            if ok:
                break
            seen = set()
            for k, c in enumerate(doc["cells"]):
                nme = c["id"] if c["id"] is not None else "Cell%d" % k
                if nme in seen:
                    c["id"] = "c%d_%d" % (k, ck.rng.randrange(1000))
                seen.add(c["id"] if c["id"] is not None else "Cell%d" % k)
            for k, m in enumerate(doc["morphs"]):
                nme = m["id"] if m["id"] is not None else "Morphology%d" % k
                if nme in seen:
                    m["id"] = "m%d_%d" % (k, ck.rng.randrange(1000))
                seen.add(m["id"] if m["id"] is not None else "Morphology%d" % k)
    elif ck.rng.random() < 0.15 and doc["cells"]:
        doc["cells"][0]["m"]["id"] = "vertices"   # the loader's hasattr(node, "vertices") test misfires
    return doc


def gen_morphs(ck):
    out = [{"verts": [], "conn": [], "mask": None, "id": None, "kind": "single:empty"}]
    for c in value_class_cases():
        if not c.get("assign"):
            out.append({"verts": c["verts"], "conn": c["conn"], "mask": None, "id": None, "nd": c["nd"],
                        "kind": "single:" + c["kind"]})
    for _ in range(ck.n(30, 300)):
        m = gen_morph(ck, nmax=ck.rng.choice([8, 60, 300]))
        m["kind"] = "single"
        out.append(m)
    return out


def gen_frames(ck):
    """two morphologies A, B built from the same caller arrays (lists or numpy ndarrays; or B from A's own arrays) and an
    interleaved list of operations; the model treats A and B as independent values (C18_frame)"""
    cases = [
        # stored: the idiom of the library's tests, work = ArrayMorphology(m.vertices, m.connectivity); work.to_root(3)
        {"verts": [[0, 0, 0, 2], [1, 1, 0, 1], [2, 1, 3, 5], [3, 2, 3, 4], [1, -1, 2, 25]], "conn": [-1, 0, 1, 2, 0],
         "src": "ndarray", "share": "from_morph", "ops": [["B", "to_root", 3]], "kind": "frame:stored"},
        {"verts": [[0, 0, 0, 2], [1, 1, 0, 1], [2, 1, 3, 5]], "conn": [-1, 0, 1],
         "src": "ndarray", "share": "inputs", "ops": [["A", "to_root", 2]], "kind": "frame:stored"},
    ]
    for _ in range(ck.n(110, 900)):
        n = ck.rng.randrange(2, 9) if ck.rng.random() < 0.6 else ck.rng.randrange(9, 80)
        conn, shape = random_tree(ck.rng, n)
        src = "ndarray" if ck.rng.random() < 0.7 else "list"
        share = ck.rng.choice(["inputs", "from_morph"])
        one_sided = ck.rng.random() < 0.5      # one morphology is never re-rooted: its views must be those of its inputs
        ops = []
        for _k in range(ck.rng.randrange(1, 6)):
            who = "A" if one_sided else ck.rng.choice("AB")
            u = ck.rng.random()
            if u < 0.7:
                ops.append([who, "to_root", ck.rng.randrange(n)])
            elif u < 0.85:
                ops.append([ck.rng.choice("AB"), "convert", None])
            else:
                ops.append([ck.rng.choice("AB"), "write_load", None])
        if one_sided and ck.rng.random() < 0.5:
            ops = [["B" if o[0] == "A" and o[1] == "to_root" else o[0], o[1], o[2]] for o in ops]
        cases.append({"verts": rand_verts(ck.rng, n), "conn": conn, "src": src, "share": share, "ops": ops,
                      "kind": "frame:%s:%s" % (src, share)})
    return cases


def _edit_doc(ck, doc):
    """the same document (same ids, same number of morphologies) with edited arrays"""
    d = copy.deepcopy(doc)
    for m in [c["m"] for c in d["cells"]] + d["morphs"]:
        n = ck.rng.randrange(1, 9)
        conn, _ = random_tree(ck.rng, n)
        m.update({"verts": rand_verts(ck.rng, n), "conn": conn, "mask": None})
    d["kind"] = "doc:edited"
    return d


def gen_histories(ck):
    """several writes to ONE path, each followed by a load (C18_file_history): a later write must not see the earlier ones"""
    def mm(i, n, ident):
        return {"verts": [[10 * i + k, k, 0, 1 + k] for k in range(n)], "conn": [-1] + [0] * (n - 1), "mask": None, "id": ident}
    a = {"cells": [], "morphs": [mm(1, 3, "m1"), mm(2, 2, "m2")]}
    b = {"cells": [], "morphs": [mm(3, 4, "other")]}
    a2 = {"cells": [], "morphs": [mm(4, 2, "m1"), mm(5, 5, "m2")]}
    cases = [
        {"steps": [{"doc": a}, {"doc": b}], "kind": "history:stored:different-document"},
        {"steps": [{"doc": a}, {"doc": a2}], "kind": "history:stored:edited-same-ids"},
        {"steps": [{"morph": mm(6, 3, None)}, {"morph": mm(7, 2, None)}], "kind": "history:stored:single-morphology-twice"},
    ]
    for i, bad in enumerate(["cell", "morphology", "none", "list", "string", "segment"]):
        # write(<an object the writer does not support>, p), then a valid write + load on the same p must round-trip
        cases.append({"steps": [{"bad": bad}, {"doc": a if i % 2 else b}], "kind": "history:stored:unsupported-object-first"})
    cases.append({"steps": [{"doc": a}, {"bad": "none"}, {"bad": "cell"}, {"morph": mm(8, 3, None)}, {"bad": "list"}, {"doc": b}],
                  "kind": "history:stored:unsupported-object-between"})
    for _ in range(ck.n(25, 250)):
        steps = []
        for k in range(ck.rng.randrange(2, 4)):
            u = ck.rng.random()
            prev = steps[-1] if steps else None
            if prev is not None and "doc" in prev and u < 0.4:
                steps.append({"doc": _edit_doc(ck, prev["doc"])})
            elif u < 0.8:
                d = _gen_doc(ck, ck.rng.randrange(0, 3), ck.rng.randrange(0, 3), distinct=True)
                steps.append({"doc": d})
            else:
                steps.append({"morph": gen_morph(ck)})
        if ck.rng.random() < 0.35:
            steps.insert(ck.rng.randrange(0, len(steps)), {"bad": ck.rng.choice(["cell", "morphology", "none", "list", "string", "segment"])})
        c = {"steps": steps, "kind": "history:random"}
        if ck.rng.random() < 0.15:
            c["preexisting"] = "garbage"
        cases.append(c)
    return cases


def doc_term(c):
    return "(Build_adoc vtx [%s] [%s])" % ("; ".join("(%s, %s)" % (ostr(x["id"]), morph_term(x["m"])) for x in c["cells"]),
                                           "; ".join(morph_term(m) for m in c["morphs"]))


def view_row(mterm, n, segs, conv, plain, probes=()):
    """one row of a view cases file; the conversion is written out only when it is not exactly the segment view"""
    view = "[%s]" % "; ".join("None" if x is None else "(Some %s)" % seg_term(x) for x in segs)
    if conv != "IndexError" and conv == segs and all(x is not None for x in segs):
        cv = "None"
    elif conv == "IndexError":
        cv = "(Some None)"
    else:
        cv = "(Some (Some [%s]))" % "; ".join(seg_term(x) for x in conv)
    pr = "[%s]" % "; ".join("(%s, %s)" % (z(k), "None" if r is None else "(Some %s)" % seg_term(r))
                            for k, r in probes if not isinstance(r, str))
    return "(%s, %s, %s, %s, %s, %s)" % (mterm, z(n), view, cv, "true" if plain else "false", pr)


def loaded_plain(m):
    n = len(m["conn"])
    return (n >= 1 and not any(m["mask"]) and len(m["mask"]) == n and len(m["verts"]) == n and is_tree(m["conn"])
            and m["conn"][0] == -1)


def loaded_view_rows(ck, o, origin, rows, checks):
    """the segment-view clause on every morphology that came out of ArrayMorphLoader.load"""
    if o.get("r") != "ok":
        return
    for k, m in enumerate(o["loaded"]):
        c = {"verts": m["verts"], "conn": m["conn"], "mask": m["mask"], "kind": "loaded", "plain": loaded_plain(m), "bits": True,
             "origin": origin, "loaded_index": k}
        if m.get("len") is None:
            ck.disagree("segments_view (loaded morphology)", c, "a segment view", m.get("view_error"))
            ck.witness(K_VIEW, "segment view of a loaded morphology raised %s" % m.get("view_error"), input=c,
                       expected="one segment per non-root vertex", observed=m.get("view_error"))
            continue
        ov = {"r": "ok", "len": m["len"], "segs": m["view"], "conv": m["conv"]}
        ov.update({k: m.get(k) for k in ("probes", "len_after_probes", "segs_same_after_probes", "cache_keys", "cache_expected")})
        mt = "(Build_amorph vtx None %s %s %s)" % (vts_raw(m["verts"]), zs(m["conn"]), bs(m["mask"]))
        rows.append((c, ov, view_row(mt, m["len"], m["view"], m["conv"], c["plain"], m.get("probes", []))))
        checks.append((c, ov))


def translate_static(ck):
    """Gen_C18.v / Inst_C18.v: open modes of writer and loader, attributes SegmentList / ArrayMorphology assign on self"""
    p = subprocess.run([PY, os.path.join(VERIF, "translators", "tr_c18.py")], capture_output=True, text=True,
                       env=impl_env(), timeout=120)
    lines = [l for l in p.stdout.splitlines() if l.strip().startswith("{")]
    if p.returncode != 0 or not lines:
        ck.oblige("translate:tr_c18", False, (p.stdout + p.stderr)[-1500:], kind="translate")
        return None
    d = json.loads(lines[-1])
    ck.oblige("translate:tr_c18", not d["unknown"], "; ".join(d["unknown"]), kind="translate")
    sl = lambda l: coq_list([coq_str(x) + "%string" for x in l])  # noqa: E731
    g = ck.gen_v("Gen_C18.v", "From Coq Require Import String List.\nImport ListNotations.\n"
                 "Definition writer_modes : list string := %s.\nDefinition loader_modes : list string := %s.\n"
                 "Definition segmentlist_writes : list string := %s.\nDefinition arraymorph_writes : list string := %s.\n"
                 "Definition writer_open_guarded : bool := %s.\n"
                 % (sl(d["writer_modes"]), sl(d["loader_modes"]), sl(d["segmentlist_writes"]), sl(d["arraymorph_writes"]),
                    "true" if d["writer_open_guarded"] else "false"))
    ok, out = ck.coqc(g)
    ck.oblige("Gen_C18.v:compiles", ok, out[-1000:], kind="translate")
    inst = ck.gen_v("Inst_C18.v", "From Coq Require Import String List Bool.\nFrom LNML Require Import Model.ArrayMorph.\n"
                    "From Run Require Import Gen_C18.\n"
                    "Lemma static_ok : c18_static_ok writer_modes loader_modes segmentlist_writes arraymorph_writes\n"
                    "                                writer_open_guarded = true.\n"
                    "Proof. vm_compute. reflexivity. Qed.\n")
    iok, _ = ck.compile_obligations(inst, kind="instance")
    if not iok:
        ck.extra["static_facts"] = d
    return d


def check_frame(ck, c, o):
    """operations on one morphology leave the other one and the caller's arrays as they were; a morphology that was
    never re-rooted still presents the arrays it was given through its segment view and its conversion"""
    inp = {"vertices": c["verts"], "connectivity": c["conn"], "built_from": c["src"], "second_morphology": c["share"],
           "operations": c["ops"]}
    if o.get("r") != "ok":
        ck.witness(K_FRAME, "operations on two morphologies sharing their inputs raised %s" % o.get("r"), input=inp,
                   expected="no exception", observed=o.get("r"), broken="C18_frame")
        return False
    n = len(c["conn"])
    ok = True
    if o["frame"] or not o["caller_unchanged"]:
        ck.witness(K_FRAME, "an operation on one morphology changed another morphology built from the same arrays, or the "
                            "caller's arrays", input=inp, expected="only the re-rooted morphology's own connectivity changes",
                   observed={"first_changes": o["frame"][:3], "caller_arrays_unchanged": o["caller_unchanged"]},
                   broken="C18_frame")
        ok = False
    for w in "AB":
        idx = [x[2] for x in c["ops"] if x[0] == w and x[1] == "to_root"]
        conn = o["conn" + w]
        root = idx[-1] if idx else 0
        good = uedges(conn) == uedges(c["conn"]) and [v for v in range(n) if conn[v] == -1] == [root] and is_tree(conn)
        untouched = not idx
        if untouched:
            exp = expected_segments(c)
            good = good and conn == c["conn"] and [s[:3] if s else None for s in o["view" + w]] == [s[:3] for s in exp] \
                and o["conv" + w] != "IndexError" and [s[:3] for s in o["conv" + w]] == [s[:3] for s in exp]
        fl = o["file" + w]
        good = good and fl.get("r") == "ok" and fl.get("np_equal") and o["loaded%s_conn" % w] == conn
        if not good and ok:
            ck.witness(K_FRAME, "morphology %s does not present the arrays it was given / the tree it was re-rooted to "
                                "after operations on the other morphology" % w, input=inp,
                       expected={"connectivity": c["conn"] if untouched else "same undirected tree, root %d" % root,
                                 "segments": expected_segments(c) if untouched else None},
                       observed={"connectivity": conn, "segment_view": o["view" + w], "conversion": o["conv" + w], "file": fl},
                       broken="C18_frame")
            ok = False
    return ok


# ---------------------------------------------------------------------------------- the property on the implementation
def uedges(conn):
    return sorted((min(v, p), max(v, p)) for v, p in enumerate(conn) if p != -1)


def check_to_root(ck, c, o):
    """re-rooting keeps the same undirected tree with exactly one root (the chosen vertex); accessors agree"""
    n = len(c["conn"])
    last = ([c["index"]] + c.get("then", []))[-1]
    inp = {"connectivity": c["conn"], "to_root": [c["index"]] + c.get("then", [])}
    if o["r"] != "ok":
        ck.witness(K_ROOT, "to_root raised %s on a valid tree" % o["r"], input=inp, expected="new connectivity", observed=o["r"])
        return False
    new = o["conn"]
    good = (len(new) == n and uedges(new) == uedges(c["conn"]) and [v for v in range(n) if new[v] == -1] == [last]
            and is_tree(new))
    if not good:
        ck.witness(K_ROOT, "re-rooting changed the undirected edge set or did not leave exactly the chosen root",
                   input=inp, expected={"edges": uedges(c["conn"]), "roots": [last]},
                   observed={"connectivity": new, "edges": uedges(new), "roots": [v for v in range(n) if new[v] == -1]})
        return False
    acc = (o["parent_ids"] == new and o["root_index"] == last
           and all(o["children"][p] == [v for v in range(n) if new[v] == p] for p in range(n)))
    if not acc:
        ck.witness(K_ACC, "parent_id/children/root_index disagree with the connectivity array", input=inp,
                   expected={"connectivity": new}, observed={k: o[k] for k in ("parent_ids", "children", "root_index")})
        return False
    return True


def expected_segments(c):
    """(id, vertex row, parent row, parent) per non-root vertex; rows as IEEE-754 bit patterns (what the driver reports)"""
    conn = c["conn"]
    v = c["verts"] if c.get("bits") else [[fb(x) for x in r] for r in c["verts"]]
    return [[k, list(v[k]), list(v[conn[k]]), (conn[k] if k > 1 else None)] for k in range(1, len(conn))]


def check_view(ck, c, o):
    """mask-free tree rooted at 0: one segment per non-root vertex, end points (vertex, parent vertex);
    conversion yields those same segments"""
    inp = {"vertices": c["verts"], "connectivity": c["conn"], "physical_mask": c["mask"]}
    exp = expected_segments(c)
    ok = True

    def first_diff(segs):
        """first segment whose id / end points differ, decoded from the bit patterns"""
        if not isinstance(segs, list):
            return segs
        dec = lambda r: [repr(unfb(b)) for b in r]  # noqa: E731
        for k, e in enumerate(exp):
            g = segs[k] if k < len(segs) else None
            if g is None or g[:3] != e[:3]:
                return {"segment_index": k, "vertex": e[0],
                        "expected_end_points": [dec(e[1]), dec(e[2])],
                        "observed": None if g is None else {"id": g[0], "end_points": [dec(g[1]), dec(g[2])]}}
        return None if len(segs) == len(exp) else {"expected_segments": len(exp), "observed_segments": len(segs)}

    if c.get("bits"):
        inp["note"] = "morphology returned by ArrayMorphLoader.load (%s); vertex rows are codes of the float64 values, see fb()" % c.get("origin")
    if o.get("r") != "ok" or o["len"] != len(exp) or [s[:3] if s else None for s in o["segs"]] != [s[:3] for s in exp]:
        ck.witness(K_VIEW, "segment view is not one segment per non-root vertex with end points equal (bit for bit) to the "
                           "vertex row and the parent vertex row",
                   input=inp, expected={"first_difference": first_diff(o.get("segs")), "segments_as_codes": exp},
                   observed=o)
        ok = False
    if o.get("r") == "ok" and (o["conv"] == "IndexError" or [s[:3] for s in o["conv"]] != [s[:3] for s in exp]
                               or o["conv"] != o["segs"]):
        ck.witness(K_CONVERT, "to_neuroml_morphology() does not yield the segments of the segment view "
                              "(vertices 1..n-1, each with its parent vertex)",
                   input=inp, expected=exp, observed=o["conv"], broken="C18_convert_agrees_with_view")
        ok = False
    return ok


def check_probes(ck, c, o):
    """negative clause: an index outside 0..len-1 is refused or (numpy wrap-around) answers with the segment of a NON-ROOT
    vertex and that vertex's / its parent's rows; probing leaves len, the segments and the instantiated cache alone"""
    inp = {"vertices": c["verts"], "connectivity": c["conn"], "physical_mask": c["mask"]}
    if c.get("bits"):
        inp["note"] = "morphology returned by ArrayMorphLoader.load (%s); vertex rows are codes, see fb()" % c.get("origin")
    if o.get("r") != "ok" or o.get("probes") is None:
        return True
    ok = True
    if c["plain"]:
        exp = dict((e[0], e) for e in expected_segments(c))
        for k, r in o["probes"]:
            if r is None:
                continue
            if isinstance(r, str) or r[0] not in exp or r[:3] != exp[r[0]][:3]:
                ck.witness(K_VIEW, "the segment view answers index %d (outside 0..len-1) with something that is not the segment "
                                   "of a non-root vertex" % k, input=dict(inp, index=k),
                           expected="IndexError, or the segment (vertex row, parent row) of a vertex that has a parent",
                           observed=r if isinstance(r, str) else {"id": r[0], "end_points": [[repr(unfb(b)) for b in r[1]],
                                                                                             [repr(unfb(b)) for b in r[2]]],
                                                                  "is_root_vertex": c["conn"][r[0]] == -1
                                                                  if 0 <= r[0] < len(c["conn"]) else None},
                           broken="C18_view_answers_only_non_root")
                ok = False
                break
    if o["len_after_probes"] != o["len"] or not o["segs_same_after_probes"] or o["cache_keys"] != o["cache_expected"]:
        ck.witness(K_VIEW, "probing indices outside 0..len-1 changed the segment view (length, segments or instantiated cache)",
                   input=inp, expected={"len": o["len"], "cache_keys": o["cache_expected"]},
                   observed={"len": o["len_after_probes"], "segments_unchanged": o["segs_same_after_probes"],
                             "cache_keys": o["cache_keys"], "probes": [[k, (r if r is None or isinstance(r, str) else r[0])] for k, r in o["probes"]]},
                   broken="C18_view_answers_only_non_root")
        ok = False
    return ok


def check_file(ck, inp, o, standalone):
    if o["r"] == "ok" and o["np_equal"] and o["inputs_unchanged"]:
        return True
    if o["r"] != "ok" and standalone and o.get("stage") == "write":
        ck.witness(K_DOC, "a document with a stand-alone morphology cannot be written in the array format (%s)" % o["r"],
                   input=inp, expected="file holding every morphology", observed={k: o.get(k) for k in ("r", "msg")},
                   broken="C18_document_roundtrip")
    else:
        ck.witness(K_RT, "written and reloaded morphologies do not have identical arrays", input=inp,
                   expected="identical vertex/connectivity/physical_mask arrays for every morphology (as a multiset)",
                   observed={k: o.get(k) for k in ("r", "stage", "msg", "np_equal", "missing", "n_written", "n_loaded",
                                                   "inputs_unchanged", "loaded")},
                   broken="C18_document_roundtrip")
    return False


# ---------------------------------------------------------------------------------- cases files
def chunks(l, k):
    return [l[i:i + k] for i in range(0, len(l), k)]


def eval_cases(ck, name, defs, evals):
    """compile one cases file; returns list of index lists (one per Eval) or None when it did not compile"""
    # big numerals (codes of non-dyadic / huge / signed-zero floats) are few distinct values but many occurrences, and
    # Coq parses a 20-digit numeral in milliseconds: name each distinct one once
    names = {}

    def name_of(m):
        lit = m.group(0)
        if lit not in names:
            names[lit] = "bigz_%d" % len(names)
        return names[lit]
    defs = re.sub(r"\(-\d{10,}\)|\b\d{10,}\b", name_of, defs)
    table = "".join("Definition %s : Z := %s.\n" % (nm, lit) for lit, nm in names.items())
    text = HDR + table + defs + "".join("Eval vm_compute in (%s).\n" % e for e in evals)
    ok, res, out = ck.coq_eval(name, text)
    ck.oblige(name + ":evaluates", ok and len(res) == len(evals), out[-1500:], kind="correspondence")
    if not ok or len(res) != len(evals):
        return None
    parsed = []
    for r in res:
        r = r.strip()
        if r.startswith("[") and r.endswith("]"):
            body = r[1:-1].strip()
            parsed.append([int(x.replace("%nat", "").strip()) for x in body.split(";")] if body else [])
        else:
            parsed.append(None)
    return parsed


def run(ck):
    ck.rule = ("one evaluation = one generated input run through the real implementation, diffed against the Coq model "
               "inside Coq, and checked against the property predicate; non-trivial = the input exercises the mechanism "
               "(re-rooting at a vertex other than the root; a morphology with >= 2 vertices; a document with >= 1 "
               "morphology); distinct by input")
    ck.trusted = [
        "Coq 8.16.1 kernel + vm_compute (no native_compute)",
        "hand-written model coq/Model/ArrayMorph.v of arraymorph.py / ArrayMorphWriter / ArrayMorphLoader, tied to the "
        "code by the correspondence run of this check (every case diffed inside Coq)",
        "PyTables as Section hypotheses (store_spec): a created node is found under its path with the value written, "
        "creating an existing name fails, iteration over a group yields its children's names as a permutation fixed by "
        "the names (sorted); exercised on every file case",
        "numpy indexing: negative indices wrap, out-of-range raises IndexError (pyget/pyset)",
        "impl/c18_impl.py and the term printer in checks/c18.py (integers, booleans, ASCII names)",
        "translators/tr_c18.py (python ast): open_file modes of ArrayMorphWriter/ArrayMorphLoader and the attributes "
        "SegmentList/ArrayMorphology assign on self, regenerated on every run into Gen_C18.v (Inst_C18.static_ok)",
        "frame: the model is functional (values cannot alias); the driver therefore builds two morphologies from the same "
        "numpy arrays / lists and compares both and the caller's arrays after every operation (C18_frame)",
    ]
    ck.assumptions = [
        "vertex coordinates are any values of one type V (the theorems are parametric in V; the cases use an injective "
        "code of float64 values, so end points and reloaded arrays are compared bit for bit; NaN/inf are not generated)",
        "group names are ASCII identifiers without '/', so the string path '/cell/morphology' names the node path",
        "file round trip domain: top-level names (cell ids, stand-alone morphology ids, after the writer's defaulting) "
        "are pairwise distinct and no cell's morphology is called 'vertices'",
        "segment view / conversion: no floating vertices (mask all False), root at vertex 0",
    ]
    ck.gate_static()
    static = translate_static(ck)

    tr, vw, dc, ms = gen_to_root(ck), gen_views(ck), gen_docs(ck), gen_morphs(ck)
    def strip(c):
        if isinstance(c, dict):
            return {k: strip(v) for k, v in c.items() if k not in ("kind", "valid", "plain")}
        if isinstance(c, list):
            return [strip(x) for x in c]
        return c
    fr = gen_frames(ck)
    hs = gen_histories(ck)
    # repetition: load, use (re-root in place), load again
    reload_docs = [c for c in dc if effective_names(c)[1] and (c["cells"] or c["morphs"])][:ck.n(12, 60)]
    out = ck.impl("c18_impl.py", {"to_root": [strip(c) for c in tr], "views": [strip(c) for c in vw],
                                  "docs": [strip(c) for c in dc], "morphs": [strip(c) for c in ms],
                                  "frames": [strip(c) for c in fr], "histories": [strip(c) for c in hs],
                                  "large": [{"n": 9000}], "paths": True,
                                  "reloads": [{"doc": strip(d)} for d in reload_docs]}, timeout=900)

    dis = {"to_root": 0, "view": 0, "convert": 0, "document": 0, "morphology": 0, "frame": 0, "history": 0}
    orig = {"convert": 0, "document": 0}

    # ---- to_root: model vs implementation
    rows = []
    for c, o in zip(tr, out["to_root"]):
        ck.tally("to_root:" + c["kind"].split(":")[0])
        r = {"ok": None, "IndexError": "IndexErr", "Timeout": "OutOfFuel"}.get(o["r"], "?")
        exp = "(Ok %s)" % zs(o["conn"]) if o["r"] == "ok" else r
        rows.append((c, o, "(%s, %s, %s)" % (zs(c["conn"]), zs([c["index"]] + c.get("then", [])), exp),
                     "(%s, %s, %s)" % (zs(c["conn"]), zs([c["index"]] + c.get("then", [])), "true" if c["valid"] else "false")))
    jobs = []
    for fi, part in enumerate(chunks(rows, 500)):
        bad = [x for x in part if x[2].endswith("?)")]
        for c, o, _, _ in bad:
            ck.disagree("to_root", strip(c), "Ok/IndexErr/OutOfFuel", o["r"], note="exception the model does not have")
        part = [x for x in part if not x[2].endswith("?)")]
        jobs.append(("root", part, "Cases_C18_root_%d.v" % fi,
                     "Definition cases : list (list Z * list Z * res (list Z)) :=\n [%s].\n"
                     "Definition dcases : list (list Z * list Z * bool) :=\n [%s].\n"
                     % (";\n  ".join(x[2] for x in part), ";\n  ".join(x[3] for x in part)),
                     ["mismatches to_root_case_ok cases", "mismatches to_root_dom_case_ok dcases"]))
    # ---- views and conversion
    rows = []
    for c, o in zip(vw, out["views"]):
        ck.tally("view:" + c["kind"].split(":")[0])
        if o["r"] != "ok":
            ck.disagree("segments_view", strip(c), "a morphology", o["r"], note="constructor refused a generated input")
            continue
        rows.append((c, o, view_row(morph_term(c), o["len"], o["segs"], o["conv"], c["plain"], o.get("probes", []))))
    # the same clause on every morphology that came back from ArrayMorphLoader.load (documents, single, histories)
    loaded_checks = []
    for i, o in enumerate(out["docs"]):
        loaded_view_rows(ck, o, "document case %d" % i, rows, loaded_checks)
    for i, o in enumerate(out["morphs"]):
        loaded_view_rows(ck, o, "single morphology case %d" % i, rows, loaded_checks)
    for i, h in enumerate(out["histories"]):
        for k, o in enumerate(h["steps"]):
            loaded_view_rows(ck, o, "history %d step %d" % (i, k), rows, loaded_checks)
    ck.tally("view:loaded-from-file", len(loaded_checks))
    view_hdr = (
        "Definition vrow : Type := (amorph vtx * Z * list (option (segment vtx)) * option (option (list (segment vtx))) * bool\n"
        "                           * list (Z * option (segment vtx)))%type.\n"
        "(* the conversion column: None = the implementation's to_neuroml_morphology() returned exactly the segments of its\n"
        "   segment view (all present); Some x = what it returned otherwise (None = IndexError).\n"
        "   last column: m.segments[k] for probe indices k outside 0..len-1 (None = IndexError) *)\n"
        "Definition conv_of (x : vrow) : amorph vtx * option (list (segment vtx)) :=\n"
        "  match x with (m, _, v, Some cv, _, _) => (m, cv) | (m, _, v, None, _, _) => (m, sequence v) end.\n"
        "Definition v_ok (x : vrow) := match x with (m, n, v, _, _, _) => view_case_ok (m, n, v) end.\n"
        "Definition c_ok (x : vrow) := conv_case_ok (to_neuroml_morphology vtx) (conv_of x).\n"
        "Definition c_orig_ok (x : vrow) := conv_case_ok (to_neuroml_morphology_orig vtx) (conv_of x).\n"
        "Definition d_ok (x : vrow) := match x with (m, _, _, _, f, _) => view_dom_case_ok (m, f) end.\n"
        "Definition p_ok (x : vrow) := match x with (m, _, _, _, _, ps) =>\n"
        "  forallb (fun kp => opt_eqb seg_eqb (segment_at vtx m (fst kp)) (snd kp)) ps end.\n")
    for fi, part in enumerate(chunks(rows, 150)):
        jobs.append(("view", part, "Cases_C18_view_%d.v" % fi,
                     view_hdr + "Definition rows : list vrow :=\n [%s].\n" % ";\n  ".join(x[2] for x in part),
                     ["mismatches v_ok rows", "mismatches c_ok rows", "mismatches c_orig_ok rows", "mismatches d_ok rows",
                      "mismatches p_ok rows"]))
    # ---- documents and single morphologies
    rows = []
    for c, o in zip(dc, out["docs"]):
        ck.tally(c["kind"].split(":")[0] + ":" + c["kind"].split(":")[1] if c["kind"].startswith("doc") else "doc:stored")
        t = rt_term(o)
        if t is None:
            ck.disagree("write_document", strip(c), "RtOk/RtNodeError/RtUnbound/RtLoadError", o, note="exception the model does not have")
            continue
        d = "(Build_adoc vtx [%s] [%s])" % ("; ".join("(%s, %s)" % (ostr(x["id"]), morph_term(x["m"])) for x in c["cells"]),
                                            "; ".join(morph_term(m) for m in c["morphs"]))
        rows.append((c, o, "(%s, %s)" % (d, t), "(%s, %s)" % (d, "true" if effective_names(c)[1] else "false")))
    for fi, part in enumerate(chunks(rows, 400)):
        jobs.append(("doc", part, "Cases_C18_doc_%d.v" % fi,
                     "Definition cases : list (adoc vtx * rt vtx) :=\n [%s].\n"
                     "Definition dcases : list (adoc vtx * bool) :=\n [%s].\n"
                     % (";\n  ".join(x[2] for x in part), ";\n  ".join(x[3] for x in part)),
                     ["mismatches (doc_case_ok (roundtrip_document vtx)) cases",
                      "mismatches (doc_case_ok (roundtrip_document_orig vtx)) cases",
                      "mismatches doc_dom_case_ok dcases"]))
    rows = []
    for c, o in zip(ms, out["morphs"]):
        ck.tally("single-morphology")
        t = rt_term(o)
        if t is None:
            ck.disagree("write_morphology", strip(c), "RtOk/...", o, note="exception the model does not have")
            continue
        rows.append((c, o, "(%s, %s)" % (morph_term(c), t)))
    for fi, part in enumerate(chunks(rows, 300)):
        jobs.append(("morph", part, "Cases_C18_morph_%d.v" % fi,
                     "Definition cases : list (amorph vtx * rt vtx) :=\n [%s].\n" % ";\n  ".join(x[2] for x in part),
                     ["mismatches morph_case_ok cases"]))

    # ---- histories: several writes to one path
    rows = []
    for c, o in zip(hs, out["histories"]):
        ck.tally(":".join(c["kind"].split(":")[:2]))
        items, rts, bad = [], [], False
        for st, so in zip(c["steps"], o["steps"]):
            if "bad" in st:
                # not part of the model's history: by C18_file_history what the path held before (here: whatever the
                # writer left after refusing / ignoring an unsupported object) cannot matter for the later steps
                ck.tally("history:unsupported-object-step:" + so["r"].split(":")[0])
                continue
            t = rt_term(so)
            if t is None:
                ck.disagree("roundtrip_history", strip(c), "RtOk/RtNodeError/RtLoadError per step", so,
                            note="exception the model does not have")
                bad = True
                break
            items.append("(HDoc %s)" % doc_term(st["doc"]) if "doc" in st else "(HMorph %s)" % morph_term(st["morph"]))
            rts.append(t)
        if not bad:
            rows.append((c, o, "([%s], [%s])" % ("; ".join(items), "; ".join(rts))))
    for fi, part in enumerate(chunks(rows, 150)):
        jobs.append(("history", part, "Cases_C18_history_%d.v" % fi,
                     "Definition cases : list (list (hitem vtx) * list (rt vtx)) :=\n [%s].\n" % ";\n  ".join(x[2] for x in part),
                     ["mismatches history_case_ok cases"]))

    # ---- frame cases: two morphologies sharing their inputs
    rows = []
    for c, o in zip(fr, out["frames"]):
        ck.tally(c["kind"])
        ops = "[%s]" % "; ".join("(%s, %s)" % ("MA" if x[0] == "A" else "MB", z(x[2])) for x in c["ops"] if x[1] == "to_root")
        if o["r"] == "ok":
            sv = lambda l: "[%s]" % "; ".join("None" if s is None else "(Some %s)" % seg_term(s) for s in l)  # noqa: E731
            cv = lambda l: "None" if l == "IndexError" else "(Some [%s])" % "; ".join(seg_term(s) for s in l)  # noqa: E731
            t = "(%s, %s, %s, Ok (%s, %s), %s, (%s, %s), (%s, %s))" % (
                vts(c["verts"]), zs(c["conn"]), ops, zs(o["connA"]), zs(o["connB"]), zs(o["caller_conn"]),
                sv(o["viewA"]), sv(o["viewB"]), cv(o["convA"]), cv(o["convB"]))
        elif o["r"] in ("IndexError", "Timeout"):
            t = "(%s, %s, %s, %s, %s, ([], []), (None, None))" % (
                vts(c["verts"]), zs(c["conn"]), ops, "IndexErr" if o["r"] == "IndexError" else "OutOfFuel", zs(c["conn"]))
        else:
            ck.disagree("run_two", strip(c), "Ok/IndexErr/OutOfFuel", o["r"], note="exception the model does not have")
            continue
        rows.append((c, o, t))
    for fi, part in enumerate(chunks(rows, 300)):
        jobs.append(("frame", part, "Cases_C18_frame_%d.v" % fi,
                     "Definition cases : list (list vtx * list Z * list (who * Z) * res (list Z * list Z) * list Z\n"
                     "  * (list (option (segment vtx)) * list (option (segment vtx)))\n"
                     "  * (option (list (segment vtx)) * option (list (segment vtx)))) :=\n [%s].\n"
                     % ";\n  ".join(x[2] for x in part),
                     ["mismatches frame_case_ok cases"]))

    # ---- Coq evaluates the model (and the theorems' domain checks) on every case; files are compiled in parallel
    with concurrent.futures.ThreadPoolExecutor(max_workers=6) as ex:
        results = list(ex.map(lambda j: eval_cases(ck, j[2], j[3], j[4]), jobs))
    dom_bad = 0
    for (kind, part, name, _, _), res in zip(jobs, results):
        if not res or None in res:
            continue
        if kind == "root":
            for i in res[0]:
                dis["to_root"] += 1
                ck.disagree("to_root", strip(part[i][0]), "differs (see replay)", part[i][1])
            dom_bad += len(res[1])
        elif kind == "view":
            for i in res[0]:
                dis["view"] += 1
                ck.disagree("segments_view", strip(part[i][0]), "differs (see replay)", {k: part[i][1][k] for k in ("len", "segs")})
            for i in res[1]:
                dis["convert"] += 1
                ck.disagree("to_neuroml_morphology", strip(part[i][0]), "segments of vertices 1..n-1", part[i][1]["conv"],
                            note="implementation agrees with the pinned-code model to_neuroml_morphology_orig"
                            if i not in res[2] else "")
            orig["convert"] += len([i for i in res[1] if i not in res[2]])
            dom_bad += len(res[3])
            for i in res[4]:
                dis["view"] += 1
                ck.disagree("segment_at (which indices the segment view answers)", strip(part[i][0]),
                            "m.segments[k] for k outside 0..len-1 as numpy indexing of the index table gives it",
                            {"probes": part[i][1].get("probes")})
        elif kind == "doc":
            for i in res[0]:
                dis["document"] += 1
                o = part[i][1]
                ck.disagree("write_document/load", strip(part[i][0]), "differs (see replay)",
                            {k: o.get(k) for k in ("r", "msg", "loaded")},
                            note="implementation agrees with the pinned-code model write_document_orig" if i not in res[1] else "")
            orig["document"] += len([i for i in res[0] if i not in res[1]])
            dom_bad += len(res[2])
        elif kind == "history":
            for i in res[0]:
                dis["history"] += 1
                ck.disagree("roundtrip_history (each write starts from an empty file)", strip(part[i][0]),
                            "every step as on a fresh path",
                            [{k: so.get(k) for k in ("r", "msg", "n_written", "n_loaded")} for so in part[i][1]["steps"]])
        elif kind == "frame":
            for i in res[0]:
                dis["frame"] += 1
                o = part[i][1]
                ck.disagree("run_two (two morphologies sharing inputs = independent values)", strip(part[i][0]),
                            "each morphology as its own operations alone leave it; caller's arrays unchanged",
                            {k: o.get(k) for k in ("r", "connA", "connB", "caller_conn", "frame")})
        else:
            for i in res[0]:
                dis["morphology"] += 1
                ck.disagree("write_morphology/load", strip(part[i][0]), "differs (see replay)", part[i][1])
    # the harness's classification "inside the theorems' domain" must be the one Coq computes (to_root_domb,
    # view_domb, doc_domb; C18_domain_checks_sound): otherwise predicate and theorem speak about different inputs
    ck.oblige("domain-classification-agrees-with-Coq", dom_bad == 0, "%d inputs classified differently" % dom_bad,
              kind="correspondence")
    ck.extra["disagreements_by_model"] = dis
    ck.extra["implementation_matches_pinned_code_model_instead"] = orig

    # ---- theorems
    ck.compile_props()

    # ---- the property predicate on the implementation (always runs)
    for c, o in zip(tr, out["to_root"]):
        nt = None
        if c["valid"]:
            check_to_root(ck, c, o)
            if c["index"] != 0 or c.get("then"):
                nt = ["root", c["conn"], c["index"], c.get("then")]
        ck.count(1, nontrivial_key=nt, sample={"to_root": strip(c), "implementation": o.get("conn", o["r"])}
                 if c["kind"].startswith("random") and len(c["conn"]) in (5, 6, 7) else None)
    for c, o in zip(vw, out["views"]):
        if c["plain"]:
            check_view(ck, c, o)
        check_probes(ck, c, o)
        ck.count(1, nontrivial_key=["view", c["conn"], c["verts"][:2], c["mask"]] if len(c["conn"]) >= 2 else None)
    for c, o in zip(dc, out["docs"]):
        _, in_domain = effective_names(c)
        if in_domain:
            check_file(ck, {"cells": c["cells"], "morphology": c["morphs"]}, o, standalone=bool(c["morphs"]))
        else:
            ck.tally("doc:outside-domain(name clash)")
        ck.count(1, nontrivial_key=["doc", strip(c)] if (c["cells"] or c["morphs"]) else None,
                 sample={"document": {"cells": len(c["cells"]), "morphology": len(c["morphs"])}, "implementation": o["r"]}
                 if c["kind"].startswith("stored") else None)
    for c, o in loaded_checks:
        if c["plain"]:
            check_view(ck, c, o)
        check_probes(ck, c, o)
        ck.count(1, nontrivial_key=["loaded-view", c["origin"], c["loaded_index"]] if len(c["conn"]) >= 2 else None)
    for c, o in zip(hs, out["histories"]):
        for k, (st, so) in enumerate(zip(c["steps"], o["steps"])):
            if "bad" in st:
                continue
            in_domain = effective_names(st["doc"])[1] if "doc" in st else True
            if not in_domain:
                continue
            good = so.get("r") == "ok" and so.get("np_equal") and so.get("inputs_unchanged")
            if not good:
                ck.witness(K_HIST if k > 0 else K_RT,
                           "write(data, path) over a path that was written before does not load back as the data "
                           "(write %d of %d to the same path)" % (k + 1, len(c["steps"])),
                           input={"writes_to_one_path": strip(c["steps"][:k + 1]), "preexisting": c.get("preexisting")},
                           expected="exactly the morphologies of the last write, arrays identical",
                           observed={x: so.get(x) for x in ("r", "stage", "msg", "n_written", "n_loaded", "np_equal", "missing")},
                           broken="C18_file_history")
                break
        ck.count(1, nontrivial_key=["history", strip(c)],
                 sample={"history": [("doc" if "doc" in st else "morph" if "morph" in st else "unsupported:" + st["bad"])
                                     for st in c["steps"]],
                         "implementation": [so.get("r") for so in o["steps"]]} if "stored" in c["kind"] else None)
    if static is not None:
        bad = []
        if not static["writer_modes"] or any(m != "w" for m in static["writer_modes"]):
            bad.append("ArrayMorphWriter opens its file with mode(s) %s, not \"w\"" % static["writer_modes"])
        if not static["loader_modes"] or any(m != "r" for m in static["loader_modes"]):
            bad.append("ArrayMorphLoader opens its file with mode(s) %s, not \"r\"" % static["loader_modes"])
        extra = sorted(set(static["segmentlist_writes"]) - {"arraymorph", "instantiated_segments"})
        if extra:
            bad.append("SegmentList keeps state besides the morphology reference: self.%s" % ", self.".join(extra))
        extra = sorted(set(static["arraymorph_writes"]) - {"connectivity", "vertices", "id", "physical_mask", "node_types",
                                                           "fractions_along", "segments"})
        if extra:
            bad.append("ArrayMorphology assigns attributes outside its arrays: self.%s" % ", self.".join(extra))
        bad += ["ArrayMorphWriter: " + x for x in static.get("writer_open_problems", [])]
        ck.extra["static_facts_deviations"] = bad
    # ---- scale / form / repetition / environment: judged by the harness predicate only (no Coq literal, see evidence)
    ck.extra["judged_by_harness_predicate_only"] = [
        "one 9000-vertex comb morphology: len, every index 0..n-2 (incl. 4095/4096/4097/8191/8192), iteration count, refused "
        "indices, conversion count and end points, compared in the driver with the arrays (a Coq literal would be ~150k numerals)",
        "file-name forms (bare, relative, ./, absolute, spaces, non-ASCII, no extension, ../, pathlib.Path if PyTables takes it)",
        "load / mutate the result / load again: both loads equal the written arrays, no shared objects",
        "re-run of a deterministic subset under python -O, PYTHONHASHSEED=3, cwd=/: outputs equal to the default run"]
    for o in out["large"]:
        n = o["n"]
        good = (o["len"] == n - 1 and o["indexed_ok"] == n - 1 and not o["first_bad_indices"] and o["iteration_count"] == n - 1
                and all(o["refused"].values()) and o.get("conv_count") == n - 1 and o.get("conv_ok") == n - 1)
        ck.tally("view:large-morphology")
        ck.count(1, nontrivial_key=["large", n])
        if not good:
            ck.witness(K_SCALE, "segment view / conversion of a %d-vertex morphology is not one segment per non-root vertex" % n,
                       input={"vertices": "row v = [v, v % 7, -v, 1 + v % 5] (float64 ndarray)",
                              "connectivity": "comb: [-1, 0, 1, 2, 2, 4, 4, 6, ...] (odd v -> v-1, even v -> v-2)", "n": n,
                              "mask": None},
                       expected={"len": n - 1, "every index 0..n-2 answers with (vertex k+1, its parent)": True,
                                 "iteration_count": n - 1, "conversion_count": n - 1},
                       observed=o, broken="C18_segment_view")
    for o in out["paths"]:
        ck.tally("file-name-form")
        ck.count(1, nontrivial_key=["path-form", o["form"]])
        if not (o["r"] == "ok" and o["np_equal"]):
            ck.witness(K_PATH, "write + load of a document fails for a file name given as: %s" % o["form"],
                       input={"file_name": o["path"], "form": o["form"], "cwd": "a fresh temporary directory",
                              "document": "1 cell with a 2-vertex morphology + 1 stand-alone 3-vertex morphology"},
                       expected="the written morphologies, arrays identical", observed=o, broken="C18_document_roundtrip")
    for d, o in zip(reload_docs, out["reloads"]):
        ck.tally("reload")
        ck.count(1, nontrivial_key=["reload", strip(d)])
        good = (o.get("r") == "ok" and o["first_load_equal"] and o["second_load_equal"] and o["third_load_equal"]
                and not o["same_document_object"] and o["shared_morphology_objects"] == 0 and o["shared_arrays"] == 0)
        if not good:
            ck.witness(K_RELOAD, "loading a file again after the first result was used (re-rooted in place) does not give the "
                                 "written arrays, or two loads share objects",
                       input={"document": {"cells": d["cells"], "morphology": d["morphs"]},
                              "steps": ["write", "load -> d1", "to_root(last) and vertices[0][0] += 1000 on every morphology of d1",
                                        "load -> d2", "load -> d3"]},
                       expected="d2 and d3 have the written arrays; d1, d2 share no document / morphology / array objects",
                       observed=o, broken="C18_document_roundtrip")
    # ---- environment: the same deterministic cases under -O, another hash seed, cwd=/
    sub = {"to_root": [strip(c) for c in tr[:10]], "views": [strip(c) for c in vw[:10]], "docs": [strip(c) for c in dc[:4]],
           "histories": [strip(c) for c in hs[:4]], "frames": [strip(c) for c in fr[:2]]}

    def scrub(x):
        if isinstance(x, dict):
            return {k: scrub(v) for k, v in x.items() if k != "msg"}
        if isinstance(x, list):
            return [scrub(v) for v in x]
        return x
    for label, kw in (("python -O", {"pyflags": ["-O"]}), ("PYTHONHASHSEED=3", {"extra_env": {"PYTHONHASHSEED": "3"}}),
                      ("cwd=/", {"cwd": "/"})):
        try:
            o2 = ck.impl("c18_impl.py", sub, timeout=300, **kw)
        except Exception as e:  # noqa: BLE001
            ck.oblige("environment:" + label, False, str(e)[-1500:], kind="correspondence")
            continue
        diff = [k for k in sub if scrub(o2[k]) != scrub(out[k][:len(sub[k])])]
        ck.oblige("environment:" + label, not diff, "outputs differ for: %s" % diff, kind="correspondence")
        ck.tally("environment-rerun:" + label, sum(len(v) for v in sub.values()))
        for k in diff:
            i = next(i for i in range(len(sub[k])) if scrub(o2[k][i]) != scrub(out[k][i]))
            ck.witness(K_ENV, "the implementation's result for the same input differs under %s" % label,
                       input={"kind": k, "case": sub[k][i], "environment": label},
                       expected=scrub(out[k][i]), observed=scrub(o2[k][i]))
    for c, o in zip(fr, out["frames"]):
        check_frame(ck, c, o)
        ck.count(1, nontrivial_key=["frame", strip(c)] if any(x[1] == "to_root" and x[2] != 0 for x in c["ops"]) else None,
                 sample={"two_morphologies": strip(c), "implementation": {k: o.get(k) for k in ("connA", "connB", "caller_conn")}}
                 if c["kind"] == "frame:stored" else None)
    for c, o in zip(ms, out["morphs"]):
        check_file(ck, {"morphology": strip(c)}, o, standalone=False)
        ck.count(1, nontrivial_key=["morph", strip(c)] if len(c["conn"]) >= 2 else None)


def replay(ck, data):
    """re-run a stored input on the implementation and on the model; print both"""
    w = data if "input" in data else {"input": data}
    inp = w["input"]
    payload, model = {}, None
    if "to_root" in inp:
        payload["to_root"] = [{"conn": inp["connectivity"], "index": inp["to_root"][0], "then": inp["to_root"][1:]}]
        model = "to_root_seq %s %s" % (zs(inp["connectivity"]), zs(inp["to_root"]))
    elif "vertices" in inp:
        c = {"verts": inp["vertices"], "conn": inp["connectivity"], "mask": inp.get("physical_mask")}
        payload["views"] = [c]
        model = "(segments_view vtx %s, to_neuroml_morphology vtx %s)" % (morph_term(c), morph_term(c))
    elif "cells" in inp:
        payload["docs"] = [{"cells": inp["cells"], "morphs": inp["morphology"]}]
        d = "(Build_adoc vtx [%s] [%s])" % ("; ".join("(%s, %s)" % (ostr(x["id"]), morph_term(x["m"])) for x in inp["cells"]),
                                            "; ".join(morph_term(m) for m in inp["morphology"]))
        model = "roundtrip_document vtx %s" % d
    elif "morphology" in inp:
        payload["morphs"] = [inp["morphology"]]
        model = "roundtrip_morphology vtx %s" % morph_term(inp["morphology"])
    else:
        print(json.dumps(data, indent=1)[:4000])
        return 0
    out = ck.impl("c18_impl.py", payload)
    ok, res, _ = ck.coq_eval("Replay_C18.v", HDR + "Eval vm_compute in (%s).\n" % model)
    print(json.dumps({"input": inp, "implementation": out, "model": res[0] if ok and res else "(model did not evaluate)",
                      "expected": w.get("expected")}, indent=1, default=str)[:8000])
    # exit status: does the property still fail on this input?
    ck2 = type("W", (), {"witness": lambda self, *a, **k: self.w.append(a), "w": []})()
    if "to_root" in inp:
        check_to_root(ck2, {"conn": inp["connectivity"], "index": inp["to_root"][0], "then": inp["to_root"][1:]}, out["to_root"][0])
    elif "vertices" in inp:
        check_view(ck2, payload["views"][0], out["views"][0])
    elif "cells" in inp:
        check_file(ck2, inp, out["docs"][0], standalone=bool(inp["morphology"]))
    else:
        check_file(ck2, inp, out["morphs"][0], standalone=False)
    return 1 if ck2.w else 0
