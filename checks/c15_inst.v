(* C15 instance obligations: what Proofs/BuilderTreeP.v assumes about the 16 component classes and the simple types
   involved holds of this run's tables (Gen_Bindings.T, Gen_Schema.S, Gen_Validate.V), for both agreement predicates
   C02 uses. *)
From Coq Require Import String List ZArith Bool.
From LNML Require Import Lib.Dec Lib.Regex Model.Gds Model.Validate Model.Xsd Model.Builder Model.BuilderTree Proofs.BuilderTreeP.
From Run Require Import Gen_Bindings Gen_Schema Gen_Validate.
Import ListNotations.
Open Scope string_scope.

Ltac cf := unfold class_facts; repeat split; try (eexists; vm_compute; reflexivity); vm_compute; reflexivity.

Lemma facts_val : forall (F : Type) (F_eqb F_ltb : F -> F -> bool) (F_of_dec : dec -> F) (parse_float : string -> option F) (finite : F -> bool),
  table_facts Gen_Bindings.T Gen_Schema.S (agree_val_cls Gen_Validate.V Gen_Bindings.T Gen_Schema.S) F F_eqb F_ltb F_of_dec parse_float finite.
Proof. intros. constructor; try cf; vm_compute; reflexivity. Qed.

Lemma facts_exp : forall (F : Type) (F_eqb F_ltb : F -> F -> bool) (F_of_dec : dec -> F) (parse_float : string -> option F) (finite : F -> bool),
  table_facts Gen_Bindings.T Gen_Schema.S (agree_exp_cls Gen_Bindings.T Gen_Schema.S) F F_eqb F_ltb F_of_dec parse_float finite.
Proof. intros. constructor; try cf; vm_compute; reflexivity. Qed.

From LNML Require Import Model.GdsExec Proofs.ValidateP3 Proofs.XsdP2 Proofs.BuilderP Proofs.BuilderValidP Proofs.BuilderC15P.

(* the component tree of a valid builder state passes validate() (recursive or not) and is exported as XML valid for the
   schema of this run: tree_conforms composed with the two generic C02 theorems *)
Lemma valid_here :
  forall (F : Type) (F_eqb F_ltb : F -> F -> bool) (F_of_dec : dec -> F) (parse_float : string -> option F)
         (finite : F -> bool) (fmt_float fmt_double : F -> string),
    (forall f, finite f = true -> parse_float (fmt_double f) = Some f) ->
    (forall f, finite f = true ->
       exists g, parse_float (fmt_float f) = Some g /\ finite g = true /\
                 forall d, (snd d <= 15)%nat ->
                           (F_ltb f (F_of_dec d) = false -> F_ltb g (F_of_dec d) = false) /\
                           (F_ltb (F_of_dec d) f = false -> F_ltb (F_of_dec d) g = false)) ->
    (forall d, finite (F_of_dec d) = true) -> float_order_ok F F_eqb F_ltb F_of_dec ->
    forall (mid bid : string) (c : cell) (rec : bool) (n : nat),
      nmlid mid = true -> nmlid bid = true -> valid_cell c = true -> tree_facets c = true ->
      validate F_eqb F_ltb F_of_dec parse_float Gen_Validate.V (cell_tree F F_of_dec mid bid c) rec = [] /\
      exists x, export F F_eqb F_of_dec fmt_float fmt_double (4 + n) Gen_Bindings.T "cell" (cell_tree F F_of_dec mid bid c) = Some x /\
                x_tag x = "cell" /\
                xsd_valid F_eqb F_ltb F_of_dec parse_float finite (4 + n) Gen_Schema.S "Cell" x = true.
Proof.
  intros F F_eqb F_ltb F_of_dec parse_float finite fmt_float fmt_double H1 H2 Hfin Hord mid bid c rec n Hm Hb Hv Hf.
  split.
  - apply (conforming_accepted F F_eqb F_ltb F_of_dec parse_float finite
             (agree_val_cls Gen_Validate.V Gen_Bindings.T Gen_Schema.S) Gen_Validate.V Gen_Bindings.T Gen_Schema.S
             (fun c H => H) (4 + n)).
    exact (tree_conforms _ _ _ F F_eqb F_ltb F_of_dec parse_float finite
             (facts_val F F_eqb F_ltb F_of_dec parse_float finite) Hfin Hord n mid bid c Hm Hb Hv Hf).
  - exact (conforming_export_valid F F_eqb F_ltb F_of_dec parse_float finite fmt_float fmt_double H1 H2
             (agree_exp_cls Gen_Bindings.T Gen_Schema.S) Gen_Bindings.T Gen_Schema.S (fun c H => H) (4 + n)
             (cell_tree F F_of_dec mid bid c) "cell"
             (tree_conforms _ _ _ F F_eqb F_ltb F_of_dec parse_float finite
                (facts_exp F F_eqb F_ltb F_of_dec parse_float finite) Hfin Hord n mid bid c Hm Hb Hv Hf)).
Qed.

(* end to end: any operation sequence whose inputs meet the schema facets *)
Lemma valid_run :
  forall (F : Type) (F_eqb F_ltb : F -> F -> bool) (F_of_dec : dec -> F) (parse_float : string -> option F)
         (finite : F -> bool) (fmt_float fmt_double : F -> string),
    (forall f, finite f = true -> parse_float (fmt_double f) = Some f) ->
    (forall f, finite f = true ->
       exists g, parse_float (fmt_float f) = Some g /\ finite g = true /\
                 forall d, (snd d <= 15)%nat ->
                           (F_ltb f (F_of_dec d) = false -> F_ltb g (F_of_dec d) = false) /\
                           (F_ltb (F_of_dec d) f = false -> F_ltb (F_of_dec d) g = false)) ->
    (forall d, finite (F_of_dec d) = true) -> float_order_ok F F_eqb F_ltb F_of_dec ->
    forall (factory : bool) (ops : list op) (c c' : cell) (mid bid : string) (rec : bool) (n : nat),
      run true ops (init_of factory) = BRet c -> run_ok true ops (init_of factory) = true -> Forall op_facets ops ->
      finish c = BRet c' -> segs c <> [] ->
      has_kind SpikeThresh c = true -> has_kind InitMembPotential c = true -> has_kind SpecificCapacitance c = true ->
      tree_facets c' = true -> nmlid mid = true -> nmlid bid = true ->
      validate F_eqb F_ltb F_of_dec parse_float Gen_Validate.V (cell_tree F F_of_dec mid bid c') rec = [] /\
      exists x, export F F_eqb F_of_dec fmt_float fmt_double (4 + n) Gen_Bindings.T "cell" (cell_tree F F_of_dec mid bid c') = Some x /\
                x_tag x = "cell" /\
                xsd_valid F_eqb F_ltb F_of_dec parse_float finite (4 + n) Gen_Schema.S "Cell" x = true.
Proof.
  intros F F_eqb F_ltb F_of_dec parse_float finite fmt_float fmt_double H1 H2 Hfin Hord
         factory ops c c' mid bid rec n Hrun Hok Hfac Hfin' Hne K1 K2 K3 Hf Hm Hb.
  apply (valid_here F F_eqb F_ltb F_of_dec parse_float finite fmt_float fmt_double H1 H2 Hfin Hord mid bid c' rec n Hm Hb);
    [|exact Hf].
  exact (builder_valid_partial factory ops c c' Hrun Hok Hfac Hfin' Hne K1 K2 K3).
Qed.

(* the float hypotheses hold of the decimal instance the correspondence runs with *)
Example float_hypotheses_decimal :
  (forall d : dec, (fun _ : dec => true) ((fun d : dec => d) d) = true) /\ float_order_ok dec dec_veqb dec_ltb (fun d => d).
Proof.
  split; [reflexivity|]. unfold float_order_ok. split; [|split; vm_compute; reflexivity].
  intros d Hd. unfold fracs in Hd. simpl in Hd. destruct Hd as [E|[E|[E|[E|[E|[]]]]]]; subst d; split; vm_compute; reflexivity.
Qed.

(* ... and the remaining hypotheses of valid_here (valid_cell, tree_facets) of a typical finished cell *)
Example typical_tree_hypotheses :
  exists c c', run true Proofs.BuilderC15P.typical_ops init_factory = BRet c /\ finish c = BRet c' /\
    valid_cell c' = true /\ tree_facets c' = true.
Proof.
  eexists. eexists. split; [vm_compute; reflexivity|]. split; [vm_compute; reflexivity|]. split; vm_compute; reflexivity.
Qed.
