"""C14 - segment-group membership is the transitive closure; optimising never changes it.

Coq: Model/Groups.v (resolve, optimise_group, optimise_all; natsort as a Section function),
     Proofs/GroupsP.v, Props/C14.v (closure / preservation / cleanliness / idempotence, for every
     acyclic include graph, by induction).
Tie: correspondence.  Generated cells (acyclic include graphs with overlaps and duplicates, plus a
     malformed stream: missing groups, cycles, duplicate group ids) go through the REAL
     Cell.get_all_segments_in_group / optimise_segment_groups (impl/c14_impl.py); inputs and the
     implementation's outputs are written as Coq terms into Cases_C14_<k>.v and the kernel
     computes the indices where the model differs (`mismatches true cases` must be []).
Witness search: the property itself (closure by an independent BFS in this file, set preservation,
     no duplicate / covered member, twice = once) is evaluated on the implementation's outputs.
"""
import ast
import copy
import json
import os
import time

from lib.vcommon import REPO, coq_list, coq_opt, coq_str, coq_z

# g1/g01, dend_1/dend_01, x9y1/x09y1 are different ids with the SAME natural-sort key
GROUP_NAMES = ["g01", "dend_01", "x09y1", "sec7", "sec007", "Dend_1", "dend_1", "G1", "g1", "g2", "g3", "g10", "g11", "g20", "dend_1", "dend_2", "dend_12", "axon_3", "axon_21",
               "soma_group", "axon_group", "dendrite_group", "a", "b", "ab", "B2", "b2x7", "sec-1", "sec_1",
               "x9y1", "x9y10", "x10y2", "7up", "12k", "k", "z"]

# the stored witness of DESIGN.md par.7 (C14) always runs first
CORPUS = [
    {"segs": [0, 1, 2], "groups": [{"id": "a", "members": [0], "includes": [], "nlex": None},
                                   {"id": "b", "members": [1], "includes": [], "nlex": None},
                                   {"id": "g", "members": [0, 1, 2], "includes": ["a", "b"], "nlex": None}],
     "kind": "corpus:two-includes"},
    {"segs": [0, 1, 2, 3], "groups": [{"id": "g", "members": [3, 0, 1, 2, 1], "includes": ["b", "a", "b"], "nlex": "GO:1"},
                                      {"id": "a", "members": [0, 1], "includes": [], "nlex": None},
                                      {"id": "b", "members": [1, 2], "includes": ["a"], "nlex": None}],
     "kind": "corpus:overlap-chain"},
    {"segs": [5, 3, 1], "groups": [{"id": "top", "members": [5], "includes": ["all"], "nlex": None}],
     "kind": "corpus:include-undefined-all"},
    {"segs": [0, 1], "groups": [{"id": "g10", "members": [1, 0, 1], "includes": [], "nlex": None},
                                {"id": "g2", "members": [0], "includes": [], "nlex": None},
                                {"id": "all", "members": [1], "includes": ["g10", "g2", "g10"], "nlex": None}],
     "kind": "corpus:natsort"},
    {"segs": [0], "groups": [{"id": "g", "members": [0], "includes": ["nope"], "nlex": None}],
     "kind": "corpus:missing-group"},
    # segment ids beyond 2**53 / 2**63 (exact integers; nothing may pass them through a float or a fixed-width integer)
    {"segs": [3, 9007199254740993, 9223372036854775808, 9223372036854775809, 9223372036854775810, 7], "kind": "corpus:huge-segment-ids",
     "groups": [{"id": "far", "members": [9223372036854775809, 9223372036854775808, 9223372036854775809], "includes": [], "nlex": None},
                {"id": "mix", "members": [9223372036854775810, 3, 9007199254740993, 9223372036854775808, 7, 9223372036854775810],
                 "includes": ["far", "far"], "nlex": None},
                {"id": "small", "members": [7, 3, 7], "includes": [], "nlex": None},
                {"id": "plain", "members": [9223372036854775809, 7, 9223372036854775810, 9223372036854775808, 9007199254740993, 3, 7],
                 "includes": [], "nlex": None},
                {"id": "top", "members": [9223372036854775810, 9007199254740993], "includes": ["small", "mix"], "nlex": None}]},
    # two groups hold ONE members list object (ext.members = dend.members); a third one of another cell too
    {"segs": [0, 1, 2, 3], "kind": "corpus:shared-members-list",
     "groups": [{"id": "prox", "members": [1, 2], "includes": [], "nlex": None},
                {"id": "dend", "members": [2, 3, 1, 3], "includes": ["prox"], "nlex": None},
                {"id": "ext", "members": [2, 3, 1, 3], "includes": [], "nlex": None}],
     "shares": [{"kind": "members", "from": 1, "to": 2}], "optimise_one": "dend", "other_cell": [1]},
    {"segs": [0, 1, 2, 3], "kind": "corpus:shared-includes-list",
     "groups": [{"id": "p", "members": [1], "includes": [], "nlex": None}, {"id": "q", "members": [2], "includes": [], "nlex": None},
                {"id": "a", "members": [1, 3], "includes": ["q", "p", "q"], "nlex": None},
                {"id": "b", "members": [2, 0, 0], "includes": ["q", "p", "q"], "nlex": None}],
     "shares": [{"kind": "includes", "from": 2, "to": 3}], "optimise_one": "b"},
    {"segs": [0, 1, 2], "groups": [{"id": "d1", "members": [1], "includes": [], "nlex": None},
                                   {"id": "d01", "members": [2], "includes": [], "nlex": None},
                                   {"id": "top", "members": [0, 1], "includes": ["d1", "d01", "d1"], "nlex": None}],
     "kind": "corpus:ids-equal-under-natural-sort"},
    {"segs": [0], "groups": [{"id": "p", "members": [0], "includes": ["q"], "nlex": None},
                             {"id": "q", "members": [], "includes": ["p"], "nlex": None}],
     "kind": "corpus:cycle"},
]


# ----------------------------------------------------------------------------- generator
def gen_case(rng, big=False):
    kind = rng.choices(["acyclic", "missing", "cycle", "dupid"], weights=[88, 4, 4, 4])[0]
    ng = rng.randint(1, 12 if big else 7)
    nseg = rng.randint(0, 14 if big else 8)
    segs = rng.sample(range(0, 30), nseg)
    names = rng.sample(GROUP_NAMES, ng)
    if rng.random() < 0.25 and "all" not in names:
        names[rng.randrange(ng)] = "all"
    topo = list(names)  # includes only point to earlier entries
    groups = {}
    closure = {}
    for k, nm in enumerate(topo):
        incs = []
        if k > 0 and rng.random() < 0.7:
            for _ in range(rng.choice([1, 1, 2, 2, 3, 4])):
                incs.append(topo[rng.randrange(k)])
            if rng.random() < 0.3:
                incs.append(rng.choice(incs))  # a repeated include
        if "all" not in names and rng.random() < 0.06:
            incs.append("all")  # resolved by the assume_all_means_all fallback
        cov = set()
        for i in incs:
            cov |= closure.get(i, set(segs))
        mem = []
        pool = segs
        for _ in range(rng.choice([0, 1, 2, 3, 3, 4, 6]) if segs else 0):   # members are segments of the cell
            if cov and rng.random() < 0.45:
                mem.append(rng.choice(sorted(cov)))  # a member an include supplies
            else:
                mem.append(rng.choice(pool))
        if mem and rng.random() < 0.3:
            mem.append(rng.choice(mem))
        groups[nm] = {"id": nm, "members": mem, "includes": incs,
                      "nlex": rng.choice([None, None, "GO:0043025", "sao864921383"])}
        closure[nm] = set(mem) | cov
    order = list(names)
    rng.shuffle(order)
    gl = [groups[n] for n in order]
    if kind == "missing" and gl:
        rng.choice(gl)["includes"].append("no_such_group")
    elif kind == "cycle" and gl:
        a = rng.choice(gl)
        b = rng.choice(gl)
        a["includes"].append(b["id"])
        b["includes"].append(a["id"])
        if not b["members"]:
            b["members"].append(0)
        if not a["members"]:
            a["members"].append(0)
    elif kind == "dupid" and len(gl) >= 2:
        gl[-1]["id"] = gl[0]["id"]
    return {"segs": segs, "groups": gl, "kind": kind}


# ------------------------------------------------------------- reference semantics (independent)
def first(groups, gid):
    for g in groups:
        if g["id"] == gid:
            return g
    return None


def well_formed(case):
    """unique non-empty ids, every include names a group (or the undefined 'all'), acyclic"""
    ids = [g["id"] for g in case["groups"]]
    if len(set(ids)) != len(ids) or any(not i for i in ids):
        return False
    for g in case["groups"]:
        for i in g["includes"]:
            if i not in ids and i != "all":
                return False
    state = {}

    def dfs(a):
        if state.get(a) == 1:
            return False
        if state.get(a) == 2:
            return True
        state[a] = 1
        g = first(case["groups"], a)
        if g:
            for i in g["includes"]:
                if not dfs(i):
                    return False
        state[a] = 2
        return True
    return all(dfs(i) for i in ids)


def closure(segs, groups, gid):
    """least set containing the members and closed under includes (worklist, no recursion)"""
    out, seen, todo = set(), set(), [gid]
    while todo:
        a = todo.pop()
        if a in seen:
            continue
        seen.add(a)
        g = first(groups, a)
        if g is None:
            if a == "all":
                out |= set(segs)
            continue
        out |= set(g["members"])
        todo.extend(g["includes"])
    return out


def predicate(case, res):
    """list of (key, what, expected, observed) violations of C14 on the implementation's answers"""
    bad = []
    groups = case["groups"]
    segs = case["segs"]
    want = {g["id"]: closure(segs, groups, g["id"]) for g in groups}
    for g, r in zip(groups, res["resolved"]):
        if not isinstance(r, list):
            bad.append(("C14:resolve-raises", "get_all_segments_in_group(%r) raised" % g["id"], sorted(want[g["id"]]), r))
        elif len(set(r)) != len(r):
            bad.append(("C14:resolve-reports-twice", "a segment is reported twice for %r" % g["id"], sorted(want[g["id"]]), r))
        elif set(r) != want[g["id"]]:
            bad.append(("C14:resolve-not-closure", "resolved set of %r is not the transitive closure" % g["id"],
                        sorted(want[g["id"]]), r))
    def ordered_bad(lst, when):
        for g, o in zip(groups, lst or []):
            w = sorted(want[g["id"]])
            if "ids" not in o:
                bad.append(("C14:ordered-segments-raises", "get_ordered_segments_in_groups([%r]) raised %s" % (g["id"], when), w, o))
                continue
            forms = [o["ids"], o["ids_cum"], o["ids_path"], o["ids_both"]]
            if any(len(set(f)) != len(f) for f in forms) or o["n_cum"] > len(w) or o["n_cum_both"] > len(w):
                bad.append(("C14:ordered-segments-lists-a-segment-twice",
                            "get_ordered_segments_in_groups([%r]) %s lists a segment more than once (or has a cumulative length "
                            "per duplicate)" % (g["id"], when), w, o))
            elif any(f != w for f in forms) or o["n_cum"] != len(w) or o["n_cum_both"] != len(w) or o["path_keys"] != w:
                bad.append(("C14:ordered-segments-not-the-closure", "get_ordered_segments_in_groups([%r]) %s is not the group's "
                            "segments by ascending id" % (g["id"], when), w, o))
    ordered_bad(res.get("ordered"), "before optimising")
    one = res.get("after_one")
    if isinstance(one, list) and case.get("optimise_one") is not None:
        for g0, g1 in zip(groups, one):
            if closure(segs, one, g1["id"]) != want[g0["id"]]:
                bad.append(("C14:optimise-one-group-changes-resolved-set", "optimise_segment_group(%r) changed the segments of %r "
                            "(by the closure over the rows read back)" % (case["optimise_one"], g0["id"]), sorted(want[g0["id"]]), g1))
            elif g0["id"] != case["optimise_one"] and (g0["members"] != g1["members"] or g0["includes"] != g1["includes"]):
                bad.append(("C14:optimise-one-group-changes-another-group", "optimise_segment_group(%r) changed the rows of group %r"
                            % (case["optimise_one"], g0["id"]), g0, g1))
    if "other_before" in res and res.get("other_after") != res["other_before"]:
        bad.append(("C14:optimise-changes-a-group-of-another-cell", "optimising changed a group of ANOTHER cell that holds the same list object",
                    res["other_before"], res.get("other_after")))
    opt = res["opt"]
    if not isinstance(opt, list):
        bad.append(("C14:optimise-raises", "optimise_segment_groups raised", "returns", opt))
        return bad
    ordered_bad(res.get("ordered_after"), "after optimising")
    for g0, g in zip(groups, opt):
        if closure(segs, opt, g["id"]) != want[g0["id"]]:
            bad.append(("C14:optimise-changes-resolved-set", "the segments of %r (closure over the rows read back) changed by optimising"
                        % g0["id"], sorted(want[g0["id"]]), g))
    for g, r in zip(groups, res["resolved_after"]):
        if not isinstance(r, list) or set(r) != want[g["id"]]:
            bad.append(("C14:optimise-changes-resolved-set", "resolved set of %r changed by optimising" % g["id"],
                        sorted(want[g["id"]]), r))
    if [g["id"] for g in opt] != [g["id"] for g in groups]:
        bad.append(("C14:optimise-changes-groups", "group list changed", [g["id"] for g in groups], [g["id"] for g in opt]))
        return bad
    for g0, g in zip(groups, opt):
        many = len(set(g0["includes"])) >= 2
        suffix = "-with>=2-includes" if many else ""
        if len(set(g["members"])) != len(g["members"]):
            bad.append(("C14:duplicate-member" + suffix, "group %r has a duplicate member after optimising" % g["id"],
                        "no duplicate", g["members"]))
        if len(set(g["includes"])) != len(g["includes"]):
            bad.append(("C14:duplicate-include", "group %r has a duplicate include after optimising" % g["id"],
                        "no duplicate", g["includes"]))
        if set(g["includes"]) != set(g0["includes"]):
            bad.append(("C14:include-set-changed", "include set of %r changed" % g["id"], sorted(set(g0["includes"])),
                        g["includes"]))
        sup = set()
        for i in g["includes"]:
            sup |= closure(segs, opt, i)
        cov = [m for m in g["members"] if m in sup]
        if cov:
            bad.append(("C14:covered-member-kept" + suffix,
                        "group %r keeps member(s) %s that an included group supplies" % (g["id"], sorted(set(cov))),
                        "no member supplied by an include", g["members"]))
    # (lists compared as multisets: ids with equal natural-sort keys are ordered by set iteration)
    if not isinstance(res["opt2"], list) or canon_groups(res["opt2"]) != canon_groups(opt):
        bad.append(("C14:optimise-not-idempotent", "optimising twice differs from once", opt, res["opt2"]))
    return bad


# ------------------------------------------------------------- histories on one Cell object
def reaches(groups, a, b):
    """does group a (transitively) include group b?"""
    seen, todo = set(), [a]
    while todo:
        x = todo.pop()
        if x in seen:
            continue
        seen.add(x)
        g = first(groups, x)
        if g:
            todo.extend(g["includes"])
    return b in seen


def ref_optimise_one(segs, groups, gid):
    """what optimising SHOULD do, used only to keep the generator's mirror of the cell plausible"""
    g = first(groups, gid)
    ms = list(dict.fromkeys(g["members"]))
    incs = sorted(dict.fromkeys(g["includes"]))
    g["members"], g["includes"] = ms, incs
    if ms and incs:
        cov = set()
        for i in incs:
            cov |= closure(segs, groups, i)
        g["members"] = sorted(m for m in ms if m not in cov)


def gen_edit(rng, segs, mirror):
    r = rng.random()
    with_inc = [g for g in mirror if g["includes"]]
    if r < 0.45:
        # move a segment out of a group into another one - preferably into a group that includes it
        if with_inc and rng.random() < 0.8:
            b = rng.choice(with_inc)
            below = [g for g in mirror if g["id"] != b["id"] and reaches(mirror, b["id"], g["id"]) and g["members"]]
            a = rng.choice(below) if below else None
        else:
            a = rng.choice([g for g in mirror if g["members"]] or [None])
            b = rng.choice(mirror)
        if a is None or a["id"] == b["id"]:
            return None
        sg = rng.choice(a["members"])
        a["members"] = [m for m in a["members"] if m != sg]
        b["members"].append(sg)
        return {"do": "move_member", "from": a["id"], "to": b["id"], "seg": sg}
    if r < 0.58:
        g = rng.choice(mirror)
        sg = rng.choice(segs or [0])
        g["members"].append(sg)
        return {"do": "add_member", "id": g["id"], "seg": sg}
    if r < 0.70:
        g = rng.choice([g for g in mirror if g["members"]] or [None])
        if g is None:
            return None
        sg = rng.choice(g["members"])
        g["members"] = [m for m in g["members"] if m != sg]
        return {"do": "remove_member", "id": g["id"], "seg": sg}
    if r < 0.82:
        g, h = rng.choice(mirror), rng.choice(mirror)
        if g["id"] == h["id"] or reaches(mirror, h["id"], g["id"]):
            return None
        g["includes"].append(h["id"])
        return {"do": "add_include", "id": g["id"], "inc": h["id"]}
    if r < 0.92:
        if not with_inc:
            return None
        g = rng.choice(with_inc)
        h = rng.choice(g["includes"])
        g["includes"] = [i for i in g["includes"] if i != h]
        return {"do": "remove_include", "id": g["id"], "inc": h}
    if r < 0.96 and len(mirror) >= 2:
        # b.members = a.members / b.includes = a.includes: ONE list object in two groups from now on
        a, b = rng.sample(mirror, 2)
        if rng.random() < 0.7:
            b["members"] = list(a["members"])
            return {"do": "share_members", "from": a["id"], "to": b["id"]}
        if any(reaches(mirror, i, b["id"]) for i in a["includes"]):
            return None
        b["includes"] = list(a["includes"])
        return {"do": "share_includes", "from": a["id"], "to": b["id"]}
    free = [n for n in GROUP_NAMES if n != "all" and first(mirror, n) is None]
    if not free:
        return None
    ng = {"id": rng.choice(free), "members": [rng.choice(segs or [0]) for _ in range(rng.randint(0, 3))],
          "includes": [rng.choice(mirror)["id"] for _ in range(rng.randint(0, 2))], "nlex": None}
    mirror.append(ng)
    return {"do": "add_group", "id": ng["id"], "members": list(ng["members"]), "includes": list(ng["includes"])}


def gen_history(rng):
    while True:
        c = gen_case(rng, big=(rng.random() < 0.2))
        if c["kind"] == "acyclic" and len(c["groups"]) >= 2 and well_formed(c) and "all" not in \
                [i for g in c["groups"] for i in g["includes"]]:
            break
    segs = c["segs"]
    mirror = copy.deepcopy(c["groups"])
    steps = []

    def opt(one):
        if one:
            gid = rng.choice([g for g in mirror if g["includes"]] or mirror)["id"]
            steps.append({"do": "optimise_one", "id": gid})
            ref_optimise_one(segs, mirror, gid)
        else:
            steps.append({"do": "optimise_all"})
            for g in list(mirror):
                ref_optimise_one(segs, mirror, g["id"])
    if rng.random() < 0.75:
        opt(False)
    for _ in range(rng.randint(1, 4)):
        for _e in range(rng.randint(1, 3)):
            e = gen_edit(rng, segs, mirror)
            if e:
                steps.append(e)
        one = rng.random() < 0.65
        opt(one)
        if rng.random() < 0.3:
            steps.append(dict(steps[-1]))  # the same call again: twice = once
    return {"segs": segs, "groups": c["groups"], "steps": steps, "kind": "history"}


HISTORY_CORPUS = [
    {"segs": [0, 1, 2, 3], "kind": "corpus:history-shared-members-list",
     "groups": [{"id": "prox", "members": [1, 2], "includes": [], "nlex": None},
                {"id": "dend", "members": [2, 3], "includes": ["prox"], "nlex": None},
                {"id": "ext", "members": [0], "includes": [], "nlex": None}],
     "steps": [{"do": "share_members", "from": "dend", "to": "ext"}, {"do": "optimise_one", "id": "dend"},
               {"do": "optimise_one", "id": "ext"}, {"do": "optimise_all"}]},
    # full pass, then a segment is moved from an included group into the including group, then only
    # that group is optimised (any per-pass state kept on the cell is stale by then)
    {"segs": [0, 1, 2, 3, 4], "kind": "corpus:history-move-then-optimise-one",
     "groups": [{"id": "p", "members": [1, 2], "includes": [], "nlex": None},
                {"id": "b", "members": [2, 3], "includes": ["p"], "nlex": None},
                {"id": "e", "members": [0, 4], "includes": ["b"], "nlex": None}],
     "steps": [{"do": "optimise_all"}, {"do": "move_member", "from": "p", "to": "b", "seg": 2},
               {"do": "optimise_one", "id": "b"}, {"do": "optimise_one", "id": "b"}, {"do": "optimise_all"}]},
    {"segs": [0, 1, 2], "kind": "corpus:history-include-removed",
     "groups": [{"id": "a", "members": [0, 1], "includes": [], "nlex": None},
                {"id": "g", "members": [1, 2], "includes": ["a"], "nlex": None}],
     "steps": [{"do": "optimise_all"}, {"do": "remove_include", "id": "g", "inc": "a"}, {"do": "add_member", "id": "g", "seg": 1},
               {"do": "add_group", "id": "z", "members": [1], "includes": []}, {"do": "add_include", "id": "g", "inc": "z"},
               {"do": "remove_member", "id": "z", "seg": 1}, {"do": "optimise_one", "id": "g"}]},
]


def canon_groups(gs):
    return [(g["id"], sorted(g["members"]), sorted(g["includes"]), g["nlex"]) for g in gs]


def history_predicate(h, recs):
    """violations of C14 along a history: (key, what, expected, observed, index of the failing step)"""
    bad = []
    segs = h["segs"]
    for k, (st, rec) in enumerate(zip(h["steps"], recs)):
        if st["do"] not in ("optimise_all", "optimise_one"):
            continue
        before = rec["before"]
        case0 = {"segs": segs, "groups": before["groups"]}
        if not well_formed(case0):
            continue
        after = rec["after"]
        if "groups" not in after:
            bad.append(("C14:history:optimise-raises", "%s raised after edits" % st["do"], "returns", after, k))
            continue
        if rec.get("new_attributes"):
            bad.append(("C14:optimise-leaves-state-on-cell", "%s left new attribute(s) %s on the cell"
                        % (st["do"], rec["new_attributes"]), "no new attribute", rec["new_attributes"], k))
        want = {g["id"]: closure(segs, before["groups"], g["id"]) for g in before["groups"]}
        for g, r0, r1 in zip(before["groups"], before["resolved"], after["resolved"]):
            if not isinstance(r0, list) or set(r0) != want[g["id"]] or len(set(r0)) != len(r0):
                bad.append(("C14:history:resolve-not-closure", "resolved set of %r is not the closure of the cell's current groups"
                            % g["id"], sorted(want[g["id"]]), r0, k))
            elif not isinstance(r1, list) or set(r1) != want[g["id"]]:
                bad.append(("C14:history:optimise-changes-resolved-set",
                            "%s changed the resolved set of %r (cell edited since an earlier optimise)" % (json.dumps(st), g["id"]),
                            sorted(want[g["id"]]), r1, k))
        targets = [g["id"] for g in after["groups"]] if st["do"] == "optimise_all" else [st["id"]]
        for g in after["groups"]:
            if g["id"] not in targets:
                continue
            if len(set(g["members"])) != len(g["members"]) or len(set(g["includes"])) != len(g["includes"]):
                bad.append(("C14:history:duplicate-left", "group %r has a duplicate member/include after %s" % (g["id"], st["do"]),
                            "no duplicate", g, k))
            sup = set()
            for i in g["includes"]:
                sup |= closure(segs, after["groups"], i)
            cov = [m for m in g["members"] if m in sup]
            if cov:
                bad.append(("C14:history:covered-member-kept", "group %r keeps %s although an include supplies it" % (g["id"], cov),
                            "no covered member", g["members"], k))
        fresh = rec.get("fresh")
        if isinstance(fresh, dict) and "groups" in fresh and canon_groups(fresh["groups"]) != canon_groups(after["groups"]):
            bad.append(("C14:history:optimise-depends-on-earlier-calls",
                        "%s gives another result on this cell than on a freshly built equal cell" % json.dumps(st),
                        canon_groups(fresh["groups"]), canon_groups(after["groups"]), k))
        if k + 1 < len(recs) and h["steps"][k + 1] == st and "groups" in recs[k + 1]["after"] \
                and canon_groups(recs[k + 1]["after"]["groups"]) != canon_groups(after["groups"]):
            bad.append(("C14:history:optimise-not-idempotent", "the same call again changes the groups",
                        canon_groups(after["groups"]), canon_groups(recs[k + 1]["after"]["groups"]), k + 1))
    return bad


def shrink_history(ck, h, key, deadline):
    cur = {"segs": h["segs"], "groups": h["groups"], "steps": list(h["steps"])}
    for _ in range(20):
        if time.time() > deadline:
            break
        cands = [dict(cur, steps=cur["steps"][:j] + cur["steps"][j + 1:]) for j in range(len(cur["steps"]))]
        cands += [dict(cur, groups=[dict(g, members=g["members"][:j] + g["members"][j + 1:]) if gi == k else g
                                    for gi, g in enumerate(cur["groups"])])
                  for k, g0 in enumerate(cur["groups"]) for j in range(len(g0["members"]))]
        if not cands:
            break
        rs = ck.impl("c14_impl.py", {"histories": cands[:200]}, timeout=300)["histories"]
        nxt = None
        for c, r in zip(cands, rs):
            if any(b[0] == key for b in history_predicate(c, r)):
                nxt = c
                break
        if nxt is None:
            break
        cur = nxt
    return cur


# ------------------------------------------------------------- source check (fail closed)
ALLOWED_SELF = {"morphology", "id", "get_segment_group", "get_all_segments_in_group", "optimise_segment_group"}
METHODS = ["get_all_segments_in_group", "get_segment_group", "optimise_segment_groups", "optimise_segment_group"]
REFLECT = {"getattr", "setattr", "hasattr", "delattr", "vars", "globals", "locals", "__import__", "eval", "exec"}


def source_check(ck):
    """the property is about the cell's CURRENT groups: the four methods may read nothing of the cell but
    self.morphology (and self.id for messages), call only each other, use no reflection on self, no
    module-level mutable object, no mutable default argument.  Anything else is a broken obligation."""
    path = os.path.join(REPO, "neuroml", "nml", "nml.py")
    try:
        tree = ast.parse(open(path).read())
    except Exception as e:  # noqa
        ck.oblige("source:nml.py:parses", False, str(e), kind="source")
        return
    mod_data = set()
    cell = None
    for node in tree.body:
        if isinstance(node, (ast.Assign, ast.AnnAssign, ast.AugAssign)):
            for t in (node.targets if isinstance(node, ast.Assign) else [node.target]):
                for n in ast.walk(t):
                    if isinstance(n, ast.Name):
                        mod_data.add(n.id)
        if isinstance(node, ast.ClassDef) and node.name == "Cell":
            cell = node
    if cell is None:
        ck.oblige("source:class-Cell-found", False, "no class Cell in nml.py", kind="source")
        return
    defs = {}
    for n in cell.body:
        if isinstance(n, ast.FunctionDef):
            defs[n.name] = n          # the last definition wins, as in Python
    for m in METHODS:
        fn = defs.get(m)
        if fn is None:
            ck.oblige("source:Cell.%s:reads-only-the-groups" % m, False, "method not found", kind="source")
            continue
        problems = []
        for d in fn.args.defaults + [d for d in fn.args.kw_defaults if d is not None]:
            if isinstance(d, (ast.List, ast.Dict, ast.Set, ast.Call)):
                problems.append("mutable default argument at line %d" % d.lineno)
        for n in ast.walk(fn):
            if isinstance(n, ast.Attribute) and isinstance(n.value, ast.Name) and n.value.id == "self":
                if n.attr not in ALLOWED_SELF:
                    problems.append("self.%s at line %d" % (n.attr, n.lineno))
            elif isinstance(n, ast.Call) and isinstance(n.func, ast.Name) and n.func.id in REFLECT:
                problems.append("%s(...) at line %d" % (n.func.id, n.lineno))
            elif isinstance(n, (ast.Global, ast.Nonlocal)):
                problems.append("global/nonlocal at line %d" % n.lineno)
            elif isinstance(n, ast.Name) and isinstance(n.ctx, ast.Load) and n.id in mod_data:
                problems.append("module-level object %s at line %d" % (n.id, n.lineno))
        ck.oblige("source:Cell.%s:reads-only-the-groups" % m, not problems, "; ".join(problems[:6]), kind="source")


# ----------------------------------------------------------------------------- Coq terms
def q_res(r):
    if r is None:
        return "OOther"
    if isinstance(r, list):
        return "(OList %s)" % coq_list([coq_z(x) for x in r])
    e = r["err"]
    return {"NoGroup": "ONoGroup", "NoSuchGroup": "ONoSuchGroup", "Recursion": "ORecursion"}.get(e, "OOther")


def q_group(g):
    return "(mkGroup %s %s %s %s)" % (coq_str(g["id"]), coq_list([coq_z(m) for m in g["members"]]),
                                      coq_list([coq_str(i) for i in g["includes"]]), coq_opt(g["nlex"], coq_str))


def q_groups(r):
    if isinstance(r, list):
        return "(OGroups %s)" % coq_list([q_group(g) for g in r])
    e = r["err"]
    return {"NoGroup": "OGNoGroup", "NoSuchGroup": "OGNoSuchGroup", "Recursion": "OGRecursion"}.get(e, "OGOther")


def q_ordered(l):
    if l is None:
        return "None"
    return "(Some %s)" % coq_list([q_res(x["ids"] if "ids" in x else x) for x in l])


def q_case(c, r):
    return "(mkCase %s %s %s %s %s %s %s %s %s)" % (
        coq_list([coq_z(s) for s in c["segs"]]), coq_list([q_group(g) for g in c["groups"]]),
        coq_list([q_res(x) for x in r["resolved"]]), q_res(r["all"]), q_groups(r["opt"]),
        coq_list([q_res(x) for x in r["resolved_after"]]), q_groups(r["opt2"]),
        q_ordered(r.get("ordered")), q_ordered(r.get("ordered_after") if isinstance(r["opt"], list) else None))


HEADER = ("From Coq Require Import String List ZArith Bool.\nFrom LNML Require Import Model.Groups.\n"
          "Import ListNotations.\nOpen Scope string_scope.\n")


def cases_v(cases, results):
    body = ";\n  ".join(q_case(c, r) for c, r in zip(cases, results))
    return (HEADER + "Definition cases : list c14_case := [\n  " + body + "\n].\n"
            "Eval vm_compute in (mismatches true cases).\n"
            "Eval vm_compute in (mismatches false cases).\n")


def q_step(segs, st, rec):
    after = rec["after"]
    one = coq_opt(st["id"] if st["do"] == "optimise_one" else None, coq_str)
    if "groups" in after:
        aft, res_after = q_groups(after["groups"]), coq_list([q_res(x) for x in after["resolved"]])
    else:
        aft, res_after = q_groups(after), "[]"
    return "(mkStep %s %s %s %s %s %s)" % (
        coq_list([coq_z(x) for x in segs]), coq_list([q_group(g) for g in rec["before"]["groups"]]), one,
        coq_list([q_res(x) for x in rec["before"]["resolved"]]), aft, res_after)


def steps_v(terms):
    return (HEADER + "Definition steps : list c14_step := [\n  " + ";\n  ".join(terms) + "\n].\n"
            "Eval vm_compute in (step_mismatches steps).\n")


def parse_idx(s):
    s = s.strip()
    if s in ("[]", "nil"):
        return []
    return [int(x) for x in s.strip("[]").split(";") if x.strip()]


def strip(c):
    d = {"segs": c["segs"], "groups": c["groups"]}
    for k in ("via_file", "shares", "ordered", "optimise_one", "other_cell"):
        if c.get(k) is not None and c.get(k) is not False:
            d[k] = c[k]
    return d


# ----------------------------------------------------------------------------- shrinking
def shrink(ck, case, key, deadline):
    """greedy one-deletion shrinking of a failing well-formed cell (same violation key)"""
    import time
    cur = strip(case)
    for _ in range(25):
        if time.time() > deadline:
            break
        cands = []
        for k in range(len(cur["groups"])):
            gidk = cur["groups"][k]["id"]
            gs = [dict(g, includes=[i for i in g["includes"] if i != gidk]) for j, g in enumerate(cur["groups"]) if j != k]
            cands.append({"segs": cur["segs"], "groups": gs})
        for k, g in enumerate(cur["groups"]):
            for j in range(len(g["members"])):
                gs = [dict(h) for h in cur["groups"]]
                gs[k] = dict(g, members=g["members"][:j] + g["members"][j + 1:])
                cands.append({"segs": cur["segs"], "groups": gs})
            for j in range(len(g["includes"])):
                gs = [dict(h) for h in cur["groups"]]
                gs[k] = dict(g, includes=g["includes"][:j] + g["includes"][j + 1:])
                cands.append({"segs": cur["segs"], "groups": gs})
        cands = [dict(c, via_file=True) if cur.get("via_file") else c for c in cands if well_formed(c)][:300]
        if not cands:
            break
        rs = ck.impl("c14_impl.py", {"cases": cands}, timeout=300)["results"]
        nxt = None
        for c, r in zip(cands, rs):
            if any(b[0] == key for b in predicate(c, r)):
                nxt = c
                break
        if nxt is None:
            break
        cur = nxt
    return cur


# ----------------------------------------------------------------------------- run
def run(ck):
    ck.rule = ("one evaluation = one generated cell pushed through the real get_all_segments_in_group (every group + "
               "'all'), optimise_segment_groups, the queries again, and a second optimise; the kernel compares all of it "
               "with the model, and the C14 predicate is evaluated on the implementation's answers; non-trivial = an "
               "acyclic cell in which some group has an include and a member; distinct by (include-graph shape, "
               "overlap pattern)")
    ck.trusted = ["Coq 8.16.1 kernel + vm_compute (no native_compute)",
                  "hand-written model coq/Model/Groups.v of get_all_segments_in_group / optimise_segment_group(s), tied to "
                  "the code by the per-run correspondence (this file + impl/c14_impl.py)",
                  "natsort.natsorted: Section variables sortS/sortZ with hypotheses 'permutation' and 'sorting a sorted "
                  "list changes nothing' (discharged for the concrete insertion sorts natsortS/isortZ; the real natsort is "
                  "compared with them on every case)",
                  "Member/Include equality is by value (GeneratedsSuper.__eq__), modelled as Z / string equality"]
    ck.assumptions = ["include graph acyclic, every include names a defined group (or the undefined 'all'), group ids "
                      "unique and non-empty: hypotheses of the theorems; cells outside are only compared, not judged",
                      "ids with equal natural-sort keys (g1 / g01) ARE generated; the order natsort gives them comes from set "
                      "iteration over object addresses, which is why member/include lists are compared as multisets"]
    ck.gate_static()
    source_check(ck)

    n = ck.n(500, 8000)
    cases = [dict(c) for c in CORPUS]
    while len(cases) < n:
        cases.append(gen_case(ck.rng, big=(ck.rng.random() < 0.3)))
    # the corpus again, and a quarter of the generated cells, as cells READ FROM A FILE (segments are needed to write one)
    for c in [dict(c, kind=c["kind"] + ":from-file") for c in CORPUS]:
        cases.append(c)
    for c in cases:
        if c["segs"] and (c["kind"].endswith(":from-file") or (not c["kind"].startswith("corpus") and ck.rng.random() < 0.25)):
            c["via_file"] = True
            ck.tally("cell-read-from-file")
    for c in cases:
        if well_formed(c) and all(m in c["segs"] for g in c["groups"] for m in g["members"]):
            c["ordered"] = True        # get_ordered_segments_in_groups is asked for every group, before and after
        if c.get("via_file") or c["kind"].startswith("corpus") or not well_formed(c) or len(c["groups"]) < 2:
            continue
        if ck.rng.random() < 0.3:
            # two (or three) groups hold one list object
            gs = c["groups"]
            i = ck.rng.choice([k for k, g in enumerate(gs) if g["includes"]] or list(range(len(gs))))
            tos = ck.rng.sample([k for k in range(len(gs)) if k != i], min(len(gs) - 1, ck.rng.choice([1, 1, 2])))
            kind = "members" if ck.rng.random() < 0.75 else "includes"
            trial = copy.deepcopy(c)
            for j in tos:
                trial["groups"][j][kind] = list(trial["groups"][i][kind])
            if well_formed(trial):
                c["groups"] = trial["groups"]
                c["shares"] = [{"kind": kind, "from": i, "to": j} for j in tos]
                c["optimise_one"] = gs[ck.rng.choice([i] + tos)]["id"] if ck.rng.random() < 0.7 else None
                if ck.rng.random() < 0.4:
                    c["other_cell"] = [i]
                ck.tally("groups-sharing-a-list-object")
    nh = ck.n(160, 2500)
    hists = [copy.deepcopy(h) for h in HISTORY_CORPUS]
    while len(hists) < nh:
        hists.append(gen_history(ck.rng))
    # id lists for the natsort hypotheses: the group ids of the cases (shuffled) and fixed awkward ones
    sorts = [["dend_1", "dend_01", "dend_001", "dend_10", "dend_2"], ["sec007", "sec7", "sec07", "sec70"], ["Dend_1", "dend_1", "DEND_1"],
             ["g1", "g01", "G1", "g10", "g2", "g"], ["x9y10", "x09y1", "x9y1", "x9y01"], [3, 1, 2, 1, 10, 0], []]
    for c in cases[:ck.n(60, 400)]:
        l = [g["id"] for g in c["groups"]]
        ck.rng.shuffle(l)
        sorts.append(l)
        if c["segs"]:
            sorts.append([ck.rng.choice(c["segs"]) for _ in range(ck.rng.randint(1, 8))])
    out = ck.impl("c14_impl.py", {"sorts": sorts, "cases": [strip(c) for c in cases],
                                  "histories": [{"segs": h["segs"], "groups": h["groups"], "steps": h["steps"]} for h in hists]},
                  timeout=900)
    results, hresults = out["results"], out["histories"]

    # -- environment: the deterministic cells again under python -O, another hash seed, another working directory;
    #    the answers (lists as multisets) must be those of the default run
    def canon_out(o):
        def cl(x):
            return sorted(x) if isinstance(x, list) else x
        def cg(x):
            return canon_groups(x) if isinstance(x, list) else x
        return {"resolved": [cl(x) for x in o["resolved"]], "all": cl(o["all"]), "opt": cg(o["opt"]),
                "resolved_after": [cl(x) for x in o["resolved_after"]], "opt2": cg(o["opt2"]),
                "ordered": [x.get("ids", x) for x in o.get("ordered") or []]}
    env_cases = [strip(c) for c in cases[:len(CORPUS)]]
    for label, kw in (("python -O", {"pyflags": ["-O"]}), ("PYTHONHASHSEED=3", {"extra_env": {"PYTHONHASHSEED": "3"}}),
                      ("cwd=/", {"cwd": "/"})):
        try:
            er = ck.impl("c14_impl.py", {"cases": env_cases}, timeout=300, **kw)["results"]
        except Exception as e:  # noqa
            ck.oblige("environment:%s:runs" % label, False, str(e)[-800:], kind="correspondence")
            continue
        diff = [i for i, (a, b) in enumerate(zip(results[:len(env_cases)], er)) if canon_out(a) != canon_out(b)]
        ck.oblige("environment:%s:same-answers-as-default-run" % label, not diff, "differing corpus cells: %s" % diff, kind="correspondence")
        for i in diff[:1]:
            ck.witness("C14:answers-depend-on-environment:" + label, "the same cell gives other answers under %s" % label,
                       input=dict(env_cases[i], environment=label), expected=canon_out(results[i]), observed=canon_out(er[i]))

    # -- the natsort hypotheses on the REAL natsorted (a permutation - equal keys merge nothing - that
    #    fixes its own output), and the model's sorts against it (both are stable sorts of a list)
    sterms = []
    for l, r in zip(sorts, out["sorts"]):
        if sorted(map(str, r["once"])) != sorted(map(str, l)) or r["twice"] != r["once"]:
            ck.witness("C14:natsort-hypothesis-fails", "natsorted is not a permutation that fixes its own output on %r" % (l,),
                       input={"ids": l}, expected="permutation, stable under re-sorting", observed=r)
        if l and isinstance(l[0], int):
            sterms.append("listZ_eqb (isortZ %s) %s" % (coq_list([coq_z(x) for x in l]), coq_list([coq_z(x) for x in r["once"]])))
        else:
            sterms.append("listS_eqb (natsortS %s) %s" % (coq_list([coq_str(x) for x in l]), coq_list([coq_str(x) for x in r["once"]])))
    ok, res, sout = ck.coq_eval("Sorts_C14.v", HEADER + "Eval vm_compute in (forallb (fun b => b) %s).\n" % coq_list(sterms)
                                + "Eval vm_compute in %s.\n" % coq_list(sterms))
    ck.oblige("Sorts_C14.v:model_sorts_equal_real_natsorted", ok and res and res[0] == "true",
              detail=(sout[-1200:] if not ok else "per list: %s" % (res[1] if len(res) > 1 else "")), kind="correspondence")
    ck.extra["natsort_lists_compared"] = len(sorts)

    # -- correspondence: Coq does the diff
    matches_v0 = True
    any_bad = False
    for k in range(0, len(cases), 500):
        cs, rs = cases[k:k + 500], results[k:k + 500]
        ok, res, out = ck.coq_eval("Cases_C14_%d.v" % (k // 500), cases_v(cs, rs))
        good = ok and len(res) == 2 and parse_idx(res[0]) == []
        ck.oblige("Cases_C14_%d.v:model_agrees_with_implementation" % (k // 500), good,
                  detail=(out[-1500:] if not ok else "differing case indices: %s" % res[0] if res else "no result"),
                  kind="correspondence")
        if ok and len(res) == 2:
            if parse_idx(res[1]) != []:
                matches_v0 = False
            for i in parse_idx(res[0])[:20]:
                any_bad = True
                ck.disagree("Groups.optimise_all/resolve", strip(cs[i]), "see model (bin/check C14 --replay)", rs[i],
                            note="case %d of Cases_C14_%d.v" % (i, k // 500))
        else:
            matches_v0 = False
    ck.extra["implementation_matches_prefix_model_v0"] = bool(matches_v0 and any_bad)

    # -- histories: every optimising call against the model applied to the cell's state just before it
    terms, owners = [], []
    for hi, (h, recs) in enumerate(zip(hists, hresults)):
        for k, (st, rec) in enumerate(zip(h["steps"], recs)):
            if st["do"] in ("optimise_all", "optimise_one"):
                terms.append(q_step(h["segs"], st, rec))
                owners.append((hi, k))
    for k in range(0, len(terms), 500):
        ok, res, out = ck.coq_eval("Steps_C14_%d.v" % (k // 500), steps_v(terms[k:k + 500]))
        good = ok and len(res) == 1 and parse_idx(res[0]) == []
        ck.oblige("Steps_C14_%d.v:model_agrees_with_implementation_along_histories" % (k // 500), good,
                  detail=(out[-1500:] if not ok else "differing step indices: %s" % (res[0] if res else "no result")),
                  kind="correspondence")
        if ok and len(res) == 1:
            for i in parse_idx(res[0])[:10]:
                any_bad = True
                hi, sk = owners[k + i]
                ck.disagree("Groups.optimise_group/optimise_all on the current state",
                            {"segs": hists[hi]["segs"], "groups": hists[hi]["groups"], "steps": hists[hi]["steps"][:sk + 1]},
                            "see model (bin/check C14 --replay)", hresults[hi][sk]["after"], note="step %d of history %d" % (sk, hi))
    ck.extra["history_optimise_calls_compared"] = len(terms)

    # -- the theorems
    ck.compile_props()

    # -- the property on the implementation
    seen = {}
    for c, r in zip(cases, results):
        wf = well_formed(c)
        ck.tally(c["kind"])
        ck.tally("well-formed" if wf else "malformed(compared only)")
        nontriv = None
        if wf and any(g["includes"] and g["members"] for g in c["groups"]):
            shape = sorted((len(set(g["includes"])), len(g["members"]),
                            len(set(g["members"]) & set().union(*[closure(c["segs"], c["groups"], i) for i in g["includes"]] or [set()])))
                           for g in c["groups"])
            nontriv = json.dumps(shape)
            ck.tally("max-includes=%d" % max(len(set(g["includes"])) for g in c["groups"]))
        ck.count(1, nontrivial_key=nontriv,
                 sample={"input": strip(c), "resolved": r["resolved"], "optimised": r["opt"]} if nontriv else None)
        if not wf:
            continue
        for key, what, exp, obs in predicate(c, r):
            if key not in seen:
                seen[key] = (c, what, exp, obs)
    hseen = {}
    for h, recs in zip(hists, hresults):
        ck.tally(h["kind"])
        for st in h["steps"]:
            ck.tally("step:" + st["do"])
        nopt = sum(1 for st in h["steps"] if st["do"].startswith("optimise"))
        ck.count(1, nontrivial_key=json.dumps(["history", [st["do"] for st in h["steps"]]]) if nopt >= 2 else None)
        for key, what, exp, obs, k in history_predicate(h, recs):
            hseen.setdefault(key, (h, what, exp, obs, k))
    deadline = time.time() + ck.n(20, 150)   # shrinking is a convenience: bounded
    for key, (h, what, exp, obs, k) in hseen.items():
        small = {"segs": h["segs"], "groups": h["groups"], "steps": h["steps"][:k + 1]}
        try:
            cand = shrink_history(ck, small, key, deadline)
            r = ck.impl("c14_impl.py", {"histories": [cand]}, timeout=120)["histories"][0]
            hit = [b for b in history_predicate(cand, r) if b[0] == key]
            if hit:
                small = cand
                _, what, exp, obs, _k = hit[0]
        except Exception:  # shrinking is best effort
            pass
        ck.witness(key, what, input=small, expected=exp, observed=obs,
                   broken="Steps_C14:model_agrees_with_implementation_along_histories" if any_bad else None)
    for key, (c, what, exp, obs) in seen.items():
        small = c
        try:
            small = shrink(ck, c, key, deadline)
            r = ck.impl("c14_impl.py", {"cases": [small]}, timeout=120)["results"][0]
            hit = [b for b in predicate(small, r) if b[0] == key]
            if hit:
                _, what, exp, obs = hit[0]
            else:
                small = strip(c)
        except Exception:  # shrinking is best effort
            small = strip(c)
        ck.witness(key, what, input=small, expected=exp, observed=obs,
                   broken="Cases_C14:model_agrees_with_implementation" if any_bad else None)


def replay(ck, data):
    case = data.get("input") or (data.get("disagreements") or [{}])[0].get("input")
    if not case:
        print(json.dumps(data, indent=1)[:4000])
        return 0
    if "steps" in case:
        recs = ck.impl("c14_impl.py", {"histories": [case]}, timeout=120)["histories"][0]
        terms = [q_step(case["segs"], st, rec) for st, rec in zip(case["steps"], recs) if st["do"].startswith("optimise")]
        ok, res, out = ck.coq_eval("Replay_C14.v", steps_v(terms)) if terms else (True, [], "")
        bad = history_predicate(case, recs)
        print(json.dumps({"input": case, "implementation": recs, "model_step_mismatches": res,
                          "property_violations": [{"key": b[0], "what": b[1], "expected": b[2], "observed": b[3], "step": b[4]}
                                                  for b in bad]}, indent=1, default=str)[:10000])
        return 1 if bad else 0
    r = ck.impl("c14_impl.py", {"cases": [strip(case)]}, timeout=120)["results"][0]
    ok, res, out = ck.coq_eval("Replay_C14.v", HEADER + "Definition c := %s.\n" % q_case(case, r) +
                               "Eval vm_compute in (model_resolved (c_segs c) (c_groups c)).\n"
                               "Eval vm_compute in (optimise_all_c (c_segs c) (default_fuel (c_groups c)) (c_groups c)).\n"
                               "Eval vm_compute in (case_ok true c).\n")
    bad = predicate(case, r) if well_formed(case) else []
    print(json.dumps({"input": case, "implementation": r, "model": res,
                      "property_violations": [{"key": b[0], "what": b[1], "expected": b[2], "observed": b[3]} for b in bad]},
                     indent=1, default=str)[:8000])
    return 1 if bad else 0
