"""C05 — HDF5 write then load describes the same network and the same components.

1. translate: translators/tr_h5layout.py EXECUTES every exportHdf5, NeuroMLHdf5Writer.write, the parser and the
   NetworkBuilder handlers of the tree under test against recording mocks  ->  Gen_C05.v (writer / reader / builder /
   group-attribute / refusal tables);
2. instance obligations (one file per kind of table, kernel-checked by vm_compute): layout_ok for every (kind, flags)
   table, groups_ok, none_ok, builder_ok, refuse_ok, units_ok, kinds_covered;
3. Props/C05.v: the generic theorems (all rows, tables of any length, every construct) instantiated on Gen_C05;
4. correspondence of the whole model pipeline with the real code on dyadic inputs (Cases_C05_*.v, diffed by Coq);
5. property predicate on the real implementation: generated documents over the full quantifier written with
   NeuroMLHdf5Writer, loaded with NeuroMLHdf5Loader, compared through the harness-side semantic projection
   (impl/c05_impl.py), plus the stored witnesses of every defect seen so far (run first, every run).
"""
import json
import os
import subprocess

from lib.vcommon import PY, VERIF, coq_list, coq_str, impl_env

KINDS = ["population", "projection", "electrical", "continuous", "inputlist"]


# ------------------------------------------------------------------------------------------------- translate
def translate(ck):
    try:
        p = subprocess.run([PY, os.path.join(VERIF, "translators", "tr_h5layout.py")], capture_output=True, text=True,
                           env=impl_env(), timeout=300)
    except subprocess.TimeoutExpired:
        ck.oblige("translate:tr_h5layout", False, "timeout", kind="translate")
        return None
    lines = [l for l in p.stdout.splitlines() if l.strip()]
    if p.returncode != 0 or not lines:
        ck.oblige("translate:tr_h5layout", False, p.stderr[-2000:], kind="translate")
        return None
    ck.oblige("translate:tr_h5layout", True, kind="translate")
    return json.loads(lines[-1])


def tab_name(i, w):
    return "tab_%d_%s_%s" % (i, w["kind"], "_".join(w["flags"]))


HDR = "From Coq Require Import String List Bool ZArith.\nFrom LNML Require Import Model.H5.\nFrom Run Require Import Gen_C05.\n"


def obligations(ck, t):
    """-> True when every instance file compiled"""
    allok = True
    paths = []
    tabs = t["json"]["writer"]
    for kind in KINDS:
        body = [HDR]
        for i, w in enumerate(tabs):
            if w["kind"] == kind:
                body.append("Lemma layout_%s : layout_ok gen (nth %d (g_writer gen) (nth 0 (g_writer gen) "
                            "{| wt_kind := EmptyString; wt_flags := nil; wt_names := nil; wt_variants := nil; wt_gattrs := nil |})) = true.\n"
                            "Proof. vm_compute. reflexivity. Qed.\n" % (tab_name(i, w), i))
        paths.append(ck.gen_v("Inst_C05_layout_%s.v" % kind, "\n".join(body)))
    for fn, lem, stmt in (("layout", "all_layouts", "all_layouts_ok gen = true"),
                          ("stores", "all_stores", "all_stores_ok gen = true"),
                          ("skeleton", "skeleton", "skeleton_ok gen = true"),
                          ("optimized", "optimized", "optimized_ok gen = true"),
                          ("mixed", "mixed_refused", "mixed_ok gen = true"),
                          ("frame", "frame", "frame_ok gen = true"),
                          ("select", "select", "select_ok gen = true"),
                          ("zero", "zero_cells_ok", "zero_ok gen = true"),
                          ("precision", "builder_precision_ok", "precision_ok gen = true"),
                          ("merge", "merge_embedded_ok", "merge_ok gen = true"),
                          ("covered", "kinds_covered_ok", "kinds_covered gen = true"),
                          ("groups", "groups", "groups_ok gen = true"),
                          ("none", "none_attribute", "none_ok gen = true"),
                          ("builder", "builder", "builder_ok gen = true"),
                          ("refuse", "refuse", "refuse_ok gen = true"),
                          ("units", "delay_units_ok", "units_ok gen = true")):
        paths.append(ck.gen_v("Inst_C05_%s.v" % fn, HDR + "Lemma %s : %s.\nProof. vm_compute. reflexivity. Qed.\n" % (lem, stmt)))
    # the instance files are independent of each other: compile them side by side, record them in a fixed order
    from concurrent.futures import ThreadPoolExecutor
    n0 = len(ck.obligations)
    with ThreadPoolExecutor(max_workers=6) as ex:
        oks = list(ex.map(lambda pth: ck.compile_obligations(pth, kind="instance")[0], paths))
    allok = all(oks)
    rank = dict((os.path.basename(pth), i) for i, pth in enumerate(paths))
    ck.obligations[n0:] = sorted(ck.obligations[n0:], key=lambda o: rank.get(o["name"].split(":")[0], 99))
    return allok


def diagnostics(ck):
    txt = HDR + ("Eval vm_compute in (failing_tables gen).\nEval vm_compute in (failing_builder gen).\n"
                 "Eval vm_compute in (not_refused gen).\nEval vm_compute in (failing_select gen).\nEval vm_compute in (failing_popsel gen).\nEval vm_compute in (failing_mixed gen, failing_frame gen).\nEval vm_compute in (failing_zero gen).\nEval vm_compute in (failing_precision gen).\nEval vm_compute in (failing_strings gen).\nEval vm_compute in (failing_optimized gen, skeleton_ok gen).\nEval vm_compute in (groups_ok gen, none_ok gen, units_ok gen, kinds_covered gen).\n")
    ok, res, out = ck.coq_eval("Diag_C05.v", txt)
    return res if ok else ["diagnostics failed: " + out[-300:]]


# ------------------------------------------------------------------------------------------------- generator
COMPONENTS = {
    "cell": [
        ("IafCell", "iaf_cells", lambda r, i: dict(id=i, leak_reversal="%dmV" % r.randint(-70, -50), thresh="-55mV", reset="-70mV",
                                                   C="%.2fnF" % r.uniform(0.1, 1), leak_conductance="0.01uS")),
        ("IzhikevichCell", "izhikevich_cells", lambda r, i: dict(id=i, v0="-70mV", thresh="30mV", a="0.02", b="0.2", c="-65.0", d="%d" % r.randint(2, 8))),
        ("IafTauCell", "iaf_tau_cells", lambda r, i: dict(id=i, leak_reversal="-50mV", thresh="-55mV", reset="-70mV", tau="%dms" % r.randint(5, 40))),
    ],
    "syn": [
        ("ExpOneSynapse", "exp_one_synapses", lambda r, i: dict(id=i, gbase="%dnS" % r.randint(1, 9), erev="0mV", tau_decay="%.1fms" % r.uniform(1, 9))),
        ("ExpTwoSynapse", "exp_two_synapses", lambda r, i: dict(id=i, gbase="1nS", erev="0mV", tau_decay="5ms", tau_rise="%.2fms" % r.uniform(0.1, 2))),
    ],
    "gap": [("GapJunction", "gap_junctions", lambda r, i: dict(id=i, conductance="%dpS" % r.randint(1, 90)))],
    "graded": [("GradedSynapse", "graded_synapses", lambda r, i: dict(id=i, conductance="5pS", delta="5mV", Vth="-55mV", k="0.025per_ms", erev="0mV")),
               ("SilentSynapse", "silent_synapses", lambda r, i: dict(id=i))],
    "input": [
        ("PulseGenerator", "pulse_generators", lambda r, i: dict(id=i, delay="%dms" % r.randint(0, 50), duration="%dms" % r.randint(1, 90), amplitude="%.3fnA" % r.uniform(0, 1))),
        ("SineGenerator", "sine_generators", lambda r, i: dict(id=i, delay="1ms", phase="0", duration="20ms", amplitude="0.1nA", period="%dms" % r.randint(2, 30))),
    ],
}
NOTES = [None, None, "plain notes", "notes with <angle> & ampersand \"quotes\"", "  leading and trailing  ", "line one\nline two", "café μ"]


def idless_components(tag=""):
    """on every document: >= 2 components of each top-level kind that has no id (LEMS ComponentType x3 with different names,
    document level <property> x2 -- see doc_properties) and components sharing an id across different member lists"""
    return [
        {"cls": "ComponentType", "member": "ComponentType", "args": dict(name="ctCell" + tag, extends="baseCell", description="first custom type"),
         "children": [{"member": "Parameter", "cls": "Parameter", "args": dict(name="tau", dimension="time")}]},
        {"cls": "ComponentType", "member": "ComponentType", "args": dict(name="ctSyn" + tag, extends="baseSynapse", description="second custom type"),
         "children": [{"member": "Parameter", "cls": "Parameter", "args": dict(name="g", dimension="conductance")}]},
        {"cls": "ComponentType", "member": "ComponentType", "args": dict(name="ctInput" + tag, description="third custom type")},
        {"cls": "PulseGenerator", "member": "pulse_generators", "args": dict(id="shared_id" + tag, delay="3ms", duration="4ms", amplitude="0.5nA")},
        {"cls": "SineGenerator", "member": "sine_generators", "args": dict(id="shared_id" + tag, delay="1ms", phase="0", duration="20ms", amplitude="0.1nA", period="7ms")},
        {"cls": "GapJunction", "member": "gap_junctions", "args": dict(id="shared_id" + tag, conductance="3pS")},
    ]


def doc_properties(tag=""):
    return [["author" + tag, "someone"], ["version" + tag, "3"]]


def fnum(r):
    """a number for a float cell: sometimes exactly representable, sometimes not"""
    k = r.random()
    if k < 0.3:
        return r.randint(-8, 64) / 8.0
    if k < 0.4:
        return float(r.randint(0, 3))
    return round(r.uniform(-50, 400), r.randint(1, 6))


def fract(r):
    k = r.random()
    if k < 0.35:
        return 0.5
    if k < 0.5:
        return r.choice([0.0, 1.0, 0.25, 0.75])
    return round(r.random(), r.randint(1, 7))


def weight(r, nonunit=False):
    k = r.random()
    if k < 0.2 and not nonunit:
        return 1.0
    if k < 0.3:
        return r.choice([0.0, -1.5, 2.0, 0.5])
    return round(r.uniform(-3, 9), r.randint(1, 6))


def delay(r):
    k = r.random()
    if k < 0.15:
        return "0ms"
    if k < 0.25:
        return r.choice(["%rms" % round(r.uniform(0, 0.09), 9), "%rs" % (r.randint(1, 99999) * 1e-9), "%rms" % (r.randint(1, 9999) * 1e-7)])
    if k < 0.6:
        return "%sms" % r.choice([r.randint(0, 40), round(r.uniform(0, 30), 3), r.randint(1, 64) / 16.0])
    if k < 0.75:
        return "%s ms" % r.randint(1, 20)
    return "%ss" % r.choice([r.randint(1, 3), round(r.uniform(0, 0.05), 5), r.randint(1, 64) / 1024.0])


def ids(r, n):
    k = r.random()
    if k < 0.3:
        return list(range(n))
    if k < 0.5:
        s = r.randint(1, 50)
        return list(range(s, s + n))
    out = r.sample(range(0, 5000), n)
    if k < 0.9:
        out.sort()
    if k > 0.97 and n:
        out[-1] = 16777217  # not a float32 number: kept to float32 precision only
    return out


def cellref(r, pop, idx, inst_form=None):
    """a cell reference in one of the two path forms; by default the natural one for the population, sometimes the other"""
    natural = bool(pop["instances"])
    form = natural if inst_form is None else inst_form
    if r.random() < 0.12:
        form = not form
    return "../%s/%d/%s" % (pop["id"], idx, pop["component"]) if form else "../%s[%d]" % (pop["id"], idx)


def gen_doc(r, n, special=None):
    comps = []
    used = set()

    def add(cat):
        cls, member, mk = r.choice(COMPONENTS[cat])
        i = "%s%d" % (cat, len(comps))
        comps.append({"cls": cls, "member": member, "args": mk(r, i)})
        return i
    cells = [add("cell") for _ in range(r.randint(1, 2))]
    syns = [add("syn") for _ in range(r.randint(1, 2))]
    gaps = [add("gap") for _ in range(r.randint(1, 2))]
    grads = [add("graded") for _ in range(r.randint(1, 2))]
    inps = [add("input") for _ in range(r.randint(1, 2))]
    for _ in range(r.randint(0, 2)):
        add(r.choice(list(COMPONENTS)))
    if r.random() < 0.3:
        comps[r.randrange(len(comps))]["args"]["notes"] = r.choice(NOTES[2:])
    comps += idless_components(str(n % 7))
    r.shuffle(comps)
    net = {"id": "net%d" % n, "notes": r.choice(NOTES), "populations": [], "projections": [], "electrical": [], "continuous": [],
           "input_lists": []}
    if r.random() < 0.4:
        net["temperature"] = r.choice(["32degC", "6.3 degC", "310K"])
        net["type"] = "networkWithTemperature"
    pops = []
    for k in range(r.randint(1, 4)):
        p = {"id": "pop%d" % k, "component": r.choice(cells), "instances": [], "properties": []}
        if r.random() < 0.5:
            p["size"] = r.randint(1, 20)
            if r.random() < 0.3:
                p["type"] = r.choice(["population", "populationList"])
        else:
            m = r.randint(1, 6)
            p["type"] = r.choice(["populationList", "populationList", None, "population"])
            iids = list(range(m))
            p["instances"] = [[iids[j], fnum(r), fnum(r), fnum(r)] for j in range(m)]
            if r.random() < 0.3:
                p["size"] = m
        for j in range(r.choice([0, 0, 1, 2])):
            p["properties"].append(["tag%d" % j if r.random() < 0.8 else r.choice(["color", "radius", "region"]) + str(j), r.choice(["0.1 0.2 0.3", "7", "x y", "café"])])
        pops.append(p)
    net["populations"] = pops

    def psize(p):
        return len(p["instances"]) or p["size"]
    expect = "same"
    for k in range(r.choice([0, 1, 1, 2])):
        a, b = r.choice(pops), r.choice(pops)
        nconn = r.choice([0, 1, 2, 3, 5, 8])
        mode = r.choice(["plain", "wd", "mixed"])
        segs = r.random() < 0.5
        cids = ids(r, nconn)
        conns = []
        for j in range(nconn):
            v = "C" if mode == "plain" or (mode == "mixed" and r.random() < 0.5) else "W"
            c = {"v": v, "id": cids[j], "pre": cellref(r, a, r.randrange(psize(a))), "post": cellref(r, b, r.randrange(psize(b)))}
            if segs and r.random() < 0.8:
                c.update(pre_segment_id=r.randint(0, 5), post_segment_id=r.randint(0, 5), pre_fraction_along=fract(r), post_fraction_along=fract(r))
            if v == "W":
                c.update(weight=weight(r), delay=delay(r))
            conns.append(c)
        net["projections"].append({"id": "proj%d" % k, "pre": a["id"], "post": b["id"], "synapse": r.choice(syns), "conns": conns})
    for kind, key, vs, comp in (("electrical", "electrical", ("E", "EI", "EIW"), gaps), ("continuous", "continuous", ("K", "KI", "KIW"), grads)):
        for k in range(r.choice([0, 1, 1, 2])):
            a, b = r.choice(pops), r.choice(pops)
            inst = bool(a["instances"]) or bool(b["instances"])
            nconn = r.choice([1, 2, 3, 5, 8])
            mode = r.choice(["plain", "inst", "w", "mixed"])
            cids = ids(r, nconn)
            syn = r.choice(comp)
            pre_c, post_c = r.choice(grads), r.choice(grads)
            conns = []
            for j in range(nconn):
                v = {"plain": vs[0], "inst": vs[1], "w": vs[2]}.get(mode) or r.choice(vs)
                if not inst and v == vs[2] and r.random() < 0.85:
                    v = vs[1]   # a weighted connection between two non-instance populations cannot be held (kept rare)
                ia, ib = r.randrange(psize(a)), r.randrange(psize(b))
                c = {"v": v, "id": cids[j], "pre": str(ia) if v == vs[0] else cellref(r, a, ia), "post": str(ib) if v == vs[0] else cellref(r, b, ib)}
                if r.random() < 0.7:
                    c.update(pre_segment=r.randint(0, 5), post_segment=r.randint(0, 5), pre_fraction_along=fract(r), post_fraction_along=fract(r))
                if v == vs[2]:
                    c["weight"] = weight(r)
                    if not inst and float(numpy_f32(c["weight"])) != 1.0:
                        expect = "refuse:%s-weight-between-sized-populations" % kind
                if kind == "electrical":
                    c["synapse"] = syn
                else:
                    c["pre_component"], c["post_component"] = pre_c, post_c
                conns.append(c)
            net[key].append({"id": "%s%d" % (kind[:4], k), "pre": a["id"], "post": b["id"], "conns": conns})
    for k in range(r.choice([0, 1, 1, 2])):
        a = r.choice(pops)
        nin = r.choice([1, 2, 3, 6])
        mode = r.choice(["plain", "w", "mixed"])
        iids = ids(r, nin)
        inputs = []
        for j in range(nin):
            v = "I" if mode == "plain" or (mode == "mixed" and r.random() < 0.5) else "IW"
            c = {"v": v, "id": iids[j], "target": cellref(r, a, r.randrange(psize(a)))}
            if r.random() < 0.6:
                c["segment_id"] = r.randint(0, 5)
            if r.random() < 0.6:
                c["fraction_along"] = fract(r)
            if v == "IW":
                c["weight"] = weight(r)
            inputs.append(c)
        net["input_lists"].append({"id": "il%d" % k, "component": r.choice(inps), "population": a["id"], "inputs": inputs})
    spec = {"id": "doc%d" % n, "notes": r.choice(NOTES), "components": comps, "networks": [net], "properties": doc_properties(str(n % 7))}
    return spec, expect


def numpy_f32(x):
    import struct
    return struct.unpack("f", struct.pack("f", float(x)))[0]


# ------------------------------------------------------------------------------------------------- stored witnesses
def base_spec():
    return {"id": "d", "notes": "doc notes", "components": [
        {"cls": "IafCell", "member": "iaf_cells", "args": dict(id="iaf", leak_reversal="-50mV", thresh="-55mV", reset="-70mV", C="0.2nF", leak_conductance="0.01uS")},
        {"cls": "ExpOneSynapse", "member": "exp_one_synapses", "args": dict(id="syn1", gbase="1nS", erev="0mV", tau_decay="2ms")},
        {"cls": "GapJunction", "member": "gap_junctions", "args": dict(id="gj1", conductance="10pS")},
        {"cls": "GapJunction", "member": "gap_junctions", "args": dict(id="gj2", conductance="20pS")},
        {"cls": "SilentSynapse", "member": "silent_synapses", "args": dict(id="silent1")},
        {"cls": "GradedSynapse", "member": "graded_synapses", "args": dict(id="gs1", conductance="5pS", delta="5mV", Vth="-55mV", k="0.025per_ms", erev="0mV")},
        {"cls": "GradedSynapse", "member": "graded_synapses", "args": dict(id="gs2", conductance="6pS", delta="5mV", Vth="-55mV", k="0.025per_ms", erev="0mV")},
        {"cls": "PulseGenerator", "member": "pulse_generators", "args": dict(id="pg", delay="1ms", duration="2ms", amplitude="1nA")}]
        + idless_components(), "properties": doc_properties(),
        "networks": [{"id": "n", "notes": "net notes", "populations": [
            {"id": "pA", "component": "iaf", "size": 5, "instances": [], "properties": []},
            {"id": "pB", "component": "iaf", "type": "populationList", "instances": [[0, 1.5, 2, 3], [1, 2.5, 3, 4], [2, 0, 0, 0]], "properties": [["color", "1 0 0"]]}],
            "projections": [], "electrical": [], "continuous": [], "input_lists": []}]}


def stored_witnesses():
    """(key, what, spec, expect) for every defect seen on the real code so far; run first on every run"""
    out = []

    def case(key, what, expect="same"):
        s = base_spec()
        out.append((key, what, s, expect))
        return s, s["networks"][0]
    s, n = case("C05:electrical.id", "ids of electrical connections are read back as row numbers (parser: indexId > 0)")
    n["electrical"].append({"id": "ep", "pre": "pA", "post": "pA", "conns": [
        {"v": "E", "id": 7, "pre": "0", "post": "1", "synapse": "gj1"}, {"v": "E", "id": 9, "pre": "2", "post": "3", "synapse": "gj1"}]})
    s, n = case("C05:continuous.id", "ids of continuous connections are read back as row numbers (parser: indexId > 0)")
    n["continuous"].append({"id": "cp", "pre": "pB", "post": "pB", "conns": [
        {"v": "KI", "id": 4, "pre": "../pB/0/iaf", "post": "../pB/1/iaf", "pre_component": "silent1", "post_component": "gs1"},
        {"v": "KI", "id": 2, "pre": "../pB/1/iaf", "post": "../pB/2/iaf", "pre_component": "silent1", "post_component": "gs1"}]})
    s, n = case("C05:inputlist.weight", "an Input next to an InputW is read back with weight 0")
    n["input_lists"].append({"id": "il", "component": "pg", "population": "pA", "inputs": [
        {"v": "I", "id": 0, "target": "../pA[1]"}, {"v": "IW", "id": 1, "target": "../pA[2]", "weight": 2.5}]})
    s, n = case("C05:projection.weight", "a Connection next to a ConnectionWD is read back with weight 0")
    n["projections"].append({"id": "pr", "pre": "pA", "post": "pB", "synapse": "syn1", "conns": [
        {"v": "C", "id": 0, "pre": "../pA[1]", "post": "../pB/2/iaf"},
        {"v": "W", "id": 1, "pre": "../pA[2]", "post": "../pB/0/iaf", "weight": 0.75, "delay": "2ms"}]})
    s, n = case("C05:electrical.weight", "an ElectricalConnectionInstance next to an ...InstanceW is read back with weight 0")
    n["electrical"].append({"id": "ep", "pre": "pB", "post": "pB", "conns": [
        {"v": "EI", "id": 0, "pre": "../pB/0/iaf", "post": "../pB/1/iaf", "synapse": "gj1"},
        {"v": "EIW", "id": 1, "pre": "../pB/1/iaf", "post": "../pB/2/iaf", "synapse": "gj1", "weight": 2.0}]})
    s, n = case("C05:continuous.weight", "a ContinuousConnectionInstance next to an ...InstanceW is read back with weight 0")
    n["continuous"].append({"id": "cp", "pre": "pB", "post": "pB", "conns": [
        {"v": "KI", "id": 0, "pre": "../pB/0/iaf", "post": "../pB/1/iaf", "pre_component": "silent1", "post_component": "gs1"},
        {"v": "KIW", "id": 1, "pre": "../pB/1/iaf", "post": "../pB/2/iaf", "pre_component": "silent1", "post_component": "gs1", "weight": 2.0}]})
    s, n = case("C05:not-refused:electrical-differing-synapses", "connections with different synapses in one electrical projection are merged", "refuse")
    n["electrical"].append({"id": "ep", "pre": "pA", "post": "pA", "conns": [
        {"v": "E", "id": 0, "pre": "0", "post": "1", "synapse": "gj1"}, {"v": "E", "id": 1, "pre": "2", "post": "3", "synapse": "gj2"}]})
    s, n = case("C05:not-refused:continuous-differing-components", "connections with different components in one continuous projection are merged", "refuse")
    n["continuous"].append({"id": "cp", "pre": "pB", "post": "pB", "conns": [
        {"v": "KI", "id": 0, "pre": "../pB/0/iaf", "post": "../pB/1/iaf", "pre_component": "silent1", "post_component": "gs1"},
        {"v": "KI", "id": 1, "pre": "../pB/1/iaf", "post": "../pB/2/iaf", "pre_component": "silent1", "post_component": "gs2"}]})
    s, n = case("C05:notes", "absent notes of document / network are read back as the string \"None\"")
    s["notes"] = None
    n["notes"] = None
    s, n = case("C05:not-refused:electrical-weight-between-sized-populations", "weight of an electrical connection between non-instance populations is dropped", "refuse")
    n["electrical"].append({"id": "ep", "pre": "pA", "post": "pA", "conns": [
        {"v": "EIW", "id": 0, "pre": "../pA[0]", "post": "../pA[1]", "synapse": "gj1", "weight": 2.0}]})
    for ex in ("space", "region", "cell_set", "extracellular"):
        s, n = case("C05:not-refused:network-" + ex, "a network child the format cannot hold (%s) is dropped silently" % ex, "refuse")
        n["extra"] = {ex: True, "space": True} if ex == "region" else {ex: True}
    s, n = case("C05:not-refused:population-layout", "the <layout> of a population is dropped silently", "refuse")
    n["populations"][0]["layout"] = "sp0"
    n["extra"] = {"space": True}
    s, n = case("C05:refused-as-required", "explicit inputs are refused", "refuse")
    n["extra"] = {"explicit_input": ["pA[0]", "pg"]}
    s, n = case("C05:refused-as-required", "synaptic connections are refused", "refuse")
    n["extra"] = {"synaptic_connection": ["pA[0]", "pA[1]", "syn1"]}
    # ---- no small repair: known findings
    s, n = case("C05:continuous.pre-component-not-in-document",
                "a continuous projection whose pre component is not a top-level component of the same document is read back with pre_component silentSyn_<id>")
    s["components"] = [c for c in s["components"] if c["args"].get("id") != "silent1"]
    n["continuous"].append({"id": "cp", "pre": "pB", "post": "pB", "conns": [
        {"v": "KI", "id": 0, "pre": "../pB/0/iaf", "post": "../pB/1/iaf", "pre_component": "silent1", "post_component": "gs1"}]})
    s, n = case("C05:group-name-substring", "a projection whose id contains 'population_' is taken for a population group by the parser")
    n["projections"].append({"id": "from_population_a", "pre": "pA", "post": "pB", "synapse": "syn1", "conns": [
        {"v": "C", "id": 0, "pre": "../pA[1]", "post": "../pB/2/iaf"}]})
    s, n = case("C05:not-refused:population-notes", "notes of a population are not stored and silently dropped", "refuse")
    n["populations"][0]["notes"] = "population notes"
    s, n = case("C05:document.annotation", "the annotation of the document is not embedded and silently dropped")
    s["annotation"] = True
    s, n = case("C05:property-tag-with-colon", "a population property whose tag contains ':' comes back with a truncated tag")
    n["populations"][1]["properties"].append(["a:b", "v"])
    s, n = case("C05:inputlist.fract-zero-read-as-default", "an input at fraction_along 0.0 is stored (and read back) at 0.5 (Input.get_fraction_along treats 0.0 as unset; C19)")
    n["input_lists"].append({"id": "il", "component": "pg", "population": "pA", "inputs": [
        {"v": "I", "id": 0, "target": "../pA[1]", "segment_id": 1, "fraction_along": 0.0}]})
    s, n = case("C05:two-networks", "a document with two networks", "refuse")
    s["networks"].append({"id": "n2", "populations": [{"id": "q", "component": "iaf", "size": 1, "instances": [], "properties": []}]})
    return out


# ------------------------------------------------------------------------------------------------- one field off its default
OFFV = {"pre_seg": 3, "post_seg": 2, "pre_fract": 0.25, "post_fract": 0.75, "seg": 4, "fract": 0.125, "weight": 2.5, "delay": "1.5ms"}


def single_field_cases():
    """deterministic, every run: for every construct kind, row variant and field that has a default, a network in which that
    field of ONE row (the second of two; and, for constructs with several element lists, a row of the other list) is the only
    value off its default in the whole construct -> (label, spec)"""
    out = []
    segs = ["pre_seg", "post_seg", "pre_fract", "post_fract"]
    ATTR = {"projection": {"pre_seg": "pre_segment_id", "post_seg": "post_segment_id", "pre_fract": "pre_fraction_along", "post_fract": "post_fraction_along"},
            "conn": {"pre_seg": "pre_segment", "post_seg": "post_segment", "pre_fract": "pre_fraction_along", "post_fract": "post_fraction_along"},
            "inputlist": {"seg": "segment_id", "fract": "fraction_along"}}

    def doc(label):
        s = base_spec()
        out.append((label, s))
        return s["networks"][0]

    def chem(v, i, off=None):
        c = {"v": v, "id": i, "pre": "../pA[%d]" % (i % 5), "post": "../pB/%d/iaf" % (i % 3)}
        if v == "W":
            c.update(weight=1.0, delay="0ms")
        if off in ATTR["projection"]:
            c[ATTR["projection"][off]] = OFFV[off]
        elif off:
            c[off] = OFFV[off]
        return c
    for v, fields in (("C", segs), ("W", segs + ["weight", "delay"])):
        for f in fields:
            for shape in ("second-row", "only-row"):
                n = doc("projection:%s:%s:%s" % (v, f, shape))
                n["projections"].append({"id": "pr", "pre": "pA", "post": "pB", "synapse": "syn1",
                                         "conns": ([chem(v, 0)] if shape == "second-row" else []) + [chem(v, 1, f)]})
    for f in segs:
        for a, b in (("C", "W"), ("W", "C")):
            n = doc("projection:%s-default+%s:%s" % (a, b, f))
            n["projections"].append({"id": "pr", "pre": "pA", "post": "pB", "synapse": "syn1", "conns": [chem(a, 0), chem(b, 1, f)]})

    def conn(kind, v, i, inst, off=None):
        plain = v in ("E", "K")
        pop = "pB" if inst else "pA"
        ref = (lambda j: str(j)) if plain else ((lambda j: "../pB/%d/iaf" % j) if inst else (lambda j: "../pA[%d]" % j))
        c = {"v": v, "id": i, "pre": ref(i % 3), "post": ref((i + 1) % 3)}
        if kind == "electrical":
            c["synapse"] = "gj1"
        else:
            c["pre_component"], c["post_component"] = "silent1", "gs1"
        if v in ("EIW", "KIW"):
            c["weight"] = 1.0
        if off in ATTR["conn"]:
            c[ATTR["conn"][off]] = OFFV[off]
        elif off:
            c[off] = OFFV[off]
        return c, pop
    for kind, key, vs in (("electrical", "electrical", ("E", "EI", "EIW")), ("continuous", "continuous", ("K", "KI", "KIW"))):
        for v in vs:
            for f in segs + (["weight"] if v == vs[2] else []):
                inst = v != vs[0]
                n = doc("%s:%s:%s" % (kind, v, f))
                c0, pop = conn(kind, v, 0, inst)
                c1, _ = conn(kind, v, 1, inst, f)
                n[key].append({"id": "c", "pre": pop, "post": pop, "conns": [c0, c1]})

    def inp(v, i, off=None):
        c = {"v": v, "id": i, "target": "../pA[%d]" % i}
        if v == "IW":
            c["weight"] = 1.0
        if off in ATTR["inputlist"]:
            c[ATTR["inputlist"][off]] = OFFV[off]
        elif off:
            c[off] = OFFV[off]
        return c
    for v, fields in (("I", ["seg", "fract"]), ("IW", ["seg", "fract", "weight"])):
        for f in fields:
            n = doc("inputlist:%s:%s" % (v, f))
            n["input_lists"].append({"id": "il", "component": "pg", "population": "pA", "inputs": [inp(v, 0), inp(v, 1, f)]})
    # a field at 0 (falsy in python) whose default is not 0, and at the other end of its range
    global OFFV
    saved = dict(OFFV)
    try:
        for tag, fr, w in (("zero", 0.0, 0.0), ("one", 1.0, -1.0)):
            OFFV = dict(saved, pre_fract=fr, post_fract=fr, fract=fr, weight=w)
            for v, fields in (("C", ["pre_fract", "post_fract"]), ("W", ["pre_fract", "post_fract", "weight"])):
                for f in fields:
                    n = doc("projection:%s:%s=%s" % (v, f, tag))
                    n["projections"].append({"id": "pr", "pre": "pA", "post": "pB", "synapse": "syn1", "conns": [chem(v, 0, f)]})
            for kind, key, vs in (("electrical", "electrical", ("E", "EI", "EIW")), ("continuous", "continuous", ("K", "KI", "KIW"))):
                for v in vs:
                    for f in ["pre_fract", "post_fract"] + (["weight"] if v == vs[2] else []):
                        n = doc("%s:%s:%s=%s" % (kind, v, f, tag))
                        c1, pop = conn(kind, v, 1, v != vs[0], f)
                        n[key].append({"id": "c", "pre": pop, "post": pop, "conns": [c1]})
            for v, fields in (("I", ["fract"]), ("IW", ["fract", "weight"])):
                for f in fields:
                    n = doc("inputlist:%s:%s=%s" % (v, f, tag))
                    n["input_lists"].append({"id": "il", "component": "pg", "population": "pA", "inputs": [inp(v, 1, f)]})
    finally:
        OFFV = saved
    # many significant digits / extreme magnitudes in every float field (string formatting sites in writer and builder)
    MAG = [1.2345678e-5, 0.0123456789, 7.6543e-7, 123456.79, 3.0000002]
    for k, m in enumerate(MAG):
        n = doc("magnitude:%r" % m)
        n["projections"].append({"id": "pr", "pre": "pA", "post": "pB", "synapse": "syn1", "conns": [
            dict(chem("W", 0), weight=m, delay="%rms" % MAG[(k + 1) % 5], pre_fraction_along=min(m, 1.0), post_fraction_along=0.123456789),
            dict(chem("W", 1), weight=MAG[(k + 2) % 5], delay="%rs" % (MAG[(k + 3) % 5] / 1000.0))]})
        c1, pop = conn("electrical", "EIW", 1, True)
        n["electrical"].append({"id": "ce", "pre": pop, "post": pop, "conns": [dict(c1, weight=m, pre_fraction_along=0.123456789)]})
        c1, pop = conn("continuous", "KIW", 1, True)
        n["continuous"].append({"id": "ck", "pre": pop, "post": pop, "conns": [dict(c1, weight=m, post_fraction_along=0.987654321)]})
        n["input_lists"].append({"id": "il", "component": "pg", "population": "pA", "inputs": [
            dict(inp("IW", 0), weight=m, fraction_along=0.123456789), dict(inp("I", 1), fraction_along=1.2345678e-5)]})
        n["populations"][1]["instances"] = [[0, m, MAG[(k + 1) % 5], MAG[(k + 2) % 5]], [1, -m, 0.0, 1e-9]]
    for k, f in enumerate(("x", "y", "z")):
        n = doc("population:Instance:%s" % f)
        loc = [0, 0, 0]
        loc[k] = 1.5
        n["populations"][1]["instances"] = [[0, 0, 0, 0], [1] + loc]
    n = doc("population:Instance:all-zero")
    n["populations"][1]["instances"] = [[0, 0, 0, 0]]
    return out


# ------------------------------------------------------------------------------------------------- boundary strings
BOUNDARY = ["", " ", "0", "None", "False", "a:b", "a/b"]
ID_BOUNDARY = ["None", "False", "_0"]          # the boundary values that are legal NmlIds
TEMP_BOUNDARY = ["0degC", "0 degC", "-0.5degC"]


def full_spec():
    """base document with one construct of every kind, so that every string slot of the format exists"""
    s = base_spec()
    n = s["networks"][0]
    n["temperature"] = "32degC"
    n["type"] = "networkWithTemperature"
    n["projections"].append({"id": "pr", "pre": "pA", "post": "pB", "synapse": "syn1", "conns": [
        {"v": "C", "id": 0, "pre": "../pA[1]", "post": "../pB/2/iaf"}]})
    n["electrical"].append({"id": "ep", "pre": "pB", "post": "pB", "conns": [
        {"v": "EI", "id": 0, "pre": "../pB/0/iaf", "post": "../pB/1/iaf", "synapse": "gj1"}]})
    n["continuous"].append({"id": "cp", "pre": "pB", "post": "pB", "conns": [
        {"v": "KI", "id": 0, "pre": "../pB/0/iaf", "post": "../pB/1/iaf", "pre_component": "silent1", "post_component": "gs1"}]})
    n["input_lists"].append({"id": "il", "component": "pg", "population": "pA", "inputs": [{"v": "I", "id": 0, "target": "../pA[1]"}]})
    return s


def rename_component(s, old, new):
    for c in s["components"]:
        if c["args"].get("id") == old:
            c["args"]["id"] = new


def rename_population(n, old, new):
    for p in n["populations"]:
        if p["id"] == old:
            p["id"] = new
    for k in ("projections", "electrical", "continuous"):
        for pr in n[k]:
            for e in ("pre", "post"):
                if pr[e] == old:
                    pr[e] = new
            for c in pr["conns"]:
                for e in ("pre", "post"):
                    c[e] = c[e].replace("../%s[" % old, "../%s[" % new).replace("../%s/" % old, "../%s/" % new)
    for il in n["input_lists"]:
        if il["population"] == old:
            il["population"] = new
        for c in il["inputs"]:
            c["target"] = c["target"].replace("../%s[" % old, "../%s[" % new).replace("../%s/" % old, "../%s/" % new)


# ------------------------------------------------------------------------------------------------- negative clause: mixed synapses
def mixed_synapse_cases():
    """deterministic, every run: one projection whose connections do NOT all use the same synapse (electrical) / pre or post
    component (continuous) -- the format stores one per projection, so the writer has to refuse.  The deviating connection sits
    at the first, a middle and the last position of EVERY connection list, alone in the projection and next to the other lists.
    (Chemical connections carry no synapse of their own: nothing to mix.) -> (label, spec)"""
    out = []
    for kind, key, vs, fields in (("electrical", "electrical", ("E", "EI", "EIW"), ("synapse",)),
                                  ("continuous", "continuous", ("K", "KI", "KIW"), ("pre_component", "post_component"))):
        base = {"synapse": "gj1", "pre_component": "silent1", "post_component": "gs1"}
        other = {"synapse": "gj2", "pre_component": "gs2", "post_component": "gs2"}
        for li, v in enumerate(vs):
            for fld in fields:
                for pos in (0, 1, 2):
                    for across in (False, True):
                        s = base_spec()
                        n = s["networks"][0]
                        conns = []
                        k = 0
                        for lj, w in enumerate(vs):
                            if lj != li and not across:
                                continue
                            for q in range(3):
                                plain = w in ("E", "K")
                                c = {"v": w, "id": k, "pre": str(q) if plain else "../pB/%d/iaf" % q, "post": str((q + 1) % 3) if plain else "../pB/%d/iaf" % ((q + 1) % 3)}
                                if w in ("EIW", "KIW"):
                                    c["weight"] = 1.5
                                for f in fields:
                                    c[f] = base[f]
                                if lj == li and q == pos:
                                    c[fld] = other[fld]
                                conns.append(c)
                                k += 1
                        n[key].append({"id": "mx", "pre": "pB", "post": "pB", "conns": conns})
                        out.append(("%s:%s:%s:pos%d:%s" % (kind, v, fld, pos, "across" if across else "alone"), s))
    return out


# ------------------------------------------------------------------------------------------------- frame clause: write histories
def history_base():
    s = full_spec()
    n = s["networks"][0]
    n["projections"][0]["conns"] = [
        {"v": "C", "id": 0, "pre": "../pA[1]", "post": "../pB/2/iaf", "pre_segment_id": 1, "post_segment_id": 2, "pre_fraction_along": 0.25, "post_fraction_along": 0.75},
        {"v": "W", "id": 1, "pre": "../pA[2]", "post": "../pB/0/iaf", "pre_segment_id": 0, "post_segment_id": 1, "pre_fraction_along": 0.5, "post_fraction_along": 0.125,
         "weight": 0.5, "delay": "2ms"}]
    n["electrical"][0]["conns"] = [
        {"v": "EI", "id": 0, "pre": "../pB/0/iaf", "post": "../pB/1/iaf", "synapse": "gj1", "pre_segment": 1, "post_segment": 0, "pre_fraction_along": 0.25, "post_fraction_along": 0.5},
        {"v": "EIW", "id": 1, "pre": "../pB/1/iaf", "post": "../pB/2/iaf", "synapse": "gj1", "pre_segment": 0, "post_segment": 2, "pre_fraction_along": 0.5, "post_fraction_along": 0.75, "weight": 2.0}]
    n["continuous"][0]["conns"] = [
        {"v": "KI", "id": 0, "pre": "../pB/0/iaf", "post": "../pB/1/iaf", "pre_component": "silent1", "post_component": "gs1", "pre_segment": 1, "post_segment": 0,
         "pre_fraction_along": 0.25, "post_fraction_along": 0.5},
        {"v": "KIW", "id": 1, "pre": "../pB/1/iaf", "post": "../pB/2/iaf", "pre_component": "silent1", "post_component": "gs1", "pre_segment": 0, "post_segment": 2,
         "pre_fraction_along": 0.5, "post_fraction_along": 0.75, "weight": 3.0}]
    n["input_lists"][0]["inputs"] = [{"v": "I", "id": 0, "target": "../pA[1]", "segment_id": 1, "fraction_along": 0.25},
                                     {"v": "IW", "id": 1, "target": "../pA[2]", "segment_id": 0, "fraction_along": 0.75, "weight": 1.5}]
    return s


def _rows(n):
    for p in n["projections"]:
        for c in p["conns"]:
            yield "proj", c
    for k in ("electrical", "continuous"):
        for p in n[k]:
            for c in p["conns"]:
                yield k, c
    for p in n["input_lists"]:
        for c in p["inputs"]:
            yield "il", c


def _swap_form(ref, comp="iaf"):
    import re
    m = re.match(r"\.\./(\w+)\[(\d+)\]$", ref)
    if m:
        return "../%s/%s/%s" % (m.group(1), m.group(2), comp)
    m = re.match(r"\.\./(\w+)/(\d+)/\w+$", ref)
    if m:
        return "../%s[%s]" % (m.group(1), m.group(2))
    return ref


def _shift_cell(ref, by=1, mod=3):
    import re
    m = re.match(r"(\.\./\w+\[)(\d+)(\])$", ref) or re.match(r"(\.\./\w+/)(\d+)(/\w+)$", ref) or re.match(r"()(\d+)()$", ref)
    return "%s%d%s" % (m.group(1), (int(m.group(2)) + by) % mod, m.group(3))


EDITS = ["cells", "path-form", "segments", "fractions", "weights", "delays", "input-targets", "population-size", "instances", "ids"]


def edited(spec, what):
    s = json.loads(json.dumps(spec))
    n = s["networks"][0]
    for kind, c in _rows(n):
        if what == "cells" and kind != "il":
            c["pre"], c["post"] = _shift_cell(c["pre"]), _shift_cell(c["post"], 2)
        elif what == "path-form" and kind != "il":
            c["pre"], c["post"] = _swap_form(_shift_cell(c["pre"])), _swap_form(_shift_cell(c["post"]))
        elif what == "input-targets" and kind == "il":
            c["target"] = _swap_form(_shift_cell(c["target"], 1, 5)) if c["v"] == "I" else _shift_cell(c["target"], 2, 5)
        elif what == "segments":
            for k in ("pre_segment_id", "post_segment_id", "pre_segment", "post_segment", "segment_id"):
                if k in c:
                    c[k] = c[k] + 2
        elif what == "fractions":
            for k in ("pre_fraction_along", "post_fraction_along", "fraction_along"):
                if k in c:
                    c[k] = 1.0 - c[k] / 2
        elif what == "weights" and "weight" in c:
            c["weight"] = c["weight"] * 4 + 0.25
        elif what == "delays" and "delay" in c:
            c["delay"] = "0.007s"
        elif what == "ids":
            c["id"] = c["id"] + 10
    if what == "population-size":
        n["populations"][0]["size"] = 9
    if what == "instances":
        n["populations"][1]["instances"] = [[0, 9.5, 8.5, 7.5], [1, 6.5, 5.5, 4.5], [2, 3.5, 2.5, 1.5], [3, 0.5, 0.25, 0.125]]
    return s


def history_cases(r, nrandom):
    """(label, spec, edited spec, first use) : deterministic part = every first use x every class of edit; random part =
    generated documents whose numbers / cell references are perturbed"""
    out = []
    b = history_base()
    for action in ("write", "summary", "str", "xml"):
        for what in (EDITS if action != "xml" else EDITS[:2]):
            out.append(("%s-then-edit-%s" % (action, what), b, edited(b, what), action))
    for i in range(nrandom):
        spec, expect = gen_doc(r, 200000 + i)
        if expect != "same":
            continue
        s2 = json.loads(json.dumps(spec))
        n = s2["networks"][0]
        sizes = dict((p["id"], len(p["instances"]) or p["size"]) for p in n["populations"])
        pops = dict((p["id"], p) for p in n["populations"])
        for kk, rk in (("projections", "conns"), ("electrical", "conns"), ("continuous", "conns")):
            for p in n[kk]:
                for c in p[rk]:
                    for e, pid in (("pre", p["pre"]), ("post", p["post"])):
                        j = r.randrange(sizes[pid])
                        c[e] = str(j) if c["v"] in ("E", "K") else cellref(r, pops[pid], j)
                    for k in list(c):
                        if k.endswith("fraction_along"):
                            c[k] = fract(r)
                        elif "segment" in k:
                            c[k] = r.randint(0, 5)
                    if "delay" in c:
                        c["delay"] = delay(r)
        for il in n["input_lists"]:
            for c in il["inputs"]:
                c["target"] = cellref(r, pops[il["population"]], r.randrange(sizes[il["population"]]))
        out.append(("random-%d" % i, spec, s2, r.choice(["write", "summary", "str"])))
    return out


# ------------------------------------------------------------------------------------------------- scale
def big_population_case(n=2500):
    """ONE document with an instance-based population of 2500 placed cells (ids 0..n-1, all locations different), a projection and
    an input list whose end points use cells beyond 1024 / 2048 (block sizes of table readers)"""
    s = base_spec()
    net = s["networks"][0]
    net["populations"][1]["instances"] = [[i, i * 0.5, (i % 50) * 0.25, (i // 50) * 2.0 - 7.0] for i in range(n)]
    net["projections"].append({"id": "big", "pre": "pA", "post": "pB", "synapse": "syn1", "conns": [
        {"v": "C", "id": k, "pre": "../pA[%d]" % (k % 5), "post": "../pB/%d/iaf" % c, "post_segment_id": 1, "post_fraction_along": 0.25}
        for k, c in enumerate((0, 1023, 1024, 1025, 2047, 2048, n - 1))]})
    net["input_lists"].append({"id": "bigil", "component": "pg", "population": "pB", "inputs": [
        {"v": "I", "id": k, "target": "../pB/%d/iaf" % c, "segment_id": 0, "fraction_along": 0.5} for k, c in enumerate((1500, 1024, n - 1))]})
    return s


def canon_result(r):
    """what of a run must not depend on the interpreter's configuration: refused or not (and with which exception class), the
    verdict, the loaded document"""
    return {"stage": r["stage"], "error": (r["error"] or "").split(":")[0], "ok": r["verdict"].get("ok"), "after": r.get("after")}


def population_class_cases():
    """deterministic, every run: populations WITH instances x type in {unset, population, populationList} x size in {unset,
    = number of instances, another number}, and sized populations x the same types -> (label, spec, expect).
    Each carries a projection and an input list onto it, so that the cell references are exercised in both path forms."""
    out = []
    for typ in (None, "population", "populationList"):
        for sc, size in (("unset", None), ("equal", 3), ("other", 8)):
            s = base_spec()
            n = s["networks"][0]
            pb = n["populations"][1]
            pb["type"] = typ
            pb["size"] = size
            if typ is None:
                pb.pop("type")
            n["projections"].append({"id": "pr", "pre": "pA", "post": "pB", "synapse": "syn1", "conns": [
                {"v": "C", "id": 0, "pre": "../pA[1]", "post": "../pB/2/iaf"}, {"v": "C", "id": 1, "pre": "../pA[0]", "post": "../pB[1]"}]})
            n["input_lists"].append({"id": "il", "component": "pg", "population": "pB", "inputs": [{"v": "I", "id": 0, "target": "../pB/1/iaf"}]})
            out.append(("population:instances:type=%s:size=%s" % (typ, sc), s, "same"))
        for sc, size in (("unset", None), ("given", 4)):
            s = base_spec()
            n = s["networks"][0]
            pa = n["populations"][0]
            pa["size"] = size
            if typ is not None:
                pa["type"] = typ
            n["input_lists"].append({"id": "il", "component": "pg", "population": "pA", "inputs": [{"v": "I", "id": 0, "target": "../pA[1]"}]})
            # a population with neither instances nor a size cannot be held: refusal (write or load) or a faithful round trip
            out.append(("population:sized:type=%s:size=%s" % (typ, sc), s, "same" if size is not None else "any"))
    return out


def boundary_string_cases():
    """deterministic, every run: every string slot the format stores takes every boundary value that is legal for it, one
    slot and one value per document -> (label, spec)"""
    out = []

    def doc(slot, v):
        s = full_spec()
        out.append(("%s=%r" % (slot, v), s))
        return s, s["networks"][0]
    for v in BOUNDARY:
        s, n = doc("document.notes", v)
        s["notes"] = v
        s, n = doc("network.notes", v)
        n["notes"] = v
        s, n = doc("population.property.value", v)
        n["populations"][1]["properties"] = [["flag", v], ["other", "x"]]
        s, n = doc("population.property.tag", v)
        n["populations"][1]["properties"] = [[v, "val"], ["other", "x"]]
        s, n = doc("document.property.value", v)
        s["properties"] = [["flag", v], ["other", "x"]]
        if v.strip():
            s, n = doc("component.notes", v)      # a top-level component travelling in the embedded XML
            s["components"][0]["args"]["notes"] = v
    for v in TEMP_BOUNDARY:
        s, n = doc("network.temperature", v)
        n["temperature"] = v
    for v in ID_BOUNDARY:
        s, n = doc("document.id", v)
        s["id"] = v
        s, n = doc("network.id", v)
        n["id"] = v
        for old in ("pA", "pB"):
            s, n = doc("population.id(%s)" % old, v)
            rename_population(n, old, v)
        s, n = doc("population.component", v)
        rename_component(s, "iaf", v)
        for p in n["populations"]:
            p["component"] = v
        for c in n["projections"][0]["conns"] + n["electrical"][0]["conns"] + n["continuous"][0]["conns"] + n["input_lists"][0]["inputs"]:
            for e in ("pre", "post", "target"):
                if e in c:
                    c[e] = c[e].replace("/iaf", "/" + v)
        s, n = doc("projection.id", v)
        n["projections"][0]["id"] = v
        s, n = doc("projection.synapse", v)
        rename_component(s, "syn1", v)
        n["projections"][0]["synapse"] = v
        s, n = doc("electricalProjection.id", v)
        n["electrical"][0]["id"] = v
        s, n = doc("electricalProjection.synapse", v)
        rename_component(s, "gj1", v)
        n["electrical"][0]["conns"][0]["synapse"] = v
        s, n = doc("continuousProjection.id", v)
        n["continuous"][0]["id"] = v
        s, n = doc("continuousProjection.preComponent", v)
        rename_component(s, "silent1", v)
        n["continuous"][0]["conns"][0]["pre_component"] = v
        s, n = doc("continuousProjection.postComponent", v)
        rename_component(s, "gs1", v)
        n["continuous"][0]["conns"][0]["post_component"] = v
        s, n = doc("inputList.id", v)
        n["input_lists"][0]["id"] = v
        s, n = doc("inputList.component", v)
        rename_component(s, "pg", v)
        n["input_lists"][0]["component"] = v
    return out


def keys_of(dif, verdict, stage, error, reason=""):
    """one structural key per difference (a known finding must not hide another failure of the same document)"""
    if not dif or (verdict.get("refused") and dif[0][1] == "round trip") or dif[0][2] == "accepted silently":
        return [(key_of(dif, verdict, stage, error, reason), dif)]
    seen, out = set(), []
    for d in dif:
        k = key_of([d], verdict, stage, error, reason)
        if k not in seen:
            seen.add(k)
            out.append((k, [d]))
    return out


ROWF = {"proj": ["pre_cell", "post_cell", "pre_seg", "post_seg", "pre_fract", "post_fract", "weight", "delay"],
        "elec": ["id", "pre_cell", "post_cell", "pre_seg", "post_seg", "pre_fract", "post_fract", "weight"],
        "cont": ["id", "pre_cell", "post_cell", "pre_seg", "post_seg", "pre_fract", "post_fract", "weight"],
        "il": ["id", "cell", "seg", "fract", "weight"]}
KNAME = {"proj": "projection", "elec": "electrical", "cont": "continuous", "il": "inputlist", "pops": "population"}


def key_of(dif, verdict, stage, error, reason=""):
    """structural class of a failure"""
    import re
    if verdict.get("refused") and dif and dif[0][1] == "round trip":
        return "C05:refused:%s:%s" % (stage, (error or "").split(":")[0])
    if dif and dif[0][2] == "accepted silently":
        return "C05:not-refused" + (":" + reason if reason else "")
    path = dif[0][0] if dif else "?"
    if re.match(r"/networks/[^/]+/cont/[^/]+/syn\[\d+\]\[0\]", path) and str(dif[0][2]).startswith("silentSyn_"):
        return "C05:continuous.pre-component-not-in-document"
    if path == "/annotation":
        return "C05:document.annotation"
    if path.startswith("/top/silent_synapses") and "silentSyn_" in json.dumps(dif[0][2]):
        return "C05:continuous.pre-component-not-in-document"
    if dif and dif[0][1] == "" and dif[0][2] is None:
        if path == "/notes":
            return "C05:notes-empty-read-as-absent"
        if re.match(r"/networks/[^/]+/notes$", path):
            return "C05:network.notes-empty-read-as-absent"
    m = re.match(r"/networks/[^/]+/(proj|elec|cont|il)/[^/]+/rows(?:\[(\d+)\]\[(\d+)\])?(#len)?", path)
    if m:
        if m.group(4):
            return "C05:%s.row-count" % KNAME[m.group(1)]
        fld = ROWF[m.group(1)][int(m.group(3))] if m.group(3) else "rows"
        if m.group(1) == "il" and fld == "fract" and dif[0][1] == 0.0 and dif[0][2] == 0.5:
            fld = "fract-zero-read-as-default"
        return "C05:%s.%s" % (KNAME[m.group(1)], fld)
    m = re.match(r"/networks/[^/]+/(proj|elec|cont|il|pops)/[^/]+/(\w+)", path)
    if m:
        return "C05:%s.%s" % (KNAME[m.group(1)], m.group(2))
    m = re.match(r"/networks/[^/]+/(\w+)", path)
    if m:
        return "C05:" + ("network." + m.group(1) if m.group(1) in ("notes", "temperature") else m.group(1))
    if path.startswith("/top"):
        m = re.match(r"/top/(\w+)/(\w+)", path)
        return "C05:top-level-components" + (":%s.%s" % (m.group(1), m.group(2)) if m else "")
    return "C05:" + re.sub(r"\[\d+\]", "", path).strip("/").replace("/", ".")


# ------------------------------------------------------------------------------------------------- model vs code (dyadic cases)
def cz(x):
    v = x * 1024
    assert abs(v - round(v)) < 1e-9
    return "(%d)%%Z" % round(v)


def dy(r, lo, hi, q):
    return r.randint(lo * q, hi * q) / float(q)


def gen_corr(r, t, n):
    """one construct with exactly representable numbers -> (spec, coq term of the model run, where to look in sem(after))"""
    kind = r.choice(["projection", "electrical", "continuous", "inputlist", "population"])
    s = base_spec()
    net = s["networks"][0]
    inst = r.random() < 0.6
    pop = "pB" if inst else "pA"
    size = 3 if inst else 5
    rows = []
    vn = {"projection": ["Connection", "ConnectionWD"], "electrical": ["ElectricalConnection", "ElectricalConnectionInstance", "ElectricalConnectionInstanceW"],
          "continuous": ["ContinuousConnection", "ContinuousConnectionInstance", "ContinuousConnectionInstanceW"], "inputlist": ["Input", "InputW"],
          "population": ["Instance"]}[kind]
    nrows = r.randint(1, 6)
    present = [v for v in vn if r.random() < 0.6] or [r.choice(vn)]
    if kind in ("electrical", "continuous") and not inst:
        present = [v for v in present if not v.endswith("W")] or [vn[0]]
    segfract = r.random() < 0.5
    iid = r.sample(range(0, 200), nrows)
    for j in range(nrows):
        v = r.choice(present)
        f = {"id": iid[j]}
        if kind == "population":
            f.update(x=dy(r, -9, 9, 8), y=dy(r, -9, 9, 8), z=dy(r, -9, 9, 8))
        elif kind == "inputlist":
            f.update(cell=r.randrange(size), seg=r.randint(0, 4), fract=r.choice([0.5, 0.25, 0.75, 0.125]), weight=dy(r, -2, 4, 8) if v == "InputW" else 1.0)
        else:
            f.update(pre_cell=r.randrange(size), post_cell=r.randrange(size), weight=1.0, delay=0.0)
            if kind != "projection" or segfract:
                f.update(pre_seg=r.randint(0, 4), post_seg=r.randint(0, 4), pre_fract=r.choice([0.5, 0.25, 0.75]), post_fract=r.choice([0.5, 0.125, 1.0]))
            else:
                f.update(pre_seg=0, post_seg=0, pre_fract=0.5, post_fract=0.5)
            if v.endswith("W") or v == "ConnectionWD":
                f["weight"] = dy(r, -2, 4, 8)
            if v == "ConnectionWD":
                f["delay"] = dy(r, 0, 9, 4)
        rows.append((v, f))
    # element lists in document order = list concatenation order
    rows.sort(key=lambda x: vn.index(x[0]))
    present = [v for v in vn if any(x[0] == v for x in rows)]
    if kind == "projection" and segfract and all(f["pre_seg"] == 0 and f["post_seg"] == 0 and f["pre_fract"] == 0.5 and f["post_fract"] == 0.5 for _, f in rows):
        segfract = False
    flags = sorted(present) + (["segfract"] if kind == "projection" and segfract else [])
    ti = [i for i, w in enumerate(t["json"]["writer"]) if w["kind"] == kind and w["flags"] == flags]
    if len(ti) != 1:
        return None
    path = lambda i: ("../%s/%d/iaf" % (pop, i)) if inst else "../%s[%d]" % (pop, i)  # noqa: E731
    where = None
    if kind == "population":
        net["populations"][1]["instances"] = [[f["id"], f["x"], f["y"], f["z"]] for _, f in rows]
        where = ["pops", "pB", "locs"]
        inst = True
    elif kind == "inputlist":
        net["input_lists"].append({"id": "c", "component": "pg", "population": pop, "inputs": [
            dict(v="I" if v == "Input" else "IW", id=f["id"], target=path(f["cell"]), segment_id=f["seg"], fraction_along=f["fract"], weight=f["weight"]) for v, f in rows]})
        where = ["il", "c", "rows"]
    elif kind == "projection":
        net["projections"].append({"id": "c", "pre": pop, "post": pop, "synapse": "syn1", "conns": [
            dict(v="C" if v == "Connection" else "W", id=f["id"], pre=path(f["pre_cell"]), post=path(f["post_cell"]), pre_segment_id=f["pre_seg"],
                 post_segment_id=f["post_seg"], pre_fraction_along=f["pre_fract"], post_fraction_along=f["post_fract"], weight=f["weight"],
                 delay="%sms" % f["delay"]) for v, f in rows]})
        where = ["proj", "c", "rows"]
    else:
        code = {"ElectricalConnection": "E", "ElectricalConnectionInstance": "EI", "ElectricalConnectionInstanceW": "EIW",
                "ContinuousConnection": "K", "ContinuousConnectionInstance": "KI", "ContinuousConnectionInstanceW": "KIW"}
        cs = []
        for v, f in rows:
            plain = v in ("ElectricalConnection", "ContinuousConnection")
            c = dict(v=code[v], id=f["id"], pre=str(f["pre_cell"]) if plain else path(f["pre_cell"]), post=str(f["post_cell"]) if plain else path(f["post_cell"]),
                     pre_segment=f["pre_seg"], post_segment=f["post_seg"], pre_fraction_along=f["pre_fract"], post_fraction_along=f["post_fract"], weight=f["weight"])
            if kind == "electrical":
                c["synapse"] = "gj1"
            else:
                c["pre_component"], c["post_component"] = "silent1", "gs1"
            cs.append(c)
        net[kind].append({"id": "c", "pre": pop, "post": pop, "conns": cs})
        where = ["elec" if kind == "electrical" else "cont", "c", "rows"]
    fl = {"projection": ["pre_cell", "post_cell", "pre_seg", "post_seg", "pre_fract", "post_fract", "weight", "delay"],
          "inputlist": ["id", "cell", "seg", "fract", "weight"], "population": ["x", "y", "z"]}.get(
              kind, ["id", "pre_cell", "post_cell", "pre_seg", "post_seg", "pre_fract", "post_fract", "weight"])
    allf = sorted(set(k for _, f in rows for k in f))
    crow = coq_list(["(%s, frow %s)" % (coq_str(v), coq_list(["(%s, %s)" % (coq_str(k), cz(f[k])) for k in allf if k in f])) for v, f in rows])
    term = "run_model gen %d %s %s" % (ti[0], "true" if inst else "false", crow)
    return s, term, where, fl


CORR_HDR = """From Coq Require Import String List Bool ZArith.
From LNML Require Import Model.H5.
From Run Require Import Gen_C05.
Import ListNotations.
Open Scope string_scope.
(* numbers are scaled by 1024 (all inputs are multiples of 1/1024 below 2^13, i.e. float32 numbers): r32 = int() = identity;
   zc and frow are those of Model/H5.v *)
Definition dummy := {| wt_kind := EmptyString; wt_flags := nil; wt_names := nil; wt_variants := nil; wt_gattrs := nil |}.
Definition run_model (g : h5gen) (i : nat) (inst : bool) (rows : list (string * (string -> Z))) : option (list (list Z)) :=
  let wt := nth i (g_writer g) dummy in
  match write_rows Z (fun x => x) zc wt rows with
  | Some cells => load_rows Z (fun x => x) zc (fun n => (1024 * Z.of_nat n)%Z) (-7)%Z Z.eqb (wt_kind wt) inst (wt_names wt)
                            (reader_of g (wt_kind wt)) cells
  | None => None end.
Fixpoint zl_eqb (a b : list Z) : bool :=
  match a, b with [], [] => true | x :: a', y :: b' => Z.eqb x y && zl_eqb a' b' | _, _ => false end.
Fixpoint zll_eqb (a b : list (list Z)) : bool :=
  match a, b with [], [] => true | x :: a', y :: b' => zl_eqb x y && zll_eqb a' b' | _, _ => false end.
Definition agree (m : option (list (list Z))) (impl : option (list (list Z))) : bool :=
  match m, impl with Some a, Some b => zll_eqb a b | None, None => true | _, _ => false end.
Fixpoint mismatches (i : nat) (l : list (option (list (list Z)) * option (list (list Z)))) : list nat :=
  match l with [] => [] | (m, x) :: t => if agree m x then mismatches (S i) t else i :: mismatches (S i) t end.
"""


def correspondence(ck, t, n):
    cases = []
    tries = 0
    while len(cases) < n and tries < 5 * n:
        tries += 1
        g = gen_corr(ck.rng, t, len(cases))
        if g is not None:
            cases.append(g)
    res = ck.impl("c05_impl.py", {"cases": [{"spec": c[0], "modes": ["plain"], "want_after": True} for c in cases]}, timeout=1500)["results"]
    terms = []
    outs = []
    for (spec, term, where, fl), r in zip(cases, res):
        r = r["plain"]
        if r["stage"] == "done":
            a = r["after"]["networks"]["n"]
            for w in where:
                a = a[w]
            impl = "Some " + coq_list([coq_list([cz(v) for v in row]) for row in a])
            outs.append(a)
        else:
            impl = "None"
            outs.append(r["error"])
        terms.append("(%s, %s)" % (term, impl))
    bad = []
    for k in range(0, len(terms), 400):
        chunk = terms[k:k + 400]
        txt = CORR_HDR + "Eval vm_compute in (mismatches 0 %s).\n" % coq_list(["\n  " + x for x in chunk])
        ok, results, out = ck.coq_eval("Cases_C05_%d.v" % (k // 400), txt)
        if not ok or not results:
            ck.oblige("Cases_C05_%d.v:evaluates" % (k // 400), False, out[-1500:], kind="correspondence")
            continue
        ck.oblige("Cases_C05_%d.v:evaluates" % (k // 400), True, kind="correspondence")
        body = results[0].strip()
        if body not in ("[]", "nil"):
            import re
            for m in re.findall(r"\d+", body.replace("%nat", "")):
                bad.append(k + int(m))
    for i in bad[:5]:
        ck.disagree("H5.load_rows/write_rows", cases[i][0], cases[i][1][:600], outs[i])
    for (spec, term, where, fl) in cases:
        ck.tally("corr:" + where[0])
    ck.extra["correspondence_cases"] = len(cases)
    ck.extra["correspondence_mismatches"] = len(bad)
    return cases, res, bad


# ------------------------------------------------------------------------------------------------- run
def report_all(ck, what, spec, r, mode="plain", expect="same", reason="", prefix=""):
    """one witness per structural class among the differences of this round trip"""
    v = r["verdict"]
    for k, d in keys_of(v.get("diff", []), v, r["stage"], r["error"], reason):
        if prefix:
            k = k.replace("C05:", prefix)
        r2 = dict(r, verdict=dict(v, diff=d))
        report(ck, k, "%s: %s" % (what, k), spec, r2, mode=mode, expect=expect)


def report(ck, key, what, spec, r, mode="plain", broken=None, expect="same"):
    v = r["verdict"]
    ck.witness(key, what, input={"spec": spec, "mode": mode, "expect": expect}, expected="sem(load(write d)) = sem32 d, or an exception for a construct the format cannot hold",
               observed={"stage": r["stage"], "error": r["error"], "diff": v.get("diff", [])[:6]}, broken=broken)


def run(ck):
    ck.rule = ("one evaluation = one document written with NeuroMLHdf5Writer and loaded with NeuroMLHdf5Loader, compared through the "
               "harness-side semantic projection; non-trivial = the document holds at least one table row; distinct by the multiset of "
               "(kind, row variants present, path forms, instance/sized) of its constructs plus its id numbering class")
    ck.trusted = ["Coq 8.16.1 kernel + vm_compute (no native_compute)",
                  "translators/tr_h5layout.py: recording mocks of tables.File/Group/CArray and of a PyTables group/dataset as the parser sees them "
                  "(attribute names sorted, numpy.str_ values, CLASS/TITLE/VERSION system attributes), sentinel matching",
                  "Section variables of Model/H5.v: F, r32 (float32 rounding, idempotent on the constants 0, 1, 1/2, -1), rint (python int(): identity on "
                  "stored integers), weq (==), PyTables as a store (what is written under a path/attribute is what is read back; children iterated in name order)",
                  "impl/c05_impl.py: harness-side semantic projection (own path / delay parsing), float32 tolerance 1.2e-7 relative",
                  "hand-written specification tables in Model/H5.v (argmap, sem_default, vfields, classify_b, gspec, must_refuse), tied by the "
                  "kernel-checked builder_ok / groups_ok obligations and by the correspondence run"]
    ck.assumptions = ["numpy float32 assignment rounds to nearest; int() of an integral float32 is exact",
                      "PyTables returns attributes and arrays as written",
                      "the embedded XML of the non-network components round-trips (C01/C04 machinery); checked here on every generated document by comparison of the exported XML"]
    ck.gate_static()
    t = translate(ck)
    inst_ok = False
    if t is not None:
        g = ck.gen_v("Gen_C05.v", t["coq"])
        ok, out = ck.coqc(g)
        ck.oblige("Gen_C05.v:compiles", ok, out[-1500:], kind="translate")
        if ok:
            inst_ok = obligations(ck, t)
            if not inst_ok:
                ck.extra["diagnostics"] = diagnostics(ck)
            # Props need: all_layouts, groups, builder, refuse
            need = ["Inst_C05_layout.v:all_layouts", "Inst_C05_stores.v:all_stores", "Inst_C05_select.v:select", "Inst_C05_skeleton.v:skeleton", "Inst_C05_optimized.v:optimized", "Inst_C05_groups.v:groups", "Inst_C05_builder.v:builder", "Inst_C05_refuse.v:refuse"]
            okn = all(any(o["name"] == nme and o["ok"] for o in ck.obligations) for nme in need)
            if okn:
                ck.compile_props()
            else:
                for nm in ("C05_row", "C05_table", "C05_table_construct", "C05_roundtrip_partial", "C05_select", "C05_network_roundtrip_partial", "C05_document_roundtrip",
                           "C05_document_roundtrip_with_C01", "C05_optimized_row", "C05_group_attributes", "C05_builder", "C05_refuse"):
                    ck.oblige("Props_C05.v:" + nm, False, "an instance obligation it rests on failed", kind="theorem")
            ck.tally("writer_tables", len(t["json"]["writer"]))
            ck.tally("builder_contexts", len(t["json"]["builder"]))

    # ---- stored witnesses first (every run)
    sw = stored_witnesses()
    res = ck.impl("c05_impl.py", {"cases": [{"spec": s, "modes": ["plain"], "expect": e, "want_after": True} for _, _, s, e in sw]}, timeout=900)["results"]
    ref_sw = res
    for (key, what, spec, expect), r in zip(sw, res):
        r = r["plain"]
        ck.count(1, nontrivial_key="stored:" + key + what[:20])
        ck.tally("stored_witness")
        if not r["verdict"]["ok"]:
            # the structural class is computed from the failure itself (a stored witness may fail for a new reason)
            report_all(ck, what + " [stored witness " + key + "]", spec, r, expect=expect,
                       reason=key.split("C05:not-refused:")[1] if key.startswith("C05:not-refused:") else "")
        if r.get("doc_untouched") is False:
            ck.witness("C05:writer-changes-the-document", "the writer left the document changed", input={"spec": spec})

    # ---- every run: one field off its default at a time, for every kind / variant / field
    sf = single_field_cases()
    res = ck.impl("c05_impl.py", {"cases": [{"spec": s, "modes": ["plain"], "expect": "same", "want_after": i < 10} for i, (_, s) in enumerate(sf)]},
                  timeout=900)["results"]
    ref_sf = res[:10]
    for (label, spec), r in zip(sf, res):
        r = r["plain"]
        ck.count(1, nontrivial_key="single:" + label)
        ck.tally("single_field_off")
        if not r["verdict"]["ok"]:
            report_all(ck, "only one field off its default (%s)" % label, spec, r)

    # ---- every run (negative clause): mixed synapses / components in every connection list at every position must be refused
    mx = mixed_synapse_cases()
    res = ck.impl("c05_impl.py", {"cases": [{"spec": s, "modes": ["plain"], "expect": "refuse", "want_after": True} for _, s in mx]}, timeout=900)["results"]
    ref_mx = res
    for (label, spec), rr in zip(mx, res):
        r = rr["plain"]
        ck.count(1, nontrivial_key="mixed:" + label)
        ck.tally("mixed_synapse_refusal")
        if not r["verdict"]["ok"]:
            report_all(ck, "connections with different synapses / components in one projection (%s)" % label, spec, r, expect="refuse",
                       reason="mixed-" + ":".join(label.split(":")[:2]))

    # ---- every run (scale): 2500 placed cells, standard and optimized loader (judged by the predicate only: ids, locations and the
    #      end points beyond 1024; not part of the Coq case files, whose literals would be too large)
    bigspec = big_population_case()
    rr = ck.impl("c05_impl.py", {"cases": [{"spec": bigspec, "modes": ["plain", "optimized"], "expect": "same"}]}, timeout=900)["results"][0]
    ck.count(1, nontrivial_key="scale:2500-instances")
    ck.tally("scale_2500_instances")
    ck.extra["scale_case"] = "one document with 2500 instances (predicate only, not in the Coq correspondence literals)"
    for mode, r in rr.items():
        if not r["verdict"]["ok"]:
            report_all(ck, "population of 2500 placed cells (%s loader)" % mode, {"generator": "checks/c05.py:big_population_case(2500)"}, r,
                       mode=mode, prefix="C05:scale:" if mode == "plain" else "C05:optimized:scale:")

    # ---- every run (environment): the interpreter's configuration is not input.  All refusal cases and the first deterministic
    #      documents again under `python -O` (asserts stripped) and with another hash seed from another working directory: refused /
    #      round-tripped exactly as in the default run
    cfg = [{"spec": s, "modes": ["plain"], "expect": "refuse", "want_after": True} for _, s in mx]
    cfg += [{"spec": s, "modes": ["plain"], "expect": e, "want_after": True} for _, _, s, e in sw]
    cfg += [{"spec": s, "modes": ["plain"], "expect": "same", "want_after": True} for _, s in sf[:10]]
    ref = ref_mx + ref_sw + ref_sf          # the default-configuration results of the same cases (runs above)
    for which, kw in (("python-O", {"pyflags": ["-O"]}), ("hashseed3-cwd-root", {"extra_env": {"PYTHONHASHSEED": "3"}, "cwd": "/"})):
        try:
            other = ck.impl("c05_impl.py", {"cases": cfg}, timeout=900, **kw)["results"]
        except Exception as e:  # noqa: BLE001
            ck.oblige("impl:c05_impl.py[%s]" % which, False, str(e)[-1500:], kind="correspondence")
            continue
        for case, a, b in zip(cfg, ref, other):
            ck.count(1)
            ck.tally("interpreter_configuration:" + which)
            ca, cb_ = canon_result(a["plain"]), canon_result(b["plain"])
            if ca != cb_:
                d = [k for k in ("stage", "error", "ok", "after") if ca[k] != cb_[k]]
                ck.witness("C05:interpreter-configuration:%s" % which,
                           "the same document is treated differently under %s (%s differs: default %s/%s, there %s/%s)"
                           % (which, d[0], ca["stage"], ca["error"], cb_["stage"], cb_["error"]),
                           input={"spec": case["spec"], "mode": "plain", "expect": case["expect"], "configuration": which},
                           expected={"stage": ca["stage"], "error": ca["error"]}, observed={"stage": cb_["stage"], "error": cb_["error"]})

    # ---- every run (frame clause): use the document once, edit it in place, write again: the EDITED document must come back
    hc = history_cases(ck.rng, ck.n(8, 150))
    res = ck.impl("c05_impl.py", {"cases": [{"spec": a, "after_spec": b, "action": act, "modes": ["plain"], "expect": "same"} for _, a, b, act in hc]},
                  timeout=1500)["results"]
    for (label, a, b, act), rr in zip(hc, res):
        r = rr["plain"]
        ck.count(1, nontrivial_key="history:" + label)
        ck.tally("write_history:" + act)
        if not r["verdict"]["ok"]:
            v = r["verdict"]
            for k, d in keys_of(v.get("diff", []), v, r["stage"], r["error"]):
                k = k.replace("C05:", "C05:stale-after-%s:" % act)
                ck.witness(k, "document used once (%s), edited in place, written again (%s): %s" % (act, label, k),
                           input={"spec": a, "after_spec": b, "action": act, "mode": "plain", "expect": "same"},
                           expected="the loaded document describes the edited document", observed={"stage": r["stage"], "error": r["error"], "diff": d[:6]})

    # ---- every run: every class of population (instances / sized) x type attribute x size
    pc = population_class_cases()
    res = ck.impl("c05_impl.py", {"cases": [{"spec": s, "modes": ["plain", "optimized"], "expect": e} for _, s, e in pc]}, timeout=900)["results"]
    for (label, spec, expect), rr in zip(pc, res):
        ck.count(1, nontrivial_key="popclass:" + label)
        ck.tally("population_class")
        for mode, r in rr.items():
            if not r["verdict"]["ok"]:
                report_all(ck, "population class (%s, %s loader)" % (label, mode), spec, r, mode=mode, expect=expect,
                           prefix="C05:optimized:" if mode == "optimized" else "")

    # ---- every run: every string slot with every boundary value that is legal for it (plain and optimized loader)
    bs = boundary_string_cases()
    cases = [{"spec": s, "modes": ["plain"], "expect": "same"} for lab, s in bs]
    nplain = len(cases)
    for lab, s in list(bs):
        if lab.startswith(("document.notes", "network.notes", "population.property")):
            s2 = json.loads(json.dumps(s))      # the optimized loader refuses electrical / continuous projections by design
            s2["networks"][0]["electrical"], s2["networks"][0]["continuous"] = [], []
            cases.append({"spec": s2, "modes": ["optimized"], "expect": "same"})
            bs.append((lab, s2))
    res = ck.impl("c05_impl.py", {"cases": cases}, timeout=900)["results"]
    for (label, spec), rr in zip(bs, res):
        ck.count(1, nontrivial_key="string:" + label)
        ck.tally("boundary_string")
        for mode, r in rr.items():
            if not r["verdict"]["ok"]:
                report_all(ck, "boundary string in a string slot (%s, %s loader)" % (label, mode), spec, r, mode=mode,
                           prefix="C05:optimized:" if mode == "optimized" else "")

    # ---- model vs code on exactly representable inputs
    if t is not None and inst_ok:
        correspondence(ck, t, ck.n(150, 1200))

    # ---- generated documents over the full quantifier
    n = ck.n(120, 3000)
    specs = [gen_doc(ck.rng, i) for i in range(n)]
    nopt = ck.n(40, 300)
    B = 150
    for k in range(0, n, B):
        chunk = specs[k:k + B]
        cases = [{"spec": s, "modes": ["plain"], "expect": e.split(":")[0]} for s, e in chunk]
        res = ck.impl("c05_impl.py", {"cases": cases}, timeout=1500)["results"]
        for (spec, expect), r in zip(chunk, res):
            r = r["plain"]
            net = spec["networks"][0]
            sig = []
            nrows = 0
            for kk, rk in (("projections", "conns"), ("electrical", "conns"), ("continuous", "conns"), ("input_lists", "inputs")):
                for c in net[kk]:
                    vs = sorted(set(x["v"] for x in c[rk]))
                    forms = sorted(set(("L" if "/" in str(x.get("pre", x.get("target")))[3:] else "I") for x in c[rk]))
                    idc = "seq" if [x["id"] for x in c[rk]] == list(range(len(c[rk]))) else "arb"
                    sig.append((kk, tuple(vs), tuple(forms), idc))
                    nrows += len(c[rk])
                    ck.tally(kk + ":" + "+".join(vs) if vs else kk + ":empty")
            for p in net["populations"]:
                ck.tally("population:" + ("instances" if p["instances"] else "sized"))
                nrows += len(p["instances"])
            ck.tally("expect:" + expect.split(":")[0])
            ck.count(1, nontrivial_key=json.dumps(sorted(sig)) if nrows else None,
                     sample={"doc": spec["id"], "constructs": sorted(sig)[:4], "expect": expect, "stage": r["stage"]} if k == 0 else None)
            if not r["verdict"]["ok"]:
                report_all(ck, "generated document", spec, r, expect=expect.split(":")[0], reason=expect.partition(":")[2])
            if r.get("doc_untouched") is False:
                ck.witness("C05:writer-changes-the-document", "the writer left the document changed", input={"spec": spec})

    # ---- optimized=True loading (documented as work in progress in the library): the part it claims to support
    optspecs = []
    for i in range(nopt):
        s, e = gen_doc(ck.rng, 100000 + i)
        net = s["networks"][0]
        net["electrical"], net["continuous"] = [], []
        for p in net["projections"]:
            for c in p["conns"]:
                c["v"] = "C"
                c.pop("weight", None)
                c.pop("delay", None)
        for il in net["input_lists"]:
            for j, c in enumerate(il["inputs"]):
                c["v"] = "I"
                c["id"] = j
                c.pop("weight", None)
                c.setdefault("segment_id", 0)
                c.setdefault("fraction_along", 0.5)
        optspecs.append(s)
    if optspecs:
        res = ck.impl("c05_impl.py", {"cases": [{"spec": s, "modes": ["optimized"], "expect": "same"} for s in optspecs]}, timeout=900)["results"]
        nbad = 0
        for s, r in zip(optspecs, res):
            r = r["optimized"]
            ck.count(1)
            ck.tally("optimized_mode")
            if not r["verdict"]["ok"]:
                nbad += 1
                report_all(ck, "optimized=True load", s, r, mode="optimized", prefix="C05:optimized:")
        ck.extra["optimized_mode_failures"] = nbad


def replay(ck, data):
    inp = data.get("input") or {}
    spec = inp.get("spec")
    if spec is None:
        print(json.dumps(data, indent=1)[:4000])
        return 0
    mode = inp.get("mode", "plain")
    case = {"spec": spec, "modes": [mode], "expect": inp.get("expect", "same"), "want_after": True}
    if inp.get("after_spec") is not None:
        case.update(after_spec=inp["after_spec"], action=inp.get("action", "write"))
    res = ck.impl("c05_impl.py", {"cases": [case]}, timeout=300)["results"][0][mode]
    print(json.dumps({"key": data.get("key"), "stage": res["stage"], "error": res["error"], "verdict": res["verdict"]}, indent=1)[:6000])
    return 0 if res["verdict"]["ok"] else 1
