"""C02 - schema-conforming trees pass validate() and are written as schema-valid XML.  See design_notes/C02.md"""
import json
import re
from concurrent.futures import ThreadPoolExecutor

from checks import c03
from lib import bindings, escape_check, gdsgen, schemagen
from lib.vcommon import coq_list, coq_str

HEADER = ("From Coq Require Import String List ZArith Bool.\n"
          "From LNML Require Import Lib.Dec Lib.Regex Model.Gds Model.Validate Model.Xsd.\n"
          "From Run Require Import Gen_Bindings Gen_Schema.\nImport ListNotations.\nOpen Scope string_scope.\n")

K_ORDER = "C02:repeated-choice-group-written-grouped-by-member"


def T_(cls, **kw):
    return {"cls": cls, "kw": [[k, v] for k, v in kw.items()]}


def s_(x):
    return {"s": x}


def gate_ks(pairs):
    return T_("GateKS", id=s_("g"), instances={"i": 1},
              closed_states={"l": [T_("ClosedState", id=s_("c"))]}, open_states={"l": [T_("OpenState", id=s_("o"))]},
              forward_transition={"l": [T_("ForwardTransition", id=s_("f%d" % i), from_=s_("c"), to=s_("o")) for i in range(pairs)]},
              reverse_transition={"l": [T_("ReverseTransition", id=s_("r%d" % i), from_=s_("o"), to=s_("c")) for i in range(pairs)]})


W_ORDER = {"tree": gate_ks(2), "tag": "probe_GateKS"}
STORED = [(K_ORDER, W_ORDER,
           "a GateKS holding two forwardTransition/reverseTransition pairs conforms to the schema (f r f r) and passes "
           "validate(), but the writer groups children by member and writes f f r r, which the schema rejects")]


# ----------------------------------------------------------------------------- Coq side
def ascii_ok(x):
    return all(ord(c) < 128 for c in json.dumps(x, ensure_ascii=False))


def eval_shards(ck, label, items, mk_text, on_mismatch, shard):
    files = [(i // shard, items[i:i + shard]) for i in range(0, len(items), shard)]
    with ThreadPoolExecutor(max_workers=8) as ex:
        evals = list(ex.map(lambda f: ck.coq_eval("%s_%d.v" % (label, f[0]), mk_text(f[1]), timeout=900), files))
    for (i, chunk), (ok, res, out) in zip(files, evals):
        ck.oblige("%s_%d.v:evaluates" % (label, i), ok, out[-1500:], kind="correspondence")
        if ok:
            for m in re.finditer(r"\d+", res[0] if res else ""):
                on_mismatch(chunk[int(m.group(0))])


def xsd_correspondence(ck, xcases):
    """Xsd.xsd_valid vs libxml2 on what the real writer produced and on mutated XML"""
    def text(chunk):
        return HEADER + "Definition cases : list xcase := %s.\n" % coq_list(
            ["\n {| xc_type := %s; xc_xml := %s; xc_valid := %s |}" % (coq_str(t), gdsgen.cxml(x), "true" if v else "false")
             for t, x, v, _ in chunk]) + "Eval vm_compute in (xmismatches Gen_Schema.S 60 0 cases).\n"

    def bad(item):
        t, x, v, info = item
        ck.disagree("Xsd.xsd_valid", {"type": t, "xml": x, "info": info}, "model says %s" % (not v), "libxml2 says %s" % v)
    eval_shards(ck, "Cases_C02_xsd", xcases, text, bad, 60)
    ck.extra["xsd_correspondence_cases"] = len(xcases)


def conforms_correspondence(ck, ccases):
    """Xsd.conformsb on the trees the generators built: true on the conforming ones, false on the violated ones"""
    def text(chunk):
        return HEADER + "Definition cases : list ccase := %s.\n" % coq_list(
            ["\n {| cc_obj := %s; cc_conforms := %s |}" % (gdsgen.cobj(o), "true" if v else "false") for o, v, _ in chunk]) + \
            "Eval vm_compute in (cmismatches Gen_Bindings.T Gen_Schema.S 60 0 cases).\n"

    def bad(item):
        o, v, info = item
        ck.disagree("Xsd.conformsb", {"obj": o, "info": info}, "model says %s" % (not v), "generator built it as %s" % v)
    eval_shards(ck, "Cases_C02_conf", ccases, text, bad, 60)
    ck.extra["conforms_correspondence_cases"] = len(ccases)


def inst_text(expected_bad):
    return ("From Coq Require Import String List ZArith Bool.\n"
            "From LNML Require Import Lib.Dec Lib.Regex Model.Gds Model.GdsExec Model.Validate Model.Xsd.\n"
            "From Run Require Import Gen_Bindings Gen_Validate Gen_Schema.\nImport ListNotations.\nOpen Scope string_scope.\n\n"
            "Lemma agree_val_ok : agree_val Gen_Validate.V Gen_Bindings.T Gen_Schema.S = true.\n"
            "Proof. vm_compute. reflexivity. Qed.\n\n"
            "(* the classes whose export cannot be shown schema-valid from the tables: exactly those whose content model\n"
            "   needs an interleaving of members (a repeated choice holding a sequence) *)\n"
            "Lemma agree_exp_exceptions : disagree_exp Gen_Bindings.T Gen_Schema.S = %s.\n"
            "Proof. vm_compute. reflexivity. Qed.\n\n"
            "Definition w_order : obj dec := %s.\n"
            "(* the faithful model on the tables of this run: the tree conforms, validate accepts it, the exported element\n"
            "   is not schema-valid *)\n"
            "Lemma refuted_order : exists (o : obj dec) (x : xml),\n"
            "  x_conformsb 10 Gen_Bindings.T Gen_Schema.S o = true /\\\n"
            "  x_validate Gen_Validate.V o true = [] /\\\n"
            "  x_export 10 Gen_Bindings.T \"gateKS\" o = Some x /\\ x_xsd_valid 10 Gen_Schema.S (o_cls dec o) x = false.\n"
            "Proof. eexists w_order, _. split; [vm_compute; reflexivity|]. split; [vm_compute; reflexivity|].\n"
            "  split; [vm_compute; reflexivity | vm_compute; reflexivity]. Qed.\n" % (
                coq_list([coq_str(c) for c in expected_bad]), c03.kw_obj(full_fields(W_ORDER["tree"]))))


_ORDER = {}


def full_fields(t):
    """keyword tree with every field of the class present (export needs them all), in constructor field order"""
    kw = dict((k, v) for k, v in t["kw"])
    out = []
    for name in _ORDER[t["cls"]]:
        v = kw.get(name)
        if v is not None and "o" in v:
            v = {"o": full_fields(v["o"])}
        elif v is not None and "l" in v:
            v = {"l": [full_fields(x) for x in v["l"]]}
        elif v is None and name == "anytypeobjs_":
            v = {"raw": []}
        elif v is None and name in _LISTS.get(t["cls"], ()):
            v = {"l": []}
        out.append([name, v])
    return {"cls": t["cls"], "kw": out}


_LISTS = {}


def wellformed_part(ck):
    d = escape_check.translate(ck)
    ok = False
    if d is not None:
        ok, out = ck.coqc(ck.gen_v("Gen_Escape.v", d["coq"]))
        ck.oblige("Gen_Escape.v:compiles", ok, out[-1500:], kind="translate")
    held = escape_check.instances(ck, "Inst_Escape.v", escape_check.INST_TABLES) if ok else []
    if len(held) == len(escape_check.INST_TABLES):
        ck.compile_props("C02_wellformed.v")
    elif ok:
        escape_check.props_split(ck, "C02_wellformed.v")
    else:
        for nm in ("C02_wellformed_attribute", "C02_wellformed_text"):
            ck.oblige("Props_C02_wellformed.v:" + nm, False, "the escaping functions of nml.py could not be translated", kind="theorem")


def free_string_members(L, c):
    """(python member, is_attribute) of the members of type c that take any xs:string"""
    out = []
    for a in L.all_attrs(c):
        st = L.st[a["st"]]
        if st["prim"] == "string" and not st["enums"] and not st["patterns"] and a["fixed"] is None:
            out.append((a["py"], True))
    for e in L.all_elems(c):
        if e["type"] in L.st and L.st[e["type"]]["prim"] == "string" and not L.st[e["type"]]["patterns"]:
            out.append((e["py"], False))
    return out


def special_character_cases(L, G, rng, n_random):
    """well-formedness: every special string in an attribute and in a text child of fixed hosts (component alone and
    inside a whole document), then random hosts"""
    cases = []
    root = L.S["root"][1]

    def host(c, member, text, label):
        t = G.tree(c, 0, force={"include": 0} if c == root else None)
        t["kw"] = [kv for kv in t["kw"] if kv[0] != member] + [[member, {"s": text}]]
        cases.append({"tree": t, "tag": "probe_" + c, "doc": False, "type": c, "role": "special:" + label, "depth": 0})
        steps = G.steps_to_document(c)
        if steps is not None and c != root:
            d, path = G.embed(t, steps)
            cases.append({"tree": d, "tag": "neuroml", "doc": True, "type": c, "role": "special-in-document:" + label, "depth": len(path)})
    hosts = [(c, m, isattr) for c in L.T.order for m, isattr in free_string_members(L, c)]
    fixed = [h for h in hosts if (h[0], h[1]) in (("Property", "value"), ("Property", "tag"), ("NeuroMLDocument", "notes"),
                                                  ("Cell", "notes"))]
    for i, text in enumerate(schemagen.SPECIAL_STRINGS):
        for c, m, isattr in fixed[:2] + fixed[2 + i % 2:3 + i % 2]:
            host(c, m, text, "attribute" if isattr else "text")
    for _ in range(n_random):
        c, m, isattr = rng.choice(hosts)
        host(c, m, rng.choice(schemagen.SPECIAL_STRINGS) + "".join(rng.choice(schemagen.SPECIAL_CHARS + "ab ") for _ in range(rng.randrange(0, 6))),
             "attribute" if isattr else "text")
    return cases


def judge_entry_points(ck, cs, r, inp):
    """the written XML of a document, through every public writing path"""
    if "file_err" in r:
        ck.witness("C02:document:writing-to-a-path-raises", "NeuroMLWriter.write(doc, <path>) raises on a conforming document: " + r["file_err"],
                   input=inp, observed=r["file_err"])
        return
    if "entry_mismatch" not in r:
        return
    ck.tally("writer-entry-points-compared")
    if not r["path_lx"]["wellformed"] or (r["lx"]["valid"] and not r["path_lx"]["valid"]):
        ck.witness("C02:writer-entry-point:path", "the file NeuroMLWriter.write(doc, <path>) leaves for a conforming document is not %s: %s" % (
            "well-formed" if not r["path_lx"]["wellformed"] else "schema-valid", r["path_lx"]["err"]), input=inp, observed=r["path_lx"])
    for which, what in r["entry_mismatch"]:
        ck.witness("C02:writer-entry-point:" + which.split(",")[0].replace(" ", "-"),
                   "a conforming document written through NeuroMLWriter.write with an %s does not give the XML written through a path: %s" % (
                       which, what) if which.startswith("open") else
                   "a conforming document written through %s does not give the XML written through a path: %s" % (which, what),
                   input=inp, expected="the same bytes as NeuroMLWriter.write(doc, <path>)", observed=what)


def judge_prefixed(ck, cs, r, inp):
    """build mode loaded-from-prefixed-text: the tree obtained by loading the document's own XML rewritten with namespace
    prefixes conforms like the original: validate accepts it, the writer's output for it is well-formed and valid"""
    for v in r.get("prefixed", []):
        ck.tally("loaded-from-prefixed-text:" + v["variant"].split(" ")[0])
        if v.get("input_lx", {}).get("valid") is not True:
            ck.tally("loaded-from-prefixed-text:skipped:rewritten-text-not-valid")
            continue
        ck.count(1, nontrivial_key=("prefixed", v["variant"], json.dumps(r["obj"], sort_keys=True)))
        winp = dict(inp, build="loaded-from-prefixed-text", variant=v["variant"])
        if "err" in v:
            ck.witness("C02:loaded-from-prefixed-text:raises", "a conforming document, its XML rewritten with %s (libxml2: valid) and loaded "
                       "with %s: %s" % (v["variant"], v.get("loader"), v["err"]), input=winp, observed=v["err"])
            continue
        if not v["same_tree"]:
            ck.tally("loaded-from-prefixed-text:loads-to-another-tree (C01's subject)")
        if v["rec"]["raised"] is not None:
            ck.witness("C02:loaded-from-prefixed-text:validate-rejects", "validate(recursive=True) raises %s on the tree loaded (%s) from the "
                       "valid XML of a conforming document rewritten with %s: %s" % (v["rec"]["raised"], v["loader"], v["variant"],
                                                                                   (v["rec"].get("text") or "")[:300]), input=winp)
        if not v["lx"]["valid"]:
            ck.witness("C02:loaded-from-prefixed-text:written-xml-not-%s" % ("wellformed" if not v["lx"]["wellformed"] else "valid"),
                       "the tree loaded (%s) from the valid XML of a conforming document rewritten with %s passes validate(recursive=True) "
                       "(%s) but NeuroMLWriter writes XML that is not %s: %s" % (
                           v["loader"], v["variant"], v["rec"]["raised"] or "accepted", "well-formed" if not v["lx"]["wellformed"] else "schema-valid",
                           v["lx"]["err"]), input=winp, expected="well-formed, schema-valid XML", observed=(v.get("written") or "")[:600])


# ----------------------------------------------------------------------------- the public factory paths
FACTORY_MODES = ("utils-factory-str", "utils-factory-class", "class-factory", "parent-add", "shared-objects")


def duplicate_children(tree):
    """in place: in every list of >= 2 children the second becomes an equal copy of the first (same cardinalities);
    returns how many lists were changed"""
    n = 0
    for node in c03.all_nodes(tree):
        for kv in node["kw"]:
            v = kv[1]
            if v and "l" in v and len(v["l"]) >= 2 and v["l"][0] != v["l"][1]:
                v["l"][1] = json.loads(json.dumps(v["l"][0]))
                n += 1
    return n


def falsify(L, tree):
    """replace, in place, every leaf that may legally be falsy by its falsy value: integer 0, float 0.0, the empty
    string; returns how many leaves were replaced"""
    n = 0
    for node in c03.all_nodes(tree):
        if node["cls"] not in L.ct:
            continue
        attrs = {a["py"]: a for a in L.all_attrs(node["cls"])}
        for kv in node["kw"]:
            a = attrs.get(kv[0])
            if a is None or kv[1] is None or a["fixed"] is not None:
                continue
            st = L.st[a["st"]]
            if st["enums"]:
                continue
            if st["prim"] == "nonNegativeInteger":
                kv[1] = {"i": 0}
                n += 1
            elif st["prim"] in ("float", "double"):
                ok = True
                for k, v in st["facets"]:
                    x = float(v)
                    ok = ok and {"minInclusive": 0.0 >= x, "minExclusive": 0.0 > x, "maxInclusive": 0.0 <= x, "maxExclusive": 0.0 < x}[k]
                if ok:
                    kv[1] = {"f": "0.0"}
                    n += 1
            elif st["prim"] in ("string", "anyURI") and not st["patterns"] and a["py"] != "id":
                kv[1] = {"s": ""}
                n += 1
    return n


def share_across(tree):
    """in place: for every class that occurs at two or more positions under DIFFERENT parents, the later occurrences
    become equal copies of the first (cousins, or a child of an ancestor and of its descendant); returns the number of
    replaced nodes"""
    first, n = {}, 0

    def walk(node, top):
        nonlocal n
        for kv in node["kw"]:
            v = kv[1]
            if not v or not ("o" in v or "l" in v):
                continue
            kids = v["l"] if "l" in v else [v["o"]]
            for i, k in enumerate(kids):
                if k["cls"] in first and first[k["cls"]][0] is not node and first[k["cls"]][1] != k:
                    k = json.loads(json.dumps(first[k["cls"]][1]))
                    if "l" in v:
                        v["l"][i] = k
                    else:
                        v["o"] = k
                    n += 1
                    continue            # (its subtree is the copy's)
                first.setdefault(k["cls"], (node, k))
                walk(k, False)
    walk(tree, True)
    return n


def factory_part(ck, L, G, order, per_type):
    """conforming trees built through the public factory paths are the trees the constructors build (and validate, and
    are written as the same XML): legal falsy values - 0, 0.0, "" - included deterministically"""
    rng = ck.rng
    root = L.S["root"][1]
    P = lambda **kw: c03.T_("Point3DWithDiam", **{k: {"f": repr(v)} for k, v in kw.items()})  # noqa
    fixed = [
        ("segment 0 at the origin", c03.T_("Segment", id={"i": 0}, name=s_("soma"), proximal={"o": P(x=0.0, y=0.0, z=0.0, diameter=10.0)},
                                          distal={"o": P(x=0.0, y=0.0, z=0.0, diameter=10.0)})),
        ("point at the origin", P(x=0.0, y=0.0, z=0.0, diameter=10.0)),
        ("instance 0 at the origin", c03.T_("Instance", id={"i": 0}, i={"i": 0}, j={"i": 0}, k={"i": 0},
                                           location={"o": c03.T_("Location", x={"f": "0.0"}, y={"f": "0.0"}, z={"f": "0.0"})})),
        ("empty population", c03.T_("Population", id=s_("p"), component=s_("c"), size={"i": 0})),
        ("connection between cells 0", c03.T_("ConnectionWD", id={"i": 0}, pre_cell_id=s_("../p/0/c"), post_cell_id=s_("../p/0/c"),
                                              pre_segment_id={"i": 0}, post_segment_id={"i": 0}, pre_fraction_along={"f": "0.0"},
                                              post_fraction_along={"f": "0.0"}, weight={"f": "0.0"}, delay=s_("0ms"))),
        ("property with empty value", c03.T_("Property", tag=s_(""), value=s_(""))),
        ("segment parent 0", c03.T_("SegmentParent", segments={"i": 0}, fraction_along={"f": "0.0"}))]
    # DAG shapes (built as shared objects: equal subtrees are one object): one point as the distal of the soma and the
    # proximal of the dendrite (cousins); one Property in the lists of two components (cousins) and of a network and its
    # population (child of an ancestor and of its descendant); the same object twice in one list
    p0, p1, p2 = P(x=0.0, y=0.0, z=0.0, diameter=10.0), P(x=10.0, y=0.0, z=0.0, diameter=10.0), P(x=20.0, y=0.0, z=0.0, diameter=2.0)
    prop = c03.T_("Property", tag=s_("colour"), value=s_("0.5 0.5 0.5"))
    cp = lambda x: json.loads(json.dumps(x))  # noqa
    fixed += [
        ("dag: one point shared by two segments", c03.T_("Morphology", id=s_("m"), segments={"l": [
            c03.T_("Segment", id={"i": 0}, name=s_("soma"), proximal={"o": cp(p0)}, distal={"o": cp(p1)}),
            c03.T_("Segment", id={"i": 1}, name=s_("dend"), parent={"o": c03.T_("SegmentParent", segments={"i": 0})},
                   proximal={"o": cp(p1)}, distal={"o": cp(p2)})]})),
        ("dag: one property in two components", c03.T_("NeuroMLDocument", id=s_("d"), iaf_cells={"l": [
            c03.T_("IafCell", id=s_("iaf"), properties={"l": [cp(prop)]}, **c03.IAF)]}, pulse_generators={"l": [
                c03.T_("PulseGenerator", id=s_("pg"), delay=s_("10ms"), duration=s_("50ms"), amplitude=s_("0.2nA"), properties={"l": [cp(prop)]})]})),
        ("dag: one property in a network and in its population", c03.T_("Network", id=s_("net"), properties={"l": [cp(prop)]}, populations={"l": [
            c03.T_("Population", id=s_("p"), component=s_("c"), size={"i": 1}, properties={"l": [cp(prop)]})]})),
        ("dag: the same property twice in one list", c03.T_("Population", id=s_("p"), component=s_("c"), size={"i": 1},
                                                            properties={"l": [cp(prop), cp(prop)]}))]
    base = [{"tree": t, "tag": "probe_" + t["cls"], "doc": False, "type": t["cls"], "role": "factory-fixed:" + label, "falsy": -1}
            for label, t in fixed if t["cls"] in L.ct]
    for c in L.T.order:
        for j in range(per_type):
            t = G.tree(c, 1 if j == 0 else 2, rich=True, force={"include": 0} if c == root else None)
            nf = falsify(L, t) if j % 2 == 0 else 0
            base.append({"tree": t, "tag": "probe_" + c, "doc": False, "type": c, "role": "factory:" + ("falsy-values" if nf else "random-values"), "falsy": nf})
    # the same child at two positions: equal siblings (and, built as shared objects, one object held twice)
    for b in list(base):
        t = json.loads(json.dumps(b["tree"]))
        if b["role"].startswith("factory:") and duplicate_children(t):
            base.append(dict(b, tree=t, role="factory:equal-siblings"))
        t = json.loads(json.dumps(b["tree"]))
        if b["role"].startswith("factory:") and share_across(t):
            base.append(dict(b, tree=t, role="factory:equal-cousins"))
    cases = []
    for b in base:
        for m in ("ctor",) + FACTORY_MODES:
            cases.append(dict(b, build=m))
    res = []
    for i in range(0, len(cases), 1000):
        res += ck.impl("c02_impl.py", {"order": order, "cases": cases[i:i + 1000], "want": ["rec", "text"]}, timeout=2400)["results"]
    k = 1 + len(FACTORY_MODES)
    refs = {}
    for i in range(0, len(cases), k):
        ref = res[i]
        cs = cases[i]
        if "obj_err" in ref or "text_err" in ref or ref.get("rec", {}).get("raised") is not None or not ref.get("lx", {}).get("valid"):
            ck.tally("factory:skipped:constructor-built-tree-not-accepted")     # (the main part reports those)
            continue
        refs[i // k] = ref
        ck.tally("factory:" + cs["role"].split(":")[1] if cs["role"].startswith("factory:") else "factory:fixed")
        for j, m in enumerate(FACTORY_MODES):
            r = res[i + 1 + j]
            ck.tally("factory-path:" + m)
            ck.count(1, nontrivial_key=("factory", m, json.dumps(ref["obj"], sort_keys=True)) if cs["falsy"] else None)
            inp = {"tree": cs["tree"], "tag": cs["tag"], "doc": False, "type": cs["type"], "role": cs["role"], "build": m}
            if m == "shared-objects":
                if "obj_err" in r or r.get("obj") != ref["obj"] or r.get("rec", {}).get("raised") is not None or r.get("text") != ref.get("text"):
                    ck.witness("C02:tree-holding-one-child-object-at-two-positions-treated-differently",
                               "a conforming %s in which equal subtrees are one and the same python object (held at two positions; "
                               "built from distinct equal objects it passes validate and is written as valid XML): %s" % (
                                   cs["type"], r.get("obj_err") or ("validate(recursive=True) raises %s: %s" % (
                                       r["rec"]["raised"], (r["rec"].get("text") or "")[:200]) if r.get("rec", {}).get("raised") else
                                       "the XML differs" if r.get("text") != ref.get("text") else tree_diff(ref["obj"], r["obj"]))),
                               input=inp, expected="as for distinct equal objects")
                continue
            if "obj_err" in r:
                ck.witness("C02:factory-path-rejects-conforming-values:" + m,
                           "building a conforming %s (the constructor-built tree passes validate and is written as valid XML) through %s raises %s" % (
                               cs["type"], m, r["obj_err"]), input=inp, expected="the tree the constructors build", observed=r["obj_err"])
            elif r["obj"] != ref["obj"]:
                diff = tree_diff(ref["obj"], r["obj"])
                ck.witness("C02:factory-path-builds-another-tree:" + m,
                           "a conforming %s built through %s is not the tree the constructors build from the same values: %s; validate: %s; "
                           "libxml2 on its XML: %s" % (cs["type"], m, diff, r.get("rec", {}).get("raised"), r.get("lx", {}).get("err")),
                           input=inp, expected="the tree the constructors build", observed=diff)
            elif r.get("rec", {}).get("raised") is not None or r.get("text") != ref.get("text"):
                ck.witness("C02:factory-path-tree-behaves-differently:" + m,
                           "a conforming %s built through %s dumps like the constructor-built tree but validate says %s / the XML %s" % (
                               cs["type"], m, r.get("rec", {}).get("raised"), "is the same" if r.get("text") == ref.get("text") else "differs"),
                           input=inp)
    children_forms_part(ck, order, base, refs)


CHILD_FORMS = ("tuple", "generator", "iter", "map", "numpy-object-array")


def children_forms_part(ck, order, base, refs):
    """list-valued members handed over as a tuple / generator / iter(list) / map / numpy object array (the constructors
    keep them as given): the conforming tree passes validate(recursive=True), is written as the XML of the list-built
    tree, and validating first does not change what is written (one-shot iterables must not be consumed)"""
    sel = [(b, refs[i]) for i, b in enumerate(base) if i in refs and
           any(kv[1] and "l" in kv[1] and kv[1]["l"] for n in c03.all_nodes(b["tree"]) for kv in n["kw"])]
    cases = []
    for b, _ in sel:
        for f in CHILD_FORMS:
            cases.append(dict(b, build="children-as:" + f, want=["text"]))
            cases.append(dict(b, build="children-as:" + f, want=["rec", "text"]))
    res = []
    for i in range(0, len(cases), 1500):
        res += ck.impl("c02_impl.py", {"order": order, "cases": cases[i:i + 1500], "want": ["rec", "text"]}, timeout=2400)["results"]
    i = 0
    for b, ref in sel:
        for f in CHILD_FORMS:
            w, v = res[i], res[i + 1]
            i += 2
            ck.tally("children-as:" + f)
            inp = {"tree": b["tree"], "tag": b["tag"], "doc": False, "type": b["type"], "role": b["role"], "build": "children-as:" + f}
            if w.get("text") != ref.get("text"):
                ck.tally("children-as:skipped:%s-not-written-like-a-list" % f)       # the form itself is not supported by the writer
                continue
            ck.count(1, nontrivial_key=("children-as", f, json.dumps(ref["obj"], sort_keys=True)))
            if "obj_err" in v or v.get("rec", {}).get("raised") is not None:
                ck.witness("C02:children-held-in-%s:validate-rejects" % f,
                           "a conforming %s whose list-valued members are handed over as %s (written like the list-built tree without "
                           "validate): validate(recursive=True) raises %s" % (b["type"], f, v.get("obj_err") or v["rec"].get("text", "")[:300]), input=inp)
            elif v.get("text") != ref.get("text"):
                ck.witness("C02:children-held-in-%s:validate-changes-what-is-written" % f,
                           "a conforming %s whose list-valued members are handed over as %s passes validate(recursive=True), but after "
                           "validating the writer emits other XML than without validating first (%d characters instead of %d; libxml2: %s): %s" % (
                               b["type"], f, len(v.get("text") or ""), len(ref.get("text") or ""),
                               (v.get("lx") or {}).get("err") or "valid", (v.get("text") or v.get("text_err") or "")[:300]),
                           input=inp, expected=(ref.get("text") or "")[:400], observed=(v.get("text") or "")[:400])


def tree_diff(a, b, where=""):
    """first difference of two dumped trees, as text"""
    if a["cls"] != b["cls"]:
        return "%s: class %s vs %s" % (where or "/", a["cls"], b["cls"])
    for (n, x), (_, y) in zip(a["fields"], b["fields"]):
        if x == y:
            continue
        w = "%s/%s.%s" % (where, a["cls"], n)
        if x and y and "o" in x and "o" in y:
            return tree_diff(x["o"], y["o"], w)
        if x and y and "l" in x and "l" in y and len(x["l"]) == len(y["l"]):
            for i, (p, q) in enumerate(zip(x["l"], y["l"])):
                if p != q:
                    return tree_diff(p, q, "%s[%d]" % (w, i))
        return "%s: %s vs %s" % (w, json.dumps(x)[:80], json.dumps(y)[:80])
    return "?"


def writer_history_part(ck, L, G, n_docs):
    """the writer's output for a document is a function of the document: writes in one process, failing writes in between"""
    rng = ck.rng
    root = L.S["root"][1]
    docs = [c03.W_INHERITED["tree"] and c03.T_("NeuroMLDocument", id=c03.s_("doc0"),
                                              iaf_cells={"l": [c03.T_("IafCell", id=c03.s_("iaf"), **c03.IAF)]})]
    types = [c for c in L.T.order if G.steps_to_document(c)]
    # documents that hold nested components (a failing child export needs a child with children)
    for c in ["Cell", "Network", "IonChannel"] + [rng.choice(types) for _ in range(n_docs)]:
        t, _ = G.embed(G.tree(c, 2, rich=True), G.steps_to_document(c))
        docs.append(t)
    ct = rng.choice(types)
    comps = [{"tree": G.tree("IafCell", 0), "tag": "probe_IafCell"}, {"tree": G.tree(ct, 2, rich=True), "tag": "probe_" + ct}]
    r = ck.impl("c02_impl.py", {"mode": "writehistory", "docs": docs, "components": comps}, timeout=1200)
    if "err" in r:
        ck.oblige("writer-history:runs", False, r["err"], kind="harness")
        return
    nfail = 0
    calls = []
    for i, op in enumerate(r["ops"]):
        calls.append("%s(%d)%s" % (op["op"], op["index"], "" if op["raised"] is None else " -> " + op["raised"]))
        ck.tally("writer-history:" + op["op"].split(":")[0])
        if op["op"].startswith("failing"):
            nfail += op["raised"] is not None
            continue
        fresh = (r["fresh_docs"] if op["op"] == "write" else r["fresh_comps"])[op["index"]]
        ck.count(1, nontrivial_key=("writer-history", i, json.dumps((docs if op["op"] == "write" else comps)[op["index"]], sort_keys=True)[:2000]))
        inp = {"calls_in_one_process": calls[:], "document" if op["op"] == "write" else "component":
               (docs if op["op"] == "write" else comps)[op["index"]], "writer_history": {"docs": docs, "components": comps}}
        if op["raised"] is not None:
            ck.witness("C02:writer-raises-after-history", "%s of a conforming tree raises %s as call #%d of one process" % (
                op["op"], op["raised"], i + 1), input=inp, observed=op["raised"])
        elif "text" not in fresh:
            ck.oblige("writer-history:fresh-process-reference", False, str(fresh), kind="harness")
        elif op["text"] != fresh["text"] or not op["lx"]["wellformed"] or not (op["lx"]["valid"] or "GateKS" in op["text"] or "gateKS" in op["text"]):
            k = next((j for j, (a, b) in enumerate(zip(op["text"], fresh["text"])) if a != b), min(len(op["text"]), len(fresh["text"])))
            ck.witness("C02:writer-output-depends-on-history",
                       "call #%d of one process, %s of a conforming %s, produces other bytes than a fresh process (first difference at "
                       "offset %d: %r vs %r); well-formed: %s, libxml2: %s; calls before it: %s" % (
                           i + 1, op["op"], "document" if op["op"] == "write" else "component", k, op["text"][k:k + 60],
                           fresh["text"][k:k + 60], op["lx"]["wellformed"], op["lx"]["valid"], "; ".join(calls[:-1])),
                       input=inp, expected=fresh["text"][:300], observed=op["text"][:300])
    ck.extra["writer_history_failing_writes_that_raised"] = nfail
    ck.oblige("writer-history:failure-injection-effective", nfail >= 3, "only %d of the injected failures raised" % nfail, kind="harness")


def history_part(ck, L, G, order, n):
    """validate() is a function of the tree: the same objects validated twice, violated, restored"""
    rng = ck.rng
    cases = [{"tree": c03.T_("NeuroMLDocument", id=c03.s_("doc"),
                             iaf_cells={"l": [c03.T_("IafCell", id=c03.s_("iaf"), **c03.IAF)]},
                             pulse_generators={"l": [c03.T_("PulseGenerator", id=c03.s_("pg"), delay=c03.s_("10ms"),
                                                            duration=c03.s_("50ms"), amplitude=c03.s_("0.2nA"))]}),
              "tag": "neuroml", "path": [["iaf_cells", 0]], "member": "thresh", "bad": c03.s_("-50"), "type": "IafCell", "facet": "pattern", "depth": 1}]
    tr = [t for t in c03.triples(L, G) if t[4][0] in ("drop", "set") and t[2] not in ("integer-range", "fixed")]
    rng.shuffle(tr)
    for (c, member, facet, inh, op) in tr[:n]:
        d = rng.choice([0, 1, 2])
        steps = G.parent_steps(c, d) if d else []
        if steps is None:
            steps, d = [], 0
        t = G.tree(c, 0)
        if not any(kv[0] == member for kv in t["kw"]):
            continue       # an optional member that is absent: nothing to restore to
        root, path = G.embed(t, steps)
        cases.append({"tree": root, "tag": "probe_" + root["cls"], "path": path, "member": member,
                      "bad": None if op[0] == "drop" else op[1], "type": c, "facet": facet, "depth": d})
    out = ck.impl("c02_impl.py", {"mode": "history", "order": order, "cases": cases}, timeout=1200)
    corr_cases, corr_res = [], []
    for cs, r in zip(cases, out["results"]):
        ck.tally("history")
        if "err" in r:
            ck.tally("history:skipped:" + r["err"].split(":")[0])
            continue
        by = {s["label"]: s for s in r["steps"]}
        ck.count(1, nontrivial_key=("history", cs["type"], cs["member"], cs["facet"], cs["depth"]))
        inp = {k: cs[k] for k in ("tree", "tag", "path", "member", "bad", "type", "facet", "depth")}
        inp["sequence"] = "validate; validate; set member := bad; validate; restore member; validate; validate"
        problems = []
        if by["fresh"]["rec"]["raised"] is None and by["again"]["rec"]["raised"] is not None:
            problems.append("the second validate() of an unchanged conforming tree raises")
        if by["violated"]["rec"]["raised"] == "ValueError" or by["violated"]["node_nonrec"]["raised"] == "ValueError":
            for lab in ("restored", "restored-again"):
                for k in ("rec", "nonrec", "node_nonrec"):
                    if by[lab][k]["raised"] is not None and r["rebuilt"]["rec"]["raised"] is None:
                        problems.append("after the value is restored, validate (%s, step %s) still raises: %s" % (
                            k, lab, (by[lab][k].get("text") or "")[:200]))
        if by["restored"]["obj"] != r["rebuilt"]["obj"]:
            ck.tally("history:restored-tree-differs-from-rebuilt")
        if problems:
            ck.witness("C02:validate-depends-on-history",
                       "validate() is not a function of the tree: " + problems[0] + " (a freshly built equal tree validates; "
                       "libxml2 on the written XML: %s)" % ("valid" if r.get("lx", {}).get("valid") else r.get("lx")),
                       input=inp, expected="no exception", observed=problems[:4])
        for s in r["steps"]:
            corr_cases.append(dict(cs, step=s["label"]))
            corr_res.append({"obj": s["obj"], "rec": s["rec"], "nonrec": s["nonrec"]})
    a = out.get("add", {})
    ck.extra["add_history"] = a
    if a and (a.get("bad_add") != "ValueError" or a.get("good_add") != "accepted" or a.get("cells_after_bad_add") != 0
              or a.get("doc", {}).get("raised") is not None or a.get("doc_again", {}).get("raised") is not None):
        ck.witness("C02:add-then-validate-history", "add(..., validate=True) failing and then succeeding leaves a parent that "
                   "does not validate (or the failed add left its component behind): %s" % json.dumps(a)[:400], input=a)
    # the model is a pure function of the tree: every step is a correspondence case
    c03.correspondence(ck, corr_cases, corr_res, label="Cases_C02_history")


# ----------------------------------------------------------------------------- generators
def conforming_cases(ck, L, G, per_type, embed_per_type, n_docs):
    rng = ck.rng
    cases = []
    root = L.S["root"][1]
    for c in L.T.order:
        for j in range(per_type):
            t = G.tree(c, rng.choice([1, 2, 2, 3]) if j else 2, rich=(j == 0), force={"include": 0} if c == root else None)
            cases.append({"tree": t, "tag": "probe_" + c, "doc": c == root, "type": c, "role": "root", "depth": 0})
        for j in range(embed_per_type):
            d = rng.choice([1, 2, 3])
            steps = G.parent_steps(c, d)
            if steps is None:
                continue
            t, path = G.embed(G.tree(c, 1, rich=(j == 0)), steps)
            cases.append({"tree": t, "tag": "probe_" + t["cls"], "doc": t["cls"] == root, "type": c, "role": "descendant", "depth": d})
    # every enumeration value
    for c in L.T.order:
        for a in L.own_attrs(c):
            st = L.st[a["st"]]
            for v in st["enums"]:
                t = G.tree(c, 0)
                t["kw"] = [kv for kv in t["kw"] if kv[0] != a["py"]] + \
                    [[a["py"], {"s": v} if st["prim"] in ("string", "anyURI") else {"f": repr(float(v))}]]
                cases.append({"tree": t, "tag": "probe_" + c, "doc": False, "type": c, "role": "enum:" + a["xml"] + "=" + v, "depth": 0})
    # whole documents holding a component of a random type
    types = [c for c in L.T.order if G.steps_to_document(c) is not None]
    for j in range(n_docs):
        c = rng.choice(types)
        t, path = G.embed(G.tree(c, 2, rich=(j % 3 == 0)), G.steps_to_document(c))
        cases.append({"tree": t, "tag": "neuroml", "doc": True, "type": c, "role": "in-document", "depth": len(path)})
    # (no <include>: is_valid_neuroml2 would try to read the included files)
    cases.append({"tree": G.tree(root, 2, rich=True, force={"include": 0}), "tag": "neuroml", "doc": True, "type": root,
                  "role": "root", "depth": 0})
    return cases


MUTS = ["attr-renamed", "attr-value", "kids-swapped", "kid-dropped", "kid-duplicated"]


def uses_pairs(t):
    return any(n["cls"] == "GateKS" and any(k == "forward_transition" and v and len(v.get("l", [])) >= 2 for k, v in n["kw"])
               for n in c03.all_nodes(t))


def run(ck):
    ck.rule = ("schema-driven generator of conforming trees: every complex type as root (all members populated / minimal / "
               "random) and as descendant below random parent chains and inside whole documents, every enumeration value, "
               "pattern samples from a regex sampler, min/max cardinalities, one alternative per choice; on the REAL code: "
               "validate(recursive=True) must not raise and the written XML (component.export with the writer's namespace "
               "definitions, NeuroMLWriter for documents) must be valid for libxml2 against the bundled XSD; "
               "non-trivial = a tree with at least 3 populated members, distinct by dumped tree")
    ck.trusted = ["Coq 8.16.1 kernel + vm_compute", "translators/tr_bindings.py, translators/tr_schema.py (fail closed)",
                  "libxml2 (lxml.etree.XMLSchema) as the reference XSD validator; Model/Xsd.v is compared with it every run",
                  "CPython float formatting ('%.15f' rstrip / '%s') and float(): Section hypotheses of the attribute lemma",
                  "lxml text -> infoset"]
    ck.assumptions = ["strings are printable ASCII (TAB, LF, CR, U+0020..U+007E); floats finite",
                      "a single component is serialised with component.export(f, 0, name_=<element name>, "
                      "namespacedef_=<the namespace definitions NeuroMLWriter uses>)"]
    ck.gate_static()
    tab = bindings.translate(ck)
    if tab is None:
        return
    schemagen.runtime_tie(ck, tab)
    mode = schemagen.validate_mode(ck)
    S = schemagen.translate_schema(ck)
    if S is None:
        return
    if not (schemagen.gen_validate(ck, tab, mode) and schemagen.gen_schema(ck, S) and bindings.gen_bindings(ck, tab)):
        return
    T = bindings.Tables(tab)
    L = schemagen.Link(S, T)
    ck.oblige("link:schema-items-have-binding-members", not L.problems, "; ".join(L.problems[:10]), kind="instance")
    G = schemagen.SchemaGen(L, ck.rng)
    order = {c: T.field_order(c) for c in T.order}
    _ORDER.update(order)
    for c in T.order:
        _LISTS[c] = set()
        for k in T.chain(c):
            for a in T.C[k].get("init_assign", []):
                if a["cast"] == "list":
                    _LISTS[c].add(a["member"])
    # ---- the writer's schemaLocation names the bundled schema of the current version
    ck.oblige("schema:bundled-file-is-current-version", S["file"].endswith("NeuroML_%s.xsd" % S["version"]), S["file"], kind="instance")
    wi = ck.impl("c02_impl.py", {"mode": "writerinfo"}, timeout=300)
    ck.oblige("writer:root-element-and-schemaLocation-match-the-schema",
              wi["root_name"] == S["root"][0] and ("NeuroML_%s.xsd" % S["version"]) in wi["namespacedef"]
              and ('xmlns="%s"' % S["target_ns"]) in wi["namespacedef"] and wi["version"] == S["version"], json.dumps(wi), kind="instance")
    # ---- stored witness of the known finding first
    stored = [dict(w, key=k, what=what) for k, w, what in STORED]
    sres = ck.impl("c02_impl.py", {"order": order, "cases": stored, "want": ["rec", "text", "xml"]}, timeout=600)["results"]
    for w, r in zip(stored, sres):
        ck.tally("stored-witness")
        ck.count(1, nontrivial_key=("stored", w["key"]))
        if r.get("rec", {}).get("raised") is None and r.get("lx", {}).get("valid") is False:
            ck.witness(w["key"], w["what"], input={k: w[k] for k in ("tree", "tag")}, expected="schema-valid XML",
                       observed=r["lx"]["err"])
        ck.extra.setdefault("stored_witness_outcomes", {})[w["key"]] = {
            "validate_raised": r.get("rec", {}).get("raised"), "libxml2_valid": r.get("lx", {}).get("valid")}
    # ---- instance obligations, theorems
    inst = ck.gen_v("Inst_C02.v", inst_text(["GateKS"]))
    iok, _ = ck.compile_obligations(inst, kind="instance")
    if iok:
        ck.compile_props()
    else:
        ck.oblige("Props_C02.v", False, "instance obligations failed", kind="theorem")
    # ---- C02_wellformed: the escaping functions of nml.py are the reference ones (tables regenerated by tr_escape,
    # instance obligations and round-trip theorems shared with C01)
    wellformed_part(ck)
    # ---- the float-formatting hypotheses of C02_valid, exercised with the real formatters
    ff = ck.impl("c02_impl.py", {"mode": "floatfuzz", "n": ck.n(20000, 400000), "seed": ck.rng.randrange(1 << 30)}, timeout=900)
    ck.oblige("hypotheses:float-formatting(fmt_double_exact,fmt_float_monotone)", not ff["bad"], json.dumps(ff["bad"][:5]),
              kind="hypothesis-exercise")
    ck.extra["float_formatting_cases"] = ff["n"]
    for b in ff["bad"][:3]:
        ck.witness("C02:float-formatting:" + b[0], "the real float formatter breaks hypothesis %s of C02_valid: %s" % (b[0], b),
                   input={"float": b[1]}, observed=b)
    # ---- the property on the real code
    cases = conforming_cases(ck, L, G, per_type=ck.n(2, 12), embed_per_type=ck.n(1, 8), n_docs=ck.n(25, 400))
    rng = ck.rng
    cases = special_character_cases(L, G, rng, ck.n(40, 600)) + cases      # deterministic well-formedness cases first
    if not iok:
        # steer the generator to the classes named by the broken agreement obligations (and their subclasses)
        dg = c03.diagnose(ck, L)
        ck.extra["agreement_diagnosis"] = dg
        hot = set()
        for c in (dg or {}).get("disagree_val", []) + [c for c in (dg or {}).get("disagree_exp", []) if c != "GateKS"]:
            hot.update([c] + c03.descendants(L, c))
        for c in sorted(hot)[:40]:
            for j in range(10):
                cases.append({"tree": G.tree(c, 2, rich=(j % 2 == 0), force={"include": 0} if c == L.S["root"][1] else None),
                              "tag": "probe_" + c, "doc": False, "type": c, "role": "root", "depth": 0})
    for i, cs in enumerate(cases):
        if i % ck.n(2, 1) == 0:
            cs["mut"] = {"kind": rng.choice(MUTS), "seed": rng.randrange(1 << 30)}
    res = []
    for i in range(0, len(cases), 800):
        res += ck.impl("c02_impl.py", {"order": order, "cases": cases[i:i + 800], "want": ["rec", "text", "xml", "file", "prefixed"]},
                       timeout=2400)["results"]
    # the interpreter's configuration is not input (python -O, another hash seed / working directory)
    subi = list(range(10)) + [i for i, c in enumerate(cases) if c["doc"] and i >= 10][:6]
    c03.interpreter_configuration(ck, "C02", "c02_impl.py", order, [cases[i] for i in subi], [res[i] for i in subi], ["rec", "text", "file"],
                                  ("rec", "text", "lx", "path_lx", "entry_mismatch", "file_valid", "file_validate", "obj_err", "text_err", "file_err"))
    xcases, ccases = [], []
    for cs, r in zip(cases, res):
        ck.tally("role:" + cs["role"].split(":")[0])
        ck.tally("depth:%d" % cs["depth"])
        if "obj_err" in r:
            ck.witness("C02:%s:constructor-raises" % cs["type"], "constructor raised on a conforming tree: " + r["obj_err"],
                       input={k: cs[k] for k in ("tree", "tag", "doc")}, observed=r["obj_err"])
            continue
        populated = sum(1 for _, v in r["obj"]["fields"] if v is not None and v != {"l": []})
        ck.count(1, nontrivial_key=json.dumps(r["obj"], sort_keys=True) if populated >= 3 else None,
                 sample={"type": cs["type"], "role": cs["role"], "xml": (r.get("text") or "")[:300]} if len(ck.samples) < 4 and populated >= 4 else None)
        inp = {k: cs[k] for k in ("tree", "tag", "doc", "type", "role")}
        pairs = uses_pairs(cs["tree"])
        if r["rec"]["raised"] is not None:
            ck.witness("C02:%s:validate-rejects-conforming-tree" % r["obj"]["cls"],
                       "validate(recursive=True) raises %s on a conforming tree: %s" % (r["rec"]["raised"], r["rec"].get("text")),
                       input=inp, expected="no exception", observed=r["rec"].get("text"))
        if "text_err" in r or "lx" not in r:
            ck.witness("C02:%s:export-raises" % r["obj"]["cls"], "export raised on a conforming tree: %s" % r.get("text_err"),
                       input=inp, observed=r.get("text_err"))
            continue
        if not r["lx"]["wellformed"]:
            ck.witness("C02:written-xml-not-wellformed", "the XML written for a conforming %s is not well-formed: %s" % (
                r["obj"]["cls"], r["lx"]["err"]), input=inp, expected="well-formed XML", observed=(r.get("text") or "")[:400],
                broken="Inst_Escape.v (quote_attrib / quote_xml tables)")
            continue
        if not r["lx"]["valid"]:
            ck.witness(K_ORDER if pairs else "C02:%s:written-xml-invalid" % cs["type"],
                       "the XML written for a conforming tree is rejected by libxml2: %s" % r["lx"]["err"], input=inp,
                       expected="schema-valid", observed=r["lx"]["err"])
        if cs["doc"]:
            judge_entry_points(ck, cs, r, inp)
            judge_prefixed(ck, cs, r, inp)
        has_inc = any(k == "includes" and v and v.get("l") for k, v in cs["tree"]["kw"])   # is_valid_neuroml2 reads included files
        if cs["doc"] and not has_inc and r.get("file_valid") is not True and r["lx"]["valid"]:
            ck.witness("C02:document:is_valid_neuroml2-%s" % r.get("file_valid"),
                       "is_valid_neuroml2 on the written file of a conforming document gives %s" % r.get("file_valid"), input=inp)
        # correspondences
        if "xml" in r and ascii_ok(r["xml"]) and not gdsgen.has_bad_float(r["obj"]):
            xcases.append((r["obj"]["cls"], r["xml"], r["lx"]["valid"], "written"))
            if "mxml" in r and ascii_ok(r["mxml"]):
                xcases.append((r["obj"]["cls"], r["mxml"], r["mlx"]["valid"], "mutated:%s:%s" % (cs["mut"]["kind"], r["mlx"]["what"])))
                ck.tally("mutated-xml:%s:%s" % (cs["mut"]["kind"], "valid" if r["mlx"]["valid"] else "invalid"))
        if not gdsgen.has_bad_float(r["obj"]) and '"raw": ["' not in json.dumps(r["obj"]):
            ccases.append((r["obj"], True, cs["role"]))
    # violated trees must not conform (the C03 generator, one per facet kind and depth)
    vc = c03.property_cases(ck, L, G, depths=(0, 1, 2), per=1, limit=ck.n(120, 3000))
    vres = ck.impl("c02_impl.py", {"order": order, "cases": vc, "want": ["rec", "text", "xml"]}, timeout=1800)["results"]
    for cs, r in zip(vc, vres):
        if "obj" not in r or "lx" not in r or not r["lx"]["wellformed"] or gdsgen.has_bad_float(r["obj"]):
            continue
        if '"raw": ["' in json.dumps(r["obj"]):
            continue
        if not r["lx"]["valid"]:
            ccases.append((r["obj"], False, "violated:%s.%s:%s@%d" % (cs["type"], cs["member"], cs["facet"], cs["depth"])))
            ck.tally("violated-tree-for-conformsb")
        if "xml" in r and ascii_ok(r["xml"]):
            xcases.append((r["obj"]["cls"], r["xml"], r["lx"]["valid"], "violated:%s.%s:%s" % (cs["type"], cs["member"], cs["facet"])))
    xsd_correspondence(ck, xcases)
    conforms_correspondence(ck, ccases)
    history_part(ck, L, G, order, ck.n(60, 800))
    factory_part(ck, L, G, order, ck.n(1, 4))
    writer_history_part(ck, L, G, ck.n(2, 12))
    # the model of validate on the conforming trees too
    c03.correspondence(ck, cases[:ck.n(200, 1500)], [dict(r, nonrec=r.get("nonrec", {"raised": None, "msgs": []})) for r in res[:ck.n(200, 1500)]],
                       label="Cases_C02_validate")


def replay(ck, data):
    inp = data.get("input") or {}
    tab = bindings.translate(ck)
    T = bindings.Tables(tab)
    order = {c: T.field_order(c) for c in T.order}
    if "writer_history" in inp:
        r = ck.impl("c02_impl.py", dict(inp["writer_history"], mode="writehistory"))
        rows = []
        for i, op in enumerate(r.get("ops", [])):
            if op["op"].startswith("failing"):
                rows.append({"call": i + 1, "op": op["op"], "raised": op["raised"]})
                continue
            fresh = (r["fresh_docs"] if op["op"] == "write" else r["fresh_comps"])[op["index"]]
            rows.append({"call": i + 1, "op": "%s(%d)" % (op["op"], op["index"]), "raised": op["raised"],
                         "same bytes as a fresh process": op.get("text") == fresh.get("text"), "well-formed": op.get("lx", {}).get("wellformed")})
        print(json.dumps({"stored": {k: data.get(k) for k in ("key", "what")}, "now": rows, "error": r.get("err")}, indent=1)[:6000])
        return 1 if any(x.get("same bytes as a fresh process") is False for x in rows) else 0
    if data.get("key") == "C02:validate-depends-on-history":
        r = ck.impl("c02_impl.py", {"mode": "history", "order": order, "cases": [inp]})["results"][0]
        steps = [{"step": s["label"], "validate(recursive=True)": s["rec"].get("raised"), "validate()": s["nonrec"].get("raised"),
                  "component.validate()": s["node_nonrec"].get("raised")} for s in r.get("steps", [])]
        print(json.dumps({"stored": {k: data.get(k) for k in ("key", "what")}, "sequence": inp.get("sequence"), "now": steps,
                          "freshly_built_equal_tree": r.get("rebuilt", {}).get("rec", {}).get("raised"), "error": r.get("err")}, indent=1)[:6000])
        bad = any(s["step"].startswith("restored") and (s["validate(recursive=True)"] or s["validate()"] or s["component.validate()"])
                  for s in steps)
        return 1 if bad else 0
    if inp.get("build") == "loaded-from-prefixed-text":
        r = ck.impl("c02_impl.py", {"order": order, "cases": [dict(inp, build="ctor")], "want": ["rec", "text", "file", "prefixed"]})["results"][0]
        rows = [{k: v.get(k) for k in ("variant", "loader", "err", "same_tree", "rec", "lx", "written")} for v in r.get("prefixed", [])]
        for x in rows:
            x["rec"] = (x["rec"] or {}).get("raised")
        print(json.dumps({"stored": {k: data.get(k) for k in ("key", "what")}, "now": rows}, indent=1)[:6000])
        return 1 if any(x.get("err") or x["rec"] or not (x.get("lx") or {}).get("valid") for x in rows) else 0
    if str(inp.get("build", "")).startswith("children-as:"):
        ref, w, v = ck.impl("c02_impl.py", {"order": order, "cases": [dict(inp, build="ctor"), dict(inp, want=["text"]), dict(inp, want=["rec", "text"])],
                                            "want": ["rec", "text"]})["results"]
        print(json.dumps({"stored": {k: data.get(k) for k in ("key", "what")}, "children held as": inp["build"].split(":")[1],
                          "now": {"written without validate = list-built XML": w.get("text") == ref.get("text"),
                                  "validate(recursive=True)": v.get("rec"), "written after validate = list-built XML": v.get("text") == ref.get("text"),
                                  "xml after validate": (v.get("text") or "")[:800]}}, indent=1)[:6000])
        return 1 if w.get("text") == ref.get("text") and (v.get("rec", {}).get("raised") or v.get("text") != ref.get("text")) else 0
    if inp.get("build"):
        ref, r = ck.impl("c02_impl.py", {"order": order, "cases": [dict(inp, build="ctor"), inp], "want": ["rec", "text"]})["results"]
        same = "obj" in r and r["obj"] == ref.get("obj") and r.get("text") == ref.get("text") and r.get("rec", {}).get("raised") is None
        print(json.dumps({"stored": {k: data.get(k) for k in ("key", "what")}, "built through": inp["build"],
                          "now": {"raises": r.get("obj_err"), "same tree as the constructors build": same,
                                  "difference": tree_diff(ref["obj"], r["obj"]) if "obj" in r and "obj" in ref and r["obj"] != ref["obj"] else None,
                                  "validate(recursive=True)": r.get("rec"), "libxml2": r.get("lx"), "xml": (r.get("text") or "")[:1200],
                                  "xml of the constructor-built tree": (ref.get("text") or "")[:1200]}}, indent=1)[:6000])
        return 0 if same else 1
    r = ck.impl("c02_impl.py", {"order": order, "cases": [inp], "want": ["rec", "text", "file"]})["results"][0]
    if r.get("entry_mismatch") or r.get("path_lx", {}).get("wellformed") is False:
        print(json.dumps({"stored": {k: data.get(k) for k in ("key", "what")},
                          "now": {"writer entry points that differ from the path-written file": r.get("entry_mismatch"), "path-written file": r.get("path_lx")}}, indent=1))
        return 1
    print(json.dumps({"stored": {k: data.get(k) for k in ("key", "what", "expected", "observed")},
                      "now": {"validate(recursive=True)": r.get("rec"), "libxml2": r.get("lx"),
                              "is_valid_neuroml2": r.get("file_valid"), "xml": (r.get("text") or "")[:1500]}}, indent=1)[:6000])
    bad = r.get("rec", {}).get("raised") is not None or r.get("lx", {}).get("valid") is False
    return 1 if bad else 0
