"""C19 — Connection and input accessors and the document summary agree with the data.

tie (translator): translators/tr_strfuncs.py turns every accessor body (nml.py, resolved through the class hierarchy,
  helper calls inlined; cross-checked against helper_methods.py; NeuroMLXMLParser._parse_delay) into a term of
  coq/Model/Accessors.v and NeuroMLDocument.summary's counting skeleton + the bindings' MemberSpecs into a counter table
  -> Gen_C19.v.  Inst_C19_*.v: table_ok accessors = true, summary_ok summary = true (kernel computations).  Props/C19.v
  then gives the accessor theorems for ALL population ids / indices / component ids / numerals / whitespace and the
  summary totals for ALL networks.
tie (correspondence): the translated programs are evaluated by the kernel on the generated attribute values and
  compared in Coq with what the real methods returned (value or exception class); the counter table is evaluated on
  the generated networks and compared with the integers printed by summary().
property predicate on the implementation: the values the harness put into the generated references / quantities /
  fields versus what the accessors return; counted totals versus summary(); events NeuroMLXMLParser hands to a
  recording handler versus the data; has_segment_fraction_info versus its definition.
"""
import json
import math
import os
import re
import subprocess
from concurrent.futures import ThreadPoolExecutor
from fractions import Fraction

from lib.vcommon import PY, VERIF, coq_str, impl_env

OLD6 = [("get_pre_cell_id", "CELL"), ("get_post_cell_id", "CELL"), ("get_pre_segment_id", "INT"), ("get_post_segment_id", "INT"),
        ("get_pre_fraction_along", "FLOAT"), ("get_post_fraction_along", "FLOAT")]
OLD_ATTR = {"get_pre_cell_id": "pre_cell_id", "get_post_cell_id": "post_cell_id", "get_pre_segment_id": "pre_segment_id",
            "get_post_segment_id": "post_segment_id", "get_pre_fraction_along": "pre_fraction_along",
            "get_post_fraction_along": "post_fraction_along"}
NEW_ATTR = {"get_pre_cell_id": "pre_cell", "get_post_cell_id": "post_cell", "get_pre_segment_id": "pre_segment",
            "get_post_segment_id": "post_segment", "get_pre_fraction_along": "pre_fraction_along",
            "get_post_fraction_along": "post_fraction_along"}


def expected_table():
    """(class, method, kind, attribute) -- mirrors Model/Accessors.v `expected` (kinds named as there)"""
    t = []
    for c in ("Connection", "ConnectionWD"):
        for m, k in OLD6:
            t.append((c, m, {"CELL": "KCellIdPath", "INT": "KIntOf", "FLOAT": "KFloatOf"}[k], OLD_ATTR[m]))
    t.append(("ConnectionWD", "get_delay_in_ms", "KDelay", "delay"))
    for c, ck in (("ElectricalConnection", "KCellIdPlain"), ("ContinuousConnection", "KCellIdPlain"),
                  ("ElectricalConnectionInstance", "KCellIdPath"), ("ContinuousConnectionInstance", "KCellIdPath"),
                  ("ElectricalConnectionInstanceW", "KCellIdPath"), ("ContinuousConnectionInstanceW", "KCellIdPath")):
        for m, k in OLD6:
            t.append((c, m, {"CELL": ck, "INT": "KIntOf", "FLOAT": "KFloatOf"}[k], NEW_ATTR[m]))
    t += [("ElectricalConnectionInstanceW", "get_weight", "KWeight", "weight"),
          ("ContinuousConnectionInstanceW", "get_weight", "KWeight", "weight")]
    for c in ("Input", "InputW"):
        t += [(c, "get_target_cell_id", "KCellIdPath", "target"), (c, "get_segment_id", "KSegDefault", "segment_id"),
              (c, "get_fraction_along", "KFractDefault", "fraction_along")]
    t += [("InputW", "get_weight", "KWeight", "weight"), ("ExplicitInput", "get_target_cell_id", "KCellIdPath", "target"),
          ("ExplicitInput", "get_target_population", "KPopulation", "target"),
          ("SynapticConnection", "_get_cell_id", "KCellIdPath", "<arg>"),
          ("SynapticConnection", "_get_population", "KPopulation", "<arg>"),
          ("Population", "get_size", "KGetSize", ""), ("NeuroMLXMLParser", "_parse_delay", "KParseDelay", "<arg>")]
    return t


INST_ACC = """From Coq Require Import String List Bool.
From LNML Require Import Lib.StrFun Model.Accessors.
From Run Require Import Gen_C19.
Lemma accessors_ok : table_ok Gen_C19.accessors = true.
Proof. vm_compute. reflexivity. Qed.
"""
INST_SUM = """From Coq Require Import String List Bool.
From LNML Require Import Lib.StrFun Model.Accessors.
From Run Require Import Gen_C19.
Lemma summary_ok : Accessors.summary_ok Gen_C19.summary = true.
Proof. vm_compute. reflexivity. Qed.
"""
INST_ALL = """From Coq Require Import String List Bool.
From LNML Require Import Lib.StrFun Model.Accessors.
From Run Require Import Gen_C19 Inst_C19_acc Inst_C19_sum.
Definition accessors_ok : table_ok Gen_C19.accessors = true := Inst_C19_acc.accessors_ok.
Definition summary_ok : Accessors.summary_ok Gen_C19.summary = true := Inst_C19_sum.summary_ok.
"""
DIAG = """From Coq Require Import String List Bool.
From LNML Require Import Lib.StrFun Model.Accessors.
From Run Require Import Gen_C19.
Eval vm_compute in (failing_entries Gen_C19.accessors).
"""


def translate(ck):
    p = subprocess.run([PY, os.path.join(VERIF, "translators", "tr_strfuncs.py")], capture_output=True, text=True,
                       env=impl_env(), timeout=300)
    lines = [l for l in p.stdout.splitlines() if l.strip()]
    if p.returncode != 0 or not lines:
        ck.oblige("translate:tr_strfuncs", False, p.stderr[-2000:], kind="translate")
        return None
    d = json.loads(lines[-1])
    if not d.get("ok"):
        ck.oblige("translate:tr_strfuncs:" + d.get("error", "?")[:200], False, d.get("error", ""), kind="translate")
        return None
    ck.oblige("translate:tr_strfuncs", True, kind="translate")
    ck.oblige("translate:nml.py-and-helper_methods.py-give-the-same-terms", bool(d.get("sources_agree")),
              json.dumps(d.get("diffs"))[:1500], kind="translate")
    return d


# ------------------------------------------------------------------ value encoding
def V(x):
    if x is None:
        return {"t": "none"}
    if isinstance(x, str):
        return {"t": "str", "v": x}
    if isinstance(x, bool):
        raise ValueError("bool")
    if isinstance(x, int):
        return {"t": "int", "v": x}
    if isinstance(x, float):
        return {"t": "float", "v": x.hex()}
    if isinstance(x, tuple) and x[0] == "list":
        return {"t": "list", "n": x[1]}
    raise ValueError(repr(x))


def unV(v):
    t = v["t"]
    if t == "none":
        return None
    if t == "str":
        return v["v"]
    if t == "int":
        return int(v["v"])
    if t == "float":
        return float.fromhex(v["v"])
    if t == "list":
        return ("list", v["n"])
    return ("other", v.get("v"))


def coq_ok_string(s):
    return all((32 <= ord(c) < 127) or c in "\t\n" for c in s)


def coq_val(v):
    """Coq pyval literal of an encoded value, or None when it is outside the model"""
    t = v["t"]
    if t == "none":
        return "VNone"
    if t == "str":
        return "(VStr %s)" % coq_str(v["v"]) if coq_ok_string(v["v"]) else None
    if t == "int":
        return "(VInt (%d)%%Z)" % int(v["v"])
    if t == "float":
        f = float.fromhex(v["v"])
        if f != f or f in (math.inf, -math.inf):
            return None
        fr = Fraction(f)
        return "(VFloat (Qmake (%d)%%Z %d%%positive))" % (fr.numerator, fr.denominator)
    if t == "list":
        return "(VList %d%%N)" % v["n"]
    return None


EXN = {"IndexError": "IndexError", "ValueError": "ValueError", "TypeError": "TypeError", "AttributeError": "AttributeError",
       "SystemExit": "SystemExit"}


def coq_res(r):
    if "ok" in r:
        v = coq_val(r["ok"])
        return None if v is None else "(Ok %s)" % v
    e = EXN.get(r["err"])
    return None if e is None else "(Err %s)" % e


# ------------------------------------------------------------------ generators
IDS = ["pop", "p", "Pop_0", "_x9", "iafCells", "a1_b2", "pyramidals_48", "X", "baskets", "m", "s_ms"]
WS = ["", " ", "  ", "\t", " \t", "\n", "   "]


def gen_id(rng):
    if rng.random() < 0.6:
        return rng.choice(IDS)
    first = rng.choice("abcdefghijklmnopqrstuvwxyzABCDEFGHIJKLMNOPQRSTUVWXYZ_")
    rest = "".join(rng.choice("abcdefghijklmnopqrstuvwxyzABCDEFGHIJKLMNOPQRSTUVWXYZ_0123456789") for _ in range(rng.randint(0, 12)))
    return first + rest


def gen_index(rng):
    r = rng.random()
    if r < 0.15:
        return 0
    if r < 0.7:
        return rng.randint(0, 999)
    if r < 0.9:
        return rng.randint(1000, 10 ** 7)
    return rng.randint(10 ** 7, 10 ** 24)


def gen_reference(rng):
    """-> (form, string, population, index)"""
    pop, i, comp = gen_id(rng), gen_index(rng), gen_id(rng)
    f = rng.choice(["path", "path", "path", "bracket", "bracket", "dotdot-bracket", "path-no-component"])
    if f == "path":
        return f, "../%s/%d/%s" % (pop, i, comp), pop, i
    if f == "bracket":
        return f, "%s[%d]" % (pop, i), pop, i
    if f == "dotdot-bracket":
        return f, "../%s[%d]" % (pop, i), pop, i
    return f, "../%s/%d" % (pop, i), pop, i


MALFORMED_REFS = ["", "abc", "pop/3/cell", "../pop/x/cell", "pop[]", "pop[3", "pop]3[", "../pop", "..", "pop[ 7 ]", "../pop/ 12 /c",
                  "pop[-4]", "../pop/+5/c", "pop[3][4]", "a/b", "../p/007/c", "p[0012]"]


def gen_numeral(rng):
    """a numeral of the Nml2Quantity pattern  -?([0-9]*(\\.[0-9]+)?)([eE]-?[0-9]+)?  with at least one mantissa digit
    -> (string, exact value)"""
    neg = rng.random() < 0.2
    r = rng.random()
    if r < 0.35:
        ip, fp = str(rng.randint(0, 9999)), ""
    elif r < 0.75:
        ip, fp = str(rng.randint(0, 999)), "".join(rng.choice("0123456789") for _ in range(rng.randint(1, 6)))
    elif r < 0.9:
        ip, fp = "", "".join(rng.choice("0123456789") for _ in range(rng.randint(1, 6)))
    else:
        ip, fp = "0" * rng.randint(1, 3) + str(rng.randint(0, 99)), ""
    ex = None
    if rng.random() < 0.35:
        ex = rng.randint(-12, 12)
    s = ("-" if neg else "") + ip + ("." + fp if fp else "")
    if ex is not None:
        s += rng.choice("eE") + str(ex)
    val = Fraction(int((ip or "0") + fp), 10 ** len(fp))
    if ex is not None:
        val *= Fraction(10) ** ex
    if neg:
        val = -val
    return s, val


DYADIC = [0.0, 1.0, 0.5, 0.25, 0.75, 0.125, 0.375, 0.0625, 1.5, 2.0, 3.0]


def gen_float(rng):
    r = rng.random()
    if r < 0.5:
        return rng.choice(DYADIC)
    if r < 0.8:
        return rng.random()
    return rng.uniform(-100, 100)


def attr_for(c, m, tab):
    for cc, mm, k, a in tab:
        if cc == c and mm == m:
            return k, a
    return None, None


def gen_acc_cases(rng, n, tab):
    """-> list of (case for the impl, expectation or None, key)"""
    out = []
    bykind = {}
    for t in tab:
        bykind.setdefault(t[2], []).append(t)
    kinds = sorted(bykind)
    weights = [{"KCellIdPath": 4, "KDelay": 3, "KParseDelay": 3, "KPopulation": 2}.get(k, 1) for k in kinds]
    for _ in range(n if tab else 0):
        c, m, k, a = rng.choice(bykind[rng.choices(kinds, weights)[0]])
        case = {"cls": c, "method": m, "mode": "set", "attrs": {}}
        exp = None  # ("int", i) | ("str", s) | ("float", Fraction) -- what the data says, when the input is a valid one
        key = k

        def put(v):
            if a == "<arg>":
                case["arg"] = V(v)
            else:
                case["attrs"][a] = V(v)
        if k in ("KCellIdPath", "KPopulation"):
            r = rng.random()
            if r < 0.8:
                form, s, pop, i = gen_reference(rng)
                put(s)
                exp = ("int", i) if k == "KCellIdPath" else ("str", pop)
                key = "%s:%s" % (k, form)
            elif r < 0.95:
                put(rng.choice(MALFORMED_REFS))
                key = k + ":malformed"
            else:
                put(rng.choice([None, 5]))
                key = k + ":not-a-string"
        elif k == "KCellIdPlain":
            r = rng.random()
            if r < 0.7:
                i = rng.randint(0, 10 ** rng.randint(1, 15))
                put(str(i))
                exp = ("int", i)
                key = k + ":numeral"
            elif r < 0.8:
                i = rng.randint(0, 10 ** 6)
                put(i)
                exp = ("int", i)
                key = k + ":int"
            else:
                put(rng.choice(["3.0", "1e2", "abc", "", " 7 ", None, "2.5", "-3"]))
                key = k + ":other"
        elif k == "KIntOf":
            r = rng.random()
            if r < 0.5:
                i = rng.randint(0, 10 ** rng.randint(0, 6))
                put(i)
                exp = ("int", i)
                key = k + ":int"
            elif r < 0.8:
                i = rng.randint(0, 10 ** rng.randint(0, 6))
                put(str(i))
                exp = ("int", i)
                key = k + ":numeral"
            else:
                put(rng.choice([None, 2.0, 2.75, -0.5, "x", "", " 12 ", "-3", "+4", "1.0"]))
                key = k + ":other"
        elif k == "KFloatOf":
            r = rng.random()
            if r < 0.5:
                f = gen_float(rng)
                put(f)
                exp = ("float", Fraction(f))
                key = k + ":float"
            elif r < 0.8:
                s, val = gen_numeral(rng)
                put(s)
                exp = ("float", val)
                key = k + ":numeral"
            else:
                put(rng.choice([None, 1, 0, "x", "", " 0.5 ", "1e", ".", "e5", "--1"]))
                key = k + ":other"
        elif k in ("KDelay", "KParseDelay"):
            r = rng.random()
            if r < 0.85:
                s, val = gen_numeral(rng)
                unit = rng.choice(["ms", "s"])
                put(s + rng.choice(WS) + unit)
                exp = ("float", val * (1000 if unit == "s" else 1))
                key = "%s:%s" % (k, unit)
            else:
                put(rng.choice(["5", "ms", "s", "5 us", "5 m", "", "abc ms", "1 2 ms", "5ms ", "ms5", "5 sec", "1e ms", None]))
                key = k + ":malformed"
        elif k in ("KWeight", "KSegDefault", "KFractDefault"):
            r = rng.random()
            if r < 0.25:
                put(None)
                exp = {"KWeight": ("float", Fraction(1)), "KSegDefault": ("int", 0), "KFractDefault": ("float", Fraction(1, 2))}[k]
                key = k + ":unset"
            elif k == "KSegDefault":
                i = rng.choice([0, 0, 1, 2, rng.randint(0, 10 ** 5)])
                case["mode"] = rng.choice(["set", "ctor"])
                put(i if rng.random() < 0.7 else str(i))
                if case["mode"] == "ctor" or isinstance(unV(case["attrs"][a]), int):
                    exp = ("int", i)
                key = k + (":zero" if i == 0 else ":set")
            else:
                f = rng.choice([0.0, 0.0, 1.0, 0.5]) if rng.random() < 0.5 else gen_float(rng)
                if k == "KFractDefault":
                    f = abs(f) % 1.0 if f not in (0.0, 1.0) else f
                case["mode"] = rng.choice(["set", "ctor"])
                put(f)
                exp = ("float", Fraction(f))
                key = k + (":zero" if f == 0 else ":set")
        elif k == "KGetSize":
            ninst = rng.choice([0, 0, 1, 3, rng.randint(0, 40)])
            size = rng.choice([None, 0, ninst, rng.randint(0, 50)])
            case["attrs"]["instances"] = V(("list", ninst))
            case["attrs"]["size"] = V(size)
            exp = ("int", ninst if ninst > 0 else (size or 0))
            key = k + (":instances" if ninst > 0 else ":size" if size else ":empty")
        out.append((case, exp, key))
    return out


def gen_network(rng, nid, big, xml=False, builder=False):
    """builder: the document also goes XML -> NeuroMLXMLParser -> NetworkBuilder -> objects; NetworkBuilder needs every
    referenced population to exist and handles chemical projections and input lists uniformly, so such documents have at
    least one population and only those two kinds of content"""
    pops = []
    for i in range(rng.randint(1 if builder else 0, 4)):
        r = rng.random()
        if r < 0.45:
            pops.append({"id": "pop%d" % i, "size": rng.randint(0, 30), "instances": 0})
        elif r < 0.9:
            k = rng.randint(1, 6)
            pops.append({"id": "pop%d" % i, "size": rng.choice([None, k]), "instances": k})
        else:
            # neither size nor instances: fine for summary(); NeuroMLXMLParser needs a size (outside C19)
            pops.append({"id": "pop%d" % i, "size": rng.randint(0, 5) if xml else None, "instances": 0})
    names = [p["id"] for p in pops] or ["popX"]

    def ref(rng, form=None):
        pop, i = rng.choice(names), rng.randint(0, 40)
        f = form or rng.choice(["path", "bracket"])
        return ("../%s/%d/iaf" % (pop, i) if f == "path" else "../%s[%d]" % (pop, i) if f == "dd" else "%s[%d]" % (pop, i)), pop, i

    def conns(rng, n, new, plain=False, weight=False, wd=False):
        out = []
        for j in range(n):
            if plain:
                a, b = rng.randint(0, 40), rng.randint(0, 40)
                c = {"id": j, "pre": str(a), "post": str(b), "pre_i": a, "post_i": b}
            else:
                (s1, _, a), (s2, _, b) = ref(rng), ref(rng)
                c = {"id": j, "pre": s1, "post": s2, "pre_i": a, "post_i": b}
            if rng.random() < 0.5:
                c.update(pre_seg=rng.randint(0, 5), post_seg=rng.randint(0, 5), pre_fract=rng.choice(DYADIC[:7]),
                         post_fract=rng.choice(DYADIC[:7]))
            if weight:
                c["weight"] = rng.choice([1.0, 0.5, 2.0, 0.25, 3.0])
            if wd:
                num, val = gen_numeral(rng)
                unit = rng.choice(["ms", "s"])
                c["weight"] = rng.choice([1.0, 0.5, 2.0, 0.0])
                c["delay"] = num.lstrip("-") + rng.choice(["", " "]) + unit
                c["delay_ms"] = float(abs(val) * (1000 if unit == "s" else 1))
            out.append(c)
        return out
    mx = 6 if not big else 25

    def cnt(kinds):
        """how many connections of each kind in one projection; a projection that goes through NeuroMLXMLParser gets at least
        one (the parser looks the synapse / components up from the first connection; an empty one is outside C19)"""
        ns = [rng.choice([0, rng.randint(0, mx)]) for _ in range(kinds)]
        if xml and not any(ns):
            ns[rng.randrange(kinds)] = rng.randint(1, 3)
        return ns
    projs = [{"id": "proj%d" % i, "pre": rng.choice(names), "post": rng.choice(names),
              "conns": conns(rng, rng.choice([0, rng.randint(0, mx)]), False),
              "conn_wds": conns(rng, rng.choice([0, rng.randint(0, mx)]), False, wd=True)} for i in range(rng.randint(0, 3))]
    eprojs, cprojs = [], []
    for i in range(0 if builder else rng.randint(0, 2)):
        a, b, c = cnt(3)
        eprojs.append({"id": "eproj%d" % i, "pre": rng.choice(names), "post": rng.choice(names),
                       "ecs": conns(rng, a, True, plain=True), "ecis": conns(rng, b, True), "eciws": conns(rng, c, True, weight=True)})
    for i in range(0 if builder else rng.randint(0, 2)):
        a, b, c = cnt(3)
        cprojs.append({"id": "cproj%d" % i, "pre": rng.choice(names), "post": rng.choice(names),
                       "ccs": conns(rng, a, True, plain=True), "ccis": conns(rng, b, True), "cciws": conns(rng, c, True, weight=True)})
    ils = []
    for i in range(rng.randint(1 if builder else 0, 3)):
        pop = rng.choice(names)

        def inp(j, w):
            s, _, idx = ref(rng, "path")
            d = {"id": j, "target": s, "cell": idx}
            r = rng.random()
            if r < 0.4:
                d["seg"] = rng.randint(0, 4)
                d["fract"] = rng.choice(DYADIC[:7])
            elif r < 0.55:
                d["seg"] = rng.randint(1, 4)       # only the segment given
            elif r < 0.7:
                d["fract"] = rng.choice([0.0, 0.25, 0.75, 1.0])   # only the fraction given
            if w:
                d["weight"] = rng.choice([1.0, 0.5, 2.0])
            return d
        ils.append({"id": "il%d" % i, "population": pop, "inputs": [inp(j, False) for j in range(rng.choice([0, rng.randint(0, mx)]))],
                    "input_ws": [inp(100 + j, True) for j in range(rng.choice([0, rng.randint(0, mx)]))]})
    eis = []
    for _ in range(0 if builder else rng.choice([0, 0, rng.randint(1, 3)])):
        s, pop, idx = ref(rng, rng.choice(["path", "bracket", "dd"]))
        eis.append({"target": s, "pop": pop, "cell": idx})
    scs = []
    for _ in range(0 if builder else rng.choice([0, 0, rng.randint(1, 3)])):
        (s1, _, _), (s2, _, _) = ref(rng), ref(rng)
        scs.append({"from": s1, "to": s2})
    return {"id": nid, "pops": pops, "projs": projs, "eprojs": eprojs, "cprojs": cprojs, "input_lists": ils,
            "explicit_inputs": eis, "synaptic_connections": scs}


def net_totals(n):
    cells = sum(p["instances"] if p["instances"] > 0 else (p["size"] or 0) for p in n["pops"])
    conns = sum(len(p["conns"]) + len(p["conn_wds"]) for p in n["projs"]) \
        + sum(len(p["ecs"]) + len(p["ecis"]) + len(p["eciws"]) for p in n["eprojs"]) \
        + sum(len(p["ccs"]) + len(p["ccis"]) + len(p["cciws"]) for p in n["cprojs"])
    return {"cells": cells, "populations": len(n["pops"]), "connections": conns,
            "projections": len(n["projs"]) + len(n["eprojs"]) + len(n["cprojs"]),
            "inputs": sum(len(l["inputs"]) + len(l["input_ws"]) for l in n["input_lists"]), "input lists": len(n["input_lists"]),
            "explicit synaptic connections": len(n["synaptic_connections"]), "explicit inputs": len(n["explicit_inputs"])}


def parse_summary(text):
    """-> per network: dict of the integers printed"""
    nets = []
    cur = None
    for line in text.splitlines():
        m = re.match(r"\*  Network: (\S+)", line)
        if m:
            cur = {"id": m.group(1)}
            nets.append(cur)
            continue
        if cur is None:
            continue
        m = re.match(r"\*   (\d+) (cells|connections|inputs) in (\d+) (populations|projections|input lists)\s*$", line)
        if m:
            cur[m.group(2)] = int(m.group(1))
            cur[m.group(4)] = int(m.group(3))
            continue
        m = re.match(r"\*   (\d+) (explicit synaptic connections|explicit inputs) \(", line)
        if m:
            cur[m.group(2)] = int(m.group(1))
    return nets


def coq_network(n):
    """the network as the counter model sees it"""
    def item(lens, size=0):
        f = "(fun m => " + "".join("if String.eqb m %s then %d%%N else " % (coq_str(k), v) for k, v in lens.items()) + "0%N)"
        return "(MkItem %s %d%%N)" % (f, size)
    colls = {
        "populations": [item({}, p["instances"] if p["instances"] > 0 else (p["size"] or 0)) for p in n["pops"]],
        "projections": [item({"connections": len(p["conns"]), "connection_wds": len(p["conn_wds"])}) for p in n["projs"]],
        "electrical_projections": [item({"electrical_connections": len(p["ecs"]), "electrical_connection_instances": len(p["ecis"]),
                                         "electrical_connection_instance_ws": len(p["eciws"])}) for p in n["eprojs"]],
        "continuous_projections": [item({"continuous_connections": len(p["ccs"]), "continuous_connection_instances": len(p["ccis"]),
                                         "continuous_connection_instance_ws": len(p["cciws"])}) for p in n["cprojs"]],
        "input_lists": [item({"input": len(l["inputs"]), "input_ws": len(l["input_ws"])}) for l in n["input_lists"]],
    }
    return "(fun c => " + "".join("if String.eqb c %s then [%s] else " % (coq_str(k), "; ".join(v)) for k, v in colls.items()) + "[])"


HEAD = ("From Coq Require Import String Ascii List ZArith NArith QArith.\nFrom LNML Require Import Lib.StrFun Model.Accessors.\n"
        "From Run Require Import Gen_C19.\nImport ListNotations.\nLocal Open Scope string_scope.\n")


def parse_idx(s):
    s = s.strip().replace("%Z", "")
    if s in ("nil", "[]"):
        return []
    if "::" in s:
        return [int(x.strip(" ()")) for x in s.split("::") if x.strip(" ()") not in ("nil", "")]
    return [int(x.strip(" ()")) for x in s.strip("[]").split(";") if x.strip(" ()")]


def fl_close(got, want, ulps=4):
    """got: python float; want: Fraction"""
    if got != got or got in (math.inf, -math.inf):
        return False
    w = float(want)
    return got == w or abs(Fraction(got) - want) <= ulps * Fraction(2) ** -53 * abs(want)


def check_exp(res, exp):
    if exp is None:
        return True
    if "ok" not in res:
        return False
    got = unV(res["ok"])
    if exp[0] == "int":
        return isinstance(got, int) and got == exp[1]
    if exp[0] == "str":
        return got == exp[1]
    return isinstance(got, float) and fl_close(got, exp[1])


# ------------------------------------------------------------------ the run
def run(ck):
    ck.rule = ("accessor cases: a (class, accessor) pair of the 87 the property speaks about, with an attribute value drawn per kind "
               "(reference strings of the forms ../pop/i/comp, pop[i], ../pop[i], ../pop/i with random NmlIds and indices up to 1e24, "
               "malformed references, numerals of the Nml2Quantity pattern x whitespace x {s, ms}, unset/zero/set fields, set through "
               "the constructor or directly); document cases: random networks (0-4 populations, 0-3/2/2 projections of the three "
               "kinds with all 8 connection kinds, input lists, explicit inputs, synaptic connections), a third written to XML and "
               "parsed back through NeuroMLXMLParser; non-trivial = the data determines a value (not an error case) or the totals "
               "are not all zero; distinct by content")
    ck.trusted = ["Coq 8.16.1 kernel + vm_compute; no axioms (all theorems closed under the global context)",
                  "translators/tr_strfuncs.py (python ast; single-return methods, if/elif/else, conditional expressions, "
                  "str.split(c)[k], [:-k], strip, endswith, in, int(), float(), len(), `return self.helper(x)` inlined along the "
                  "class hierarchy; the summary's counter updates and report lines; MemberSpec_ literals)",
                  "Lib/StrFun.v as the meaning of the Python str/int/float operations on ASCII strings (exercised against CPython "
                  "by the correspondence run): float(<str>) is modelled by its exact decimal value (CPython rounds it to binary64; "
                  "compared within 2^-50), not modelled: digit-group underscores, inf/nan spellings, indices of bare numerals "
                  "beyond 2^53 (ElectricalConnection/ContinuousConnection go through float())",
                  "summary(): the text assembly around the counters (str(), string concatenation, sorted()) is not modelled; the "
                  "integers printed are compared with counted totals on every generated document"]
    ck.assumptions = ["attribute values are None, str, int, float or list", "ASCII reference strings",
                      "a list member's contribution to a total is its length"]
    ck.gate_static()
    d = translate(ck)
    have_model = False
    tab = expected_table()
    failing_pairs = []
    if d is not None:
        g = ck.gen_v("Gen_C19.v", d["coq"])
        ok, out = ck.coqc(g)
        ck.oblige("Gen_C19.v:compiles", ok, out[-1500:], kind="translate")
        if ok:
            have_model = True
            a_ok, _ = ck.compile_obligations(ck.gen_v("Inst_C19_acc.v", INST_ACC), kind="instance")
            s_ok, _ = ck.compile_obligations(ck.gen_v("Inst_C19_sum.v", INST_SUM), kind="instance")
            if not a_ok:
                okd, rs, _ = ck.coq_eval("Diag_C19.v", DIAG)
                if okd and rs:
                    failing_pairs = re.findall(r'\("([^"]+)"%string,\s*"([^"]+)"%string\)', rs[0]) or re.findall(r'\("([^"]+)",\s*"([^"]+)"\)', rs[0])
                    ck.obligations[-1]["detail"] = "accessors that are not one of the accepted programs of their kind: %s" % failing_pairs
            if a_ok and s_ok:
                ck.coqc(ck.gen_v("Inst_C19.v", INST_ALL))
                ck.compile_props(timeout=600)
            else:
                ck.oblige("Props_C19.v", False, "an instance obligation failed: accessors_ok=%s summary_ok=%s" % (a_ok, s_ok), kind="theorem")
    rng = ck.rng
    # ---------------------------------------------------------------- inputs
    # stored witnesses of the defects seen in DESIGN.md §7 always run first
    fixed = [({"cls": c, "method": "get_fraction_along", "mode": mode, "attrs": {"fraction_along": V(0.0)}}, ("float", Fraction(0)),
              "KFractDefault:zero") for c in ("Input", "InputW") for mode in ("set", "ctor")]
    fixed += [({"cls": "ExplicitInput", "method": "get_target_population", "mode": "set", "attrs": {"target": V("../pop/3/cell")}},
               ("str", "pop"), "KPopulation:path"),
              ({"cls": "SynapticConnection", "method": "_get_population", "mode": "set", "attrs": {}, "arg": V("../pop/3/cell")},
               ("str", "pop"), "KPopulation:path"),
              ({"cls": "ExplicitInput", "method": "get_target_population", "mode": "set", "attrs": {"target": V("../pop[3]")}},
               ("str", "pop"), "KPopulation:dotdot-bracket"),
              ({"cls": "ExplicitInput", "method": "get_target_population", "mode": "set", "attrs": {"target": V("pop[3]")}},
               ("str", "pop"), "KPopulation:bracket"),
              # ExplicitInput shares the Input helper spec but has no segment_id / fraction_along fields
              ({"cls": "ExplicitInput", "method": "get_segment_id", "mode": "set", "attrs": {"target": V("pop[3]")}},
               ("int", 0), "ExplicitInput.get_segment_id"),
              ({"cls": "ExplicitInput", "method": "get_fraction_along", "mode": "set", "attrs": {"target": V("pop[3]")}},
               ("float", Fraction(1, 2)), "ExplicitInput.get_fraction_along")]
    focus = [t for t in tab if (t[0], t[1]) in set(map(tuple, failing_pairs))]
    cases = fixed + gen_acc_cases(rng, ck.n(2500, 80000), tab) + (gen_acc_cases(rng, 600, focus) if focus else [])
    ndocs = ck.n(60, 1500)
    docs = []
    for i in range(ndocs):
        bld = i % 6 == 0
        nets = [gen_network(rng, "net%d" % j, big=(i % 7 == 0), xml=(i % 3 == 0), builder=bld)
                for j in range(1 if bld else rng.choice([1, 1, 1, 2]))]
        docs.append({"id": "doc%d" % i, "networks": nets, "xml": i % 3 == 0, "builder": bld})
    hs = []
    for _ in range(ck.n(200, 2000)):
        k = rng.randint(0, 6)
        cs = []
        for _ in range(k):
            dflt = rng.random() < 0.8
            c = {"pre_segment_id": 0, "post_segment_id": 0, "pre_fraction_along": 0.5, "post_fraction_along": 0.5}
            if not dflt:
                fld = rng.choice(sorted(c))
                c[fld] = rng.choice([1, 3]) if "segment" in fld else rng.choice([0.0, 0.25, 1.0])
            cs.append(c)
        hs.append(cs)
    # the SAME object used for several calls with its attributes changed in place between them (no state may be kept)
    seqs, cur = [], None
    order = [i for i, (c, _, k) in enumerate(cases) if c.get("mode") == "set" and not k.startswith("ExplicitInput.")]
    order.sort(key=lambda i: cases[i][0]["cls"])
    for i in order:
        c = cases[i][0]
        if cur is None or cur["cls"] != c["cls"] or len(cur["steps"]) >= 6:
            cur = {"cls": c["cls"], "steps": [], "idx": []}
            seqs.append(cur)
        st = {"method": c["method"], "attrs": c["attrs"]}
        if "arg" in c:
            st["arg"] = c["arg"]
        cur["steps"].append(st)
        cur["idx"].append(i)
    # a few fixed ones: the same attribute, the same accessor, different values one after the other
    fixed_seq = [
        {"cls": "Connection", "steps": [{"method": "get_pre_cell_id", "attrs": {"pre_cell_id": V(v)}} for v in
                                        ("../pop/3/cell", "../pop/4/cell", "q[7]", "../pop/3/cell")], "want": [3, 4, 7, 3]},
        {"cls": "ConnectionWD", "steps": [{"method": "get_delay_in_ms", "attrs": {"delay": V(v)}} for v in ("5 ms", "5 s", "2ms", "5 ms")],
         "want": [5.0, 5000.0, 2.0, 5.0]},
        {"cls": "Input", "steps": [{"method": "get_fraction_along", "attrs": {"fraction_along": V(v)}} for v in (0.25, None, 0.0, 0.75)],
         "want": [0.25, 0.5, 0.0, 0.75]},
        {"cls": "Input", "steps": [{"method": "get_segment_id", "attrs": {"segment_id": V(v)}} for v in (2, None, 0, 5)], "want": [2, 0, 0, 5]},
        {"cls": "InputW", "steps": [{"method": "get_weight", "attrs": {"weight": V(v)}} for v in (2.0, None, 0.0, 3.0)],
         "want": [2.0, 1.0, 0.0, 3.0]},
        {"cls": "ExplicitInput", "steps": [{"method": "get_target_population", "attrs": {"target": V(v)}} for v in
                                           ("../a/1/c", "b[2]", "../c[3]", "../a/1/c")], "want": ["a", "b", "c", "a"]},
        {"cls": "Population", "steps": [{"method": "get_size", "attrs": {"instances": V(("list", n)), "size": V(sz)}} for n, sz in
                                        ((0, 5), (3, 5), (0, None), (0, 7))], "want": [5, 3, 0, 7]},
    ]
    dochists = []
    for i in range(ck.n(12, 150)):
        nets = [gen_network(rng, "net%d" % j, big=False) for j in range(rng.choice([1, 2]))]
        dochists.append({"id": "hdoc%d" % i, "networks": nets,
                         "add": {"pop_size": rng.randint(0, 9), "instances": rng.choice([0, 0, 2, 5]), "conns": rng.randint(1, 4),
                                 "inputs": rng.randint(1, 3)}})
    # NetworkBuilder driven through the handler API with the cell indices in every shape callers use
    bconns = [{"id": j, "pre": a, "post": b, "pre_seg": sg, "pre_fract": fr, "post_seg": 0, "post_fract": 0.5, "wd": wd, "delay": 2.5, "weight": 0.5}
              for j, (a, b, sg, fr, wd) in enumerate([(3, 4, 0, 0.5, False), (0, 49, 2, 0.25, False), (17, 17, 0, 0.5, True), (48, 1, 1, 0.75, True)])]
    binputs = [{"id": j, "cell": cidx, "seg": sg, "fract": fr, "weight": w}
               for j, (cidx, sg, fr, w) in enumerate([(3, 0, 0.5, 1.0), (0, 2, 0.25, 1.0), (49, 0, 0.75, 2.0), (20, 3, 0.5, 0.5)])]
    forms = ["int", "numpy.int64", "numpy.int32", "float", "numpy.float64", "numpy.float32"]
    bapi = [{"form": f, "conns": bconns, "inputs": binputs} for f in forms]
    payload = {"acc": [c for c, _, _ in cases], "docs": docs, "hsfi": hs,
               "accseq": [{"cls": q["cls"], "steps": q["steps"]} for q in fixed_seq + seqs],
               "dochist": dochists, "builder_api": bapi}
    res = ck.impl("c19_impl.py", payload, timeout=1500)
    check_builder_api(ck, bapi, res["builder_api"])
    # the interpreter's configuration is not an input: the deterministic part again under `python -O` and with another hash seed
    nfix = len(fixed) + 40
    sub = {"acc": payload["acc"][:nfix], "docs": docs[:4], "accseq": payload["accseq"][:len(fixed_seq) + 5], "dochist": dochists[:3],
           "builder_api": bapi[:2], "hsfi": hs[:10]}
    ref_sub = {"acc": res["acc"][:nfix], "docs": res["docs"][:4], "accseq": res["accseq"][:len(fixed_seq) + 5], "dochist": res["dochist"][:3],
               "builder_api": res["builder_api"][:2], "hsfi": res["hsfi"][:10]}
    for label, kw in (("python-O", {"pyflags": ["-O"]}), ("PYTHONHASHSEED=3-cwd=/", {"extra_env": {"PYTHONHASHSEED": "3"}, "cwd": "/"})):
        try:
            r2 = ck.impl("c19_impl.py", sub, timeout=600, **kw)
        except Exception as e:  # noqa: BLE001
            ck.witness("C19:interpreter-configuration:%s:raises" % label, "the implementation run under %s failed: %s" % (label, str(e)[-300:]),
                       input={"configuration": label}, observed=str(e)[-300:])
            continue
        for part in sub:
            for inp, a, b in zip(sub[part], ref_sub[part], r2[part]):
                ck.tally("other-interpreter-configuration:" + label)
                if json.dumps(a, sort_keys=True) != json.dumps(b, sort_keys=True):
                    ck.witness("C19:interpreter-configuration:%s" % label, "under %s the answers (%s) differ from the default interpreter" % (label, part),
                               input={"configuration": label, "part": part, "case": inp}, expected=a if part != "docs" else "(document)",
                               observed=b if part != "docs" else "(document)")
                    break
    check_sequences(ck, cases, fixed_seq, seqs, res)
    check_dochists(ck, dochists, res["dochist"])
    # ---------------------------------------------------------------- correspondence (kernel evaluates the translated programs)
    modelled = []
    if have_model:
        rows = []
        for idx, ((case, exp, key), r) in enumerate(zip(cases, res["acc"])):
            if (case["cls"], case["method"]) not in {(t[0], t[1]) for t in tab}:
                continue
            attrs = []
            okc = True
            for k, v in r["seen"].items():
                cv = coq_val(v)
                if cv is None:
                    okc = False
                attrs.append("(%s, %s)" % (coq_str(k), cv))
            if "arg" in case:
                cv = coq_val(case["arg"])
                okc = okc and cv is not None
                attrs.append('("<arg>", %s)' % cv)
            cr = coq_res(r["res"])
            if not okc or cr is None:
                ck.tally("acc:outside-the-model")
                continue
            # the model's float() is exact; values beyond the binary64 range are outside it
            rows.append((idx, "MkACase %s %s [%s] %s" % (coq_str(case["cls"]), coq_str(case["method"]), "; ".join(attrs), cr)))
        jobs = []
        for i in range(0, len(rows), 500):
            chunk = rows[i:i + 500]
            text = (HEAD + "Definition cases : list acase := [\n  " + ";\n  ".join(r for _, r in chunk) + "\n].\n"
                    "Eval vm_compute in (mismatches (acase_ok Gen_C19.accessors) cases).\n")
            jobs.append(("Cases_C19_acc_%d.v" % (i // 500), text, [ix for ix, _ in chunk]))
        # the counter table on the generated networks against the integers summary() printed
        srows = []
        for di, (doc, r) in enumerate(zip(docs, res["docs"])):
            if r["summary"] is None:
                continue
            ps = parse_summary(r["summary"])
            for ni, n in enumerate(doc["networks"]):
                if ni < len(ps):
                    p = ps[ni]
                    want = [p.get("populations", -1), p.get("cells", -1), p.get("projections", -1), p.get("connections", -1),
                            p.get("input lists", -1), p.get("inputs", -1)]
                    srows.append(((di, ni), "(%s, [%s])" % (coq_network(n), "; ".join("(%d)%%Z" % w for w in want))))
        for i in range(0, len(srows), 100):
            chunk = srows[i:i + 100]
            text = (HEAD + "Definition totals (net : network) : list Z := map (fun n => Z.of_N (counter_value Gen_C19.summary net n))\n"
                    '  ["tot_pop"; "tot_cells"; "tot_proj"; "tot_conns"; "tot_input_lists"; "tot_inputs"].\n'
                    "Definition same (a b : list Z) : bool := (Nat.eqb (length a) (length b)) && forallb (fun p => Z.eqb (fst p) (snd p)) (combine a b).\n"
                    "Definition cases : list (network * list Z) := [\n  " + ";\n  ".join(r for _, r in chunk) + "\n].\n"
                    "Eval vm_compute in (mismatches (fun c => same (totals (fst c)) (snd c)) cases).\n")
            jobs.append(("Cases_C19_sum_%d.v" % (i // 100), text, [ix for ix, _ in chunk]))
        with ThreadPoolExecutor(max_workers=8) as ex:
            results = list(ex.map(lambda j: (j, ck.coq_eval(j[0], j[1], timeout=600)), jobs))
        for (name, _, idxs), (ok, rs, out) in results:
            if not ok or not rs:
                ck.oblige("correspondence:%s" % name, False, out[-1500:], kind="correspondence")
                continue
            bad = parse_idx(rs[0])
            ck.oblige("correspondence:%s" % name, not bad, "mismatching case indices: %s" % bad[:20], kind="correspondence")
            for b in bad[:6]:
                ix = idxs[b]
                if isinstance(ix, tuple):
                    ck.disagree("Accessors.counter_value (summary counters)", docs[ix[0]]["networks"][ix[1]], "see " + name,
                                parse_summary(res["docs"][ix[0]]["summary"]))
                else:
                    ck.disagree("Accessors.run (translated accessor)", cases[ix][0], "see " + name, res["acc"][ix])
        ck.extra["accessor_cases_compared_by_kernel"] = len(rows)
        ck.extra["networks_compared_by_kernel"] = len(srows)
    # ---------------------------------------------------------------- property predicate on the implementation: accessors
    for idx, ((case, exp, key), r) in enumerate(zip(cases, res["acc"])):
        ck.tally("acc:" + key)
        ck.count(1, nontrivial_key=("acc", json.dumps(case, sort_keys=True)) if exp is not None else None,
                 sample={"kind": "accessor", "case": case, "impl": r} if idx in (0, 4, 11, 57) else None)
        if exp is None or check_exp(r["res"], exp):
            continue
        got = r["res"]
        if key.startswith("ExplicitInput."):
            ck.witness("C19:explicit-input-has-no-segment-or-fraction-field",
                       "ExplicitInput.%s() raises AttributeError instead of returning the documented default" % case["method"],
                       input=case, expected=str(exp[1]), observed=got)
            continue
        kind = key.split(":")[0]
        what = {"KCellIdPath": "cell index", "KCellIdPlain": "cell index", "KPopulation": "population", "KIntOf": "segment id",
                "KFloatOf": "fraction along", "KDelay": "delay in ms", "KParseDelay": "delay in ms", "KWeight": "weight",
                "KSegDefault": "segment id", "KFractDefault": "fraction along", "KGetSize": "population size"}.get(kind, kind)
        wkey = "C19:%s" % key if kind in ("KCellIdPath", "KPopulation", "KDelay", "KParseDelay", "KFractDefault", "KSegDefault", "KWeight") \
            else "C19:%s" % kind
        ck.witness(wkey, "%s.%s(): %s differs from the data" % (case["cls"], case["method"], what), input=case,
                   expected=str(exp[1] if exp[0] != "float" else float(exp[1])), observed=got,
                   broken="Inst_C19_acc.v:accessors_ok")
    # ---------------------------------------------------------------- summary totals and parser events
    for di, (doc, r) in enumerate(zip(docs, res["docs"])):
        tot = [net_totals(n) for n in doc["networks"]]
        nt = any(any(v for v in t.values()) for t in tot)
        ck.count(1, nontrivial_key=("doc", json.dumps(doc, sort_keys=True, default=str)) if nt else None,
                 sample={"kind": "document", "totals": tot, "summary_tail": (r["summary"] or "")[-400:]} if di == 1 else None)
        ck.tally("doc:networks=%d" % len(doc["networks"]))
        if r["error"] or r["summary"] is None:
            ck.witness("C19:summary:raises", "summary() / XML parse raised: %s" % r["error"], input=doc, observed=r["error"])
            continue
        ps = parse_summary(r["summary"])
        if len(ps) != len(tot):
            ck.witness("C19:summary:network-blocks", "summary() reports %d networks, the document has %d" % (len(ps), len(tot)),
                       input=doc, expected=len(tot), observed=len(ps))
            continue
        for n, t, p in zip(doc["networks"], tot, ps):
            for k, v in t.items():
                if k.startswith("explicit") and v == 0:
                    continue
                if p.get(k) != v:
                    ck.witness("C19:summary:%s" % k, "summary() reports %s %s, the network has %d" % (p.get(k), k, v),
                               input=n, expected=v, observed=p.get(k), broken="Inst_C19_sum.v:summary_ok")
        if r.get("xml_error"):
            ck.witness("C19:xmlparser:raises", "writing the document and parsing it with NeuroMLXMLParser raised: %s" % r["xml_error"],
                       input=doc, observed=r["xml_error"])
        if r["events"] is not None:
            ck.tally("doc:xml-parsed")
            check_events(ck, doc, r["events"])
        if r.get("rebuilt") is not None:
            ck.tally("doc:rebuilt-by-NetworkBuilder")
            check_rebuilt(ck, doc, r["rebuilt"])
    for cs, got in zip(hs, res["hsfi"]):
        want = any(c["pre_segment_id"] != 0 or c["post_segment_id"] != 0 or c["pre_fraction_along"] != 0.5 or c["post_fraction_along"] != 0.5
                   for c in cs)
        ck.count(1, nontrivial_key=("hsfi", json.dumps(cs)) if cs else None)
        if got != want:
            ck.witness("C19:has_segment_fraction_info", "has_segment_fraction_info disagrees with its definition", input=cs,
                       expected=want, observed=got)


def check_sequences(ck, cases, fixed_seq, seqs, res):
    out = res["accseq"]
    for q, rs in zip(fixed_seq, out[:len(fixed_seq)]):
        ck.count(1, nontrivial_key=("accseq", json.dumps(q["steps"])))
        for k, (st, r, w) in enumerate(zip(q["steps"], rs, q["want"])):
            got = unV(r["ok"]) if "ok" in r else ("raises", r["err"])
            if got != w:
                ck.witness("C19:history:%s" % st["method"], "%s.%s() on an object whose attribute was changed in place between calls "
                           "returns %r, the current data says %r" % (q["cls"], st["method"], got, w),
                           input={"cls": q["cls"], "steps (same object)": q["steps"][:k + 1]}, expected=w, observed=r)
    for q, rs in zip(seqs, out[len(fixed_seq):]):
        ck.count(1, nontrivial_key=("accseq", json.dumps(q["steps"], sort_keys=True)))
        ck.tally("accseq:steps", len(q["steps"]))
        for k, (i, r) in enumerate(zip(q["idx"], rs)):
            fresh = res["acc"][i]["res"]
            if json.dumps(fresh, sort_keys=True) != json.dumps(r, sort_keys=True):
                ck.witness("C19:history:%s" % q["steps"][k]["method"], "%s.%s(): an object used for earlier calls and then changed in place "
                           "answers differently from a fresh object with the same attributes" % (q["cls"], q["steps"][k]["method"]),
                           input={"cls": q["cls"], "steps (same object)": q["steps"][:k + 1]}, expected=fresh, observed=r)


def check_builder_api(ck, bapi, results):
    for q, r in zip(bapi, results):
        ck.count(1, nontrivial_key=("builder_api", q["form"]))
        ck.tally("builder-api:index-form=" + q["form"])
        if r["error"]:
            ck.witness("C19:builder-api:raises:%s" % q["form"], "NetworkBuilder fed cell indices of type %s: building / accessors / summary() "
                       "raised %s" % (q["form"], r["error"]), input={"index form": q["form"], "connections": q["conns"][:2]}, observed=r["error"])
            continue
        want_c = [[pid, c["id"], {"t": "int", "v": c["pre"]}, {"t": "int", "v": c["post"]}, c["pre_seg"], c["pre_fract"], c["post_seg"], c["post_fract"]]
                  for pid in ("pp", "ll", "pl") for wd in (False, True) for c in q["conns"] if bool(c["wd"]) == wd]
        want_i = [[lid, i["id"], {"t": "int", "v": i["cell"]}, i["seg"], i["fract"]] for lid in ("il_plain", "il_listed")
                  for w1 in (True, False) for i in q["inputs"] if (i["weight"] == 1.0) == w1]
        for kind, got, want in (("connection", r["connections"], want_c), ("input", r["inputs"], want_i)):
            if got != want:
                k = next((j for j, (g, w) in enumerate(zip(got, want)) if g != w), None)
                ck.witness("C19:builder-api:%s:%s" % (kind, q["form"]), "accessors of the %ss NetworkBuilder built from cell indices of type %s "
                           "differ from the indices / locations handed in" % (kind, q["form"]), input={"index form": q["form"]},
                           expected=want[k] if k is not None else len(want), observed=got[k] if k is not None else len(got))
        ps = parse_summary(r["summary"] or "")
        if not ps or ps[0].get("connections") != 3 * len(q["conns"]) or ps[0].get("inputs") != 2 * len(q["inputs"]):
            ck.witness("C19:builder-api:summary:%s" % q["form"], "summary() of the built document", input={"index form": q["form"]},
                       expected=[3 * len(q["conns"]), 2 * len(q["inputs"])], observed=ps[:1])


def check_dochists(ck, dochists, results):
    for d, r in zip(dochists, results):
        ck.count(1, nontrivial_key=("dochist", json.dumps(d, sort_keys=True, default=str)))
        ck.tally("dochist")
        if r["error"]:
            ck.witness("C19:summary-history:raises", "summary() before/after growing the document raised: %s" % r["error"], input=d,
                       observed=r["error"])
            continue
        a = d["add"]
        b, af = parse_summary(r["before"]), parse_summary(r["after"])
        for ni, n in enumerate(d["networks"]):
            t = net_totals(n)
            want_b = dict(t)
            want_a = dict(t)
            want_a["populations"] += 1
            want_a["cells"] += a["instances"] if a["instances"] > 0 else a["pop_size"]
            want_a["connections"] += a["conns"] * (len(n["projs"]) + len(n["eprojs"]))
            want_a["inputs"] += a["inputs"] * len(n["input_lists"])
            for tag, want, got in (("before", want_b, b[ni] if ni < len(b) else {}), ("after", want_a, af[ni] if ni < len(af) else {})):
                for k, v in want.items():
                    if k.startswith("explicit") and v == 0:
                        continue
                    if got.get(k) != v:
                        ck.witness("C19:summary-history:%s" % k, "summary() %s the document was grown in place reports %s %s, the network has %d"
                                   % (tag, got.get(k), k, v), input={"network": n, "added in place after the first summary()": a},
                                   expected=v, observed=got.get(k))
            ws = [a["pop_size"], a["instances"] if a["instances"] > 0 else a["pop_size"]]
            gs = r["sizes"][2 * ni:2 * ni + 2]
            if gs != ws:
                ck.witness("C19:history:get_size", "Population.get_size() before / after instances were appended in place", input=a,
                           expected=ws, observed=gs)


def check_rebuilt(ck, doc, rb):
    """XML -> NeuroMLXMLParser -> NetworkBuilder -> objects: what their accessors say, against the data"""
    want_c, want_i = [], []
    for n in doc["networks"]:
        for p in n["projs"]:
            for c in p["conns"] + p["conn_wds"]:
                want_c.append([p["id"], c["id"], c["pre_i"], c["post_i"], c.get("pre_seg", 0), float(c.get("pre_fract", 0.5)),
                               c.get("post_seg", 0), float(c.get("post_fract", 0.5)), float(c.get("delay_ms", 0.0)), float(c.get("weight", 1.0))])
        for l in n["input_lists"]:
            for i in l["inputs"] + l["input_ws"]:
                want_i.append([l["id"], i["id"], i["cell"], i.get("seg", 0), float(i.get("fract", 0.5)), float(i.get("weight", 1.0))])

    def same(a, b):
        return len(a) == len(b) and all(x == y or (isinstance(x, float) and isinstance(y, float) and abs(x - y) <= 1e-9 * max(1.0, abs(y)))
                                        for x, y in zip(a, b))
    for kind, got, want in (("connection", sorted(rb["connections"]), sorted(want_c)), ("input", sorted(rb["inputs"]), sorted(want_i))):
        if len(got) != len(want):
            ck.witness("C19:rebuilt:%s-count" % kind, "after XML -> NeuroMLXMLParser -> NetworkBuilder the document has %d %ss, the data %d"
                       % (len(got), kind, len(want)), input=doc, expected=len(want), observed=len(got))
            continue
        for g, w in zip(got, want):
            if not same(g, w):
                fld = ("cell", "cell", "cell", "cell", "segment", "fraction", "segment", "fraction", "delay", "weight")[
                    next(i for i, (x, y) in enumerate(zip(g, w)) if not same([x], [y]))] if kind == "connection" else \
                    ("list", "id", "cell", "segment", "fraction", "weight")[next(i for i, (x, y) in enumerate(zip(g, w)) if not same([x], [y]))]
                ck.witness("C19:rebuilt:%s:%s" % (kind, fld), "accessors of the %s rebuilt by NetworkBuilder from the parser's events "
                           "(list/projection, id, cell, segment, fraction, ...) differ from the stored data" % kind,
                           input={"stored": w, "document": doc["id"]}, expected=w, observed=g)
                break
    ps = parse_summary(rb["summary"])
    for n, p in zip(doc["networks"], ps):
        t = net_totals(n)
        for k in ("connections", "inputs", "input lists", "projections", "populations"):
            if p.get(k) != t[k]:
                ck.witness("C19:rebuilt:summary:%s" % k, "summary() of the rebuilt document reports %s %s, stored %d" % (p.get(k), k, t[k]),
                           input=n, expected=t[k], observed=p.get(k))


def check_events(ck, doc, events):
    """what NeuroMLXMLParser handed to the handler, against the data"""
    conns = [e for e in events if e[0] == "connection"]
    inputs = [e for e in events if e[0] == "input"]
    ilists = [e for e in events if e[0] == "input_list"]
    want_c, want_i, want_l = [], [], []
    for n in doc["networks"]:
        for p in n["projs"]:
            for c in p["conns"]:
                want_c.append((p["id"], c, 0.0, 1.0))
            for c in p["conn_wds"]:
                want_c.append((p["id"], c, float(c["delay_ms"]), c["weight"]))
        for p in n["eprojs"]:
            for c in p["ecs"] + p["ecis"]:
                want_c.append((p["id"], c, 0.0, 1.0))
            for c in p["eciws"]:
                want_c.append((p["id"], c, 0.0, c["weight"]))
        for p in n["cprojs"]:
            for c in p["ccs"] + p["ccis"]:
                want_c.append((p["id"], c, 0.0, 1.0))
            for c in p["cciws"]:
                want_c.append((p["id"], c, 0.0, c["weight"]))
        for l in n["input_lists"]:
            want_l.append((l["id"], l["population"]))
            for i in l["inputs"]:
                want_i.append((l["id"], i, 1.0))
            for i in l["input_ws"]:
                want_i.append((l["id"], i, i["weight"]))
        for e in n["explicit_inputs"]:
            want_l.append((None, e["pop"]))
            want_i.append((None, {"id": 0, "cell": e["cell"]}, 1.0))
    if len(conns) != len(want_c) or len(inputs) != len(want_i):
        ck.witness("C19:xmlparser:event-count", "NeuroMLXMLParser produced %d connection / %d input events for %d / %d in the data"
                   % (len(conns), len(inputs), len(want_c), len(want_i)), input=doc, expected=[len(want_c), len(want_i)],
                   observed=[len(conns), len(inputs)])
        return
    for e, (pid, c, delay, weight) in zip(conns, want_c):
        exp = [pid, c["id"], c["pre_i"], c["post_i"], c.get("pre_seg", 0), float(c.get("pre_fract", 0.5)), c.get("post_seg", 0),
               float(c.get("post_fract", 0.5))]
        got = e[1:9]
        if got != exp or abs(e[9] - delay) > 1e-12 * max(1.0, abs(delay)) or e[10] != weight:
            fld = "delay" if got == exp and e[10] == weight else "weight" if got == exp else "cell/segment/fraction"
            ck.witness("C19:xmlparser:connection:%s" % fld, "connection event differs from the data (%s)" % fld,
                       input={"projection": pid, "connection": c}, expected=exp + [delay, weight], observed=e[1:])
    for e, (lid, i, weight) in zip(inputs, want_i):
        exp = [i["id"], i["cell"], i.get("seg", 0), float(i.get("fract", 0.5)), weight]
        got = e[2:7]
        if (lid is not None and e[1] != lid) or got != exp:
            z = "fraction-zero" if i.get("fract") == 0.0 and got[:3] == exp[:3] else "fields"
            ck.witness("C19:xmlparser:input:%s" % z, "input event differs from the data", input={"input_list": lid, "input": i},
                       expected=exp, observed=got)
    for e, (lid, pop) in zip(ilists, want_l):
        if e[2] != pop:
            ck.witness("C19:xmlparser:input-list-population", "input list event names population %r, the data says %r" % (e[2], pop),
                       input={"input_list": lid, "population": pop}, expected=pop, observed=e[2])


def replay(ck, data):
    inp = data.get("input")
    out = {"stored": {k: data.get(k) for k in ("key", "what", "expected", "observed")}}
    rc = 0
    if isinstance(inp, dict) and "cls" in inp and "method" in inp:
        r = ck.impl("c19_impl.py", {"acc": [inp]})
        out["implementation_now"] = r["acc"][0]
        rc = 1 if json.dumps(r["acc"][0]["res"], sort_keys=True) == json.dumps(data.get("observed"), sort_keys=True) else 0
    print(json.dumps(out, indent=1, default=str)[:5000])
    return rc
