"""C16 — unbranched sectioning partitions the tree into maximal chains, altering nothing.

tie      : correspondence.  Generated cells (exact dyadic geometry, arbitrary ids / document order / pre-existing groups /
           sub-roots / flags) go through the REAL create_unbranched_segment_group_branches (impl/c16_impl.py); the
           resulting segments and groups are written as Coq terms and the kernel diffs them against
           Model/Section.v `create_branches`, and the list-level model against the rose-tree function `sect_tree`
           the theorems are about (`mismatches16 cases = []`).
theorems : coq/Props/C16.v.
predicate: the property clauses themselves (partition, chain, no inner branch point, maximal at both ends, explicit
           proximal on every first segment, nothing else changed) are evaluated on the implementation's result with a
           harness-side reference over the parent relation (witness search; always runs).
"""
import json
import re
from fractions import Fraction as F

from checks.c13 import (WORKERS, ccell, clist, copt, cpt, cq, cz, fq, gen_groups, gen_tree, all_parent_vectors, jq, reference,
                        case_payload, parse_mismatches)
from lib.vcommon import coq_str

SECTION = "sao864921383"
DEFAULTS = ["soma_group", "axon_group", "dendrite_group", "all"]


# ------------------------------------------------------------------------------------------ generator
def gen_case(rng, segs, root=None, kind="random"):
    ref = reference(segs)
    sids = [s[0] for s in segs]
    groups, _ = gen_groups(rng, segs)
    groups = [g + [None] for g in groups]
    r = rng.random()
    if r < 0.3:
        groups = []
    elif r < 0.5:
        groups = [g for g in groups if g[0] in ("all", "sub")]
    if groups and rng.random() < 0.3:
        groups.insert(rng.randrange(len(groups) + 1), ["soma_group", [ref["root"]], [], "GO:0043025"])
    if groups and rng.random() < 0.2:
        a = rng.choice(sids)
        groups.insert(rng.randrange(len(groups) + 1), ["dups", [a, rng.choice(sids), a], [], None])
    if rng.random() < 0.15:
        # an unbranched group left by an earlier, unrelated run (carries the section NeuroLex id already)
        groups.append(["old_section", [rng.choice(sids)], [], SECTION])
    gids = [g[0] for g in groups]
    groups = [g for k, g in enumerate(groups) if g[0] not in gids[:k]]
    have = set(g[0] for g in groups)
    groups = [[g[0], g[1], [i for i in g[2] if i in have], g[3]] for g in groups]
    if root is None:
        root = ref["root"] if rng.random() < 0.7 else rng.choice(sids)
    return {"segs": segs, "groups": groups, "root": root, "reorder": rng.random() < 0.6, "optimise": rng.random() < 0.5,
            "ref": ref, "kind": kind}


def payload(case, light=False):
    p = case_payload(case["segs"], [], None, [], [], [])
    notes = case.get("notes") or {}
    d = {"segs": p["segs"], "groups": [g[:4] + ([notes[g[0]]] if g[0] in notes else []) for g in case["groups"]],
         "root": case["root"], "reorder": case["reorder"], "optimise": case["optimise"], "light": light}
    if case.get("history"):
        d["history"] = case["history"]
    return d


STORED = [
    # DESIGN §7 C16: root 3 of 0 -> 1 -> {2, 3 -> 4}, segment 3 has no proximal of its own
    ("subroot-3", [[0, None, None, (F(0), F(0), F(0), F(2)), (F(4), F(0), F(0), F(2))],
                   [1, 0, F(1), None, (F(8), F(0), F(0), F(2))],
                   [2, 1, F(1), None, (F(8), F(4), F(0), F(1))],
                   [3, 1, F(1, 2), None, (F(6), F(0), F(3), F(1))],
                   [4, 3, F(1), None, (F(6), F(0), F(5), F(1))]], 3),
    # the shape of the repository's own test
    ("two-branches", [[0, None, None, (F(0), F(0), F(0), F(10)), (F(0), F(10), F(0), F(10))],
                      [1, 0, F(1), (F(0), F(10), F(0), F(10)), (F(0), F(20), F(0), F(10))],
                      [2, 1, F(1), None, (F(0), F(30), F(0), F(10))],
                      [3, 0, F(1), (F(0), F(10), F(0), F(10)), (F(0), F(14), F(3), F(10))],
                      [4, 3, F(1), None, (F(0), F(14), F(8), F(10))]], 0),
]


QUERY_NAMES = ("get_actual_proximal", "get_segment_length", "get_segment_adjacency_list", "get_graph",
               "get_morphology_root", "get_branching_points", "get_extremeties", "get_distance",
               "get_all_distances_from_segment", "get_segments_at_distance", "get_ordered_segments_in_groups")


def history_cases(ck):
    """histories on ONE Cell object before the measured sectioning call (deterministic list, a few trees):
    every C13 query method once, all of them, sectioning twice, sectioning / queries / sectioning from another root.
    The model is a pure function of the cell's segments and groups, so the result must be what a freshly built equal
    cell gives, whatever the methods left cached on the object (cell.adjacency_list, cell.cell_graph)."""
    rng = ck.rng
    out = []
    trees = [[list(x) for x in STORED[1][1]]]
    for shape in ("uniform", "binary", "bushy")[:ck.n(2, 3)]:
        trees.append(gen_tree(rng, rng.randrange(6, 12), shape=shape, idstyle=rng.choice(["perm", "sparse", "rootnz"]),
                              prox_prob=0.4, doc="shuffle"))
    for segs in trees:
        ref = reference(segs)
        sids = [x[0] for x in segs]
        root = ref["root"]
        inner = [i for i in sids if i != root and i in ref["kids"]] or [root]
        hs = [[["query", q]] for q in QUERY_NAMES]
        hs.append([["all_queries"]])
        hs.append([["section", root, True, False]])                                   # sectioning twice
        hs.append([["section", root, False, True], ["all_queries"]])                  # ... with queries in between
        hs.append([["query", "get_graph"], ["section", rng.choice(inner), True, False], ["query", "get_extremeties"]])
        hs.append([["query", "get_distance"], ["query", "get_segment_adjacency_list"]])   # cache refreshed by the user
        for k, h in enumerate(hs):
            c = gen_case(rng, [list(x) for x in segs], root=(root if k % 3 else rng.choice(sids)),
                         kind="history:" + "+".join(st[0] if st[0] != "query" else st[1] for st in h))
            if len(c["groups"]) == 0:
                c["groups"] = [["all", list(sids), [], None]]
            c["reorder"], c["optimise"] = bool(k % 2), False
            c["history"] = h
            out.append(c)
    return out


def preexisting_group_cases(ck):
    """cells that already carry (a) an EMPTY section-tagged group, (b) a non-empty section-tagged group, (c) empty groups
    with other tags / notes, in several combinations and positions, before sectioning: every reachable segment must end
    up in exactly one NEW group that is present in morphology.segment_groups, the old groups unchanged"""
    rng = ck.rng
    out = []
    trees = [[list(x) for x in STORED[1][1]], [list(x) for x in STORED[0][1]]]
    for shape in ("uniform", "bushy"):
        trees.append(gen_tree(rng, rng.randrange(5, 10), shape=shape, idstyle=rng.choice(["perm", "sparse"]), prox_prob=0.3, doc="shuffle"))
    for ti, segs in enumerate(trees):
        ref = reference(segs)
        sids = [x[0] for x in segs]
        a = ["to_fill_later", [], [], SECTION]
        b = ["old_branch", [sids[0], sids[-1]], [], SECTION]
        c1 = ["empty_plain", [], [], None]
        c2 = ["empty_soma_tag", [], [], "GO:0043025"]
        c3 = ["empty_section_with_notes", [], [], SECTION]
        allg = ["all", list(sids), [], None]
        combos = [[a], [b], [c1, c2, c3], [allg, a], [a, b, c1, c2, c3, allg], [c3, a, ["second_empty_section", [], [], SECTION]]]
        for ci, gs in enumerate(combos):
            root = ref["root"] if (ci + ti) % 3 else rng.choice(sids)
            out.append({"segs": [list(x) for x in segs], "groups": [list(g) for g in gs], "notes": {"empty_section_with_notes": "kept for later"},
                        "root": root, "reorder": bool(ci % 2), "optimise": False, "ref": ref,
                        "kind": "stored:pre-existing-section-groups"})
    # explicitly defined but incomplete (or empty) DEFAULT groups, and other groups that include them and have members of
    # their own; both values of optimise_segment_groups: the denotation of every old group must survive
    for ti, segs in enumerate(trees):
        ref = reference(segs)
        sids = [x[0] for x in segs]
        half = sids[:max(1, len(sids) // 2)]
        rest = [i for i in sids if i not in half]
        for di, dname in enumerate(DEFAULTS):
            for variant in range(3):
                dmembers = [] if variant == 2 else half[:1 + variant * (len(half) - 1)]
                extra = (rest or sids)[:2] + ([half[0]] if variant == 1 else [])
                gs = [[dname, list(dmembers), [], None],
                      ["uses_" + dname, list(extra), [dname], None],
                      ["uses_twice", list(rest[:1] or sids[:1]), ["uses_" + dname, dname], None]]
                if variant == 1:
                    gs.reverse()        # includers declared before what they include
                for opt in (True, False):
                    out.append({"segs": [list(x) for x in segs], "groups": [list(g) for g in gs], "notes": {},
                                "root": ref["root"] if (variant + di) % 2 == 0 else rng.choice(sids),
                                "reorder": bool((di + variant) % 2), "optimise": opt, "ref": ref,
                                "kind": "stored:incomplete-default-groups"})
    # pre-existing groups that list a segment twice and have further members after the repeat (early / middle / last), a
    # repeated include, a member that an included group supplies as well: the end-of-call optimiser may tidy them, their
    # denotation must survive (and with the flag off they must be untouched)
    for ti, segs in enumerate(trees):
        ref = reference(segs)
        sids = [x[0] for x in segs]
        m = (sids * 2)[:6]
        a, b, c_, d = m[0], m[1], m[2], m[3]
        shapes = [[["rep_early", [a, a, b, c_, d], [], None]],
                  [["rep_middle", [a, b, b, c_, d], [], None], ["rep_last", [a, b, c_, c_], [], None]],
                  [["base", [b, c_], [], None], ["rep_include", [a], ["base", "base"], None]],
                  [["base", [b, c_], [], None], ["supplied_twice", [a, b, d], ["base"], None], ["rep_both", [d, d, a], ["base", "supplied_twice", "base"], None]],
                  [["rep_section", [a, a, b], [], SECTION], ["rep_soma", [c_, d, c_, a], [], "GO:0043025"]]]
        for si, gs in enumerate(shapes):
            for opt in (True, False):
                out.append({"segs": [list(x) for x in segs], "groups": [list(g) for g in gs], "notes": {},
                            "root": ref["root"] if (si + ti) % 2 == 0 else rng.choice(sids), "reorder": bool(si % 2),
                            "optimise": opt, "ref": ref, "kind": "stored:groups-with-repeats"})
    # old groups whose ids look like the generated names seg_group_<n>_seg_<id> (left by an earlier run on another
    # version of the cell, or hand-made): the new groups must still be NEW groups and the old ones untouched
    for ti, segs in enumerate(trees):
        ref = reference(segs)
        sids = [x[0] for x in segs]
        root = ref["root"]
        kids = [k for p_, ks in ref["kids"].items() if len(ks) > 1 for k in ks] or sids[:2]
        for G in (1, 2, 4):
            for variant in range(2):
                r = root if variant == 0 else rng.choice(sids)
                names = ["seg_group_%d_seg_%d" % (G, r)] + ["seg_group_%d_seg_%d" % (G + j, k) for j, k in enumerate(kids[:G - 1])]
                names += ["seg_group_%d_seg_%d" % (G + 1, r)] if variant else []
                names = list(dict.fromkeys(names))[:G]
                while len(names) < G:
                    names.append("plain_%d" % len(names))
                gs = [[nm, ([sids[-1]] if i % 2 == 0 else []), [], (SECTION if i == 1 else None)] for i, nm in enumerate(names)]
                out.append({"segs": [list(x) for x in segs], "groups": gs, "notes": {}, "root": r, "reorder": bool(G % 2),
                            "optimise": bool(variant), "ref": ref, "kind": "stored:old-groups-with-generated-style-ids"})
    # the candidate index is taken AND an index with another number of digits is in use for the same first segment
    # (9 and 10, 99 and 100; also with a gap): the chosen id must still be an unused one
    for ti, segs in enumerate(trees[:2]):
        ref = reference(segs)
        sids = [x[0] for x in segs]
        root = ref["root"]
        for G, others in ((9, [10]), (9, [10, 11, 8]), (99, [100]), (10, [9, 11, 100]), (9, [11])):
            names = ["seg_group_%d_seg_%d" % (G, root)] + ["seg_group_%d_seg_%d" % (j, root) for j in others]
            kid = (ref["kids"].get(root) or [root])[0]
            names += ["seg_group_%d_seg_%d" % (G, kid), "seg_group_%d_seg_%d" % (G + 1, kid)]
            names = list(dict.fromkeys(names))
            while len(names) < G:
                names.append("filler_%d" % len(names))
            rng.shuffle(names)
            gs = [[nm, ([sids[-1]] if i % 3 == 0 else []), [], (SECTION if i % 4 == 1 else None)] for i, nm in enumerate(names)]
            out.append({"segs": [list(x) for x in segs], "groups": gs, "notes": {}, "root": root, "reorder": False,
                        "optimise": False, "ref": ref, "kind": "stored:old-groups-with-generated-style-ids"})
    return out


def replace_history_cases(ck):
    """lookups by id, then k Segment OBJECTS in morphology.segments are replaced by fresh objects with the same id and
    data (proximal-less children of branch points first), then sectioning: the clauses are evaluated on the objects that
    are in morphology.segments after the call"""
    rng = ck.rng
    out = []
    for t in range(ck.n(4, 10)):
        segs = gen_tree(rng, rng.randrange(6, 14), shape=rng.choice(["uniform", "binary", "bushy"]),
                        idstyle=rng.choice(["perm", "sparse", "topo"]), prox_prob=rng.choice([0.0, 0.0, 0.3]), doc="shuffle")
        ref = reference(segs)
        by = {x[0]: x for x in segs}
        cand = [k for p, ks in ref["kids"].items() if len(ks) > 1 for k in ks if by[k][3] is None]
        others = [x[0] for x in segs if x[0] not in cand]
        rng.shuffle(cand)
        ids = cand[:rng.randrange(1, 4)] or [rng.choice(others)]
        if rng.random() < 0.5:
            ids.append(rng.choice(others))
        first = rng.choice([["lookups"], ["query", "get_segment_length"], ["query", "get_ordered_segments_in_groups"], ["all_queries"]])
        root = ref["root"] if t % 2 == 0 else rng.choice([x[0] for x in segs])
        c = gen_case(rng, [list(x) for x in segs], root=root, kind="history:lookups+replace-segment-objects")
        if not c["groups"]:
            c["groups"] = [["all", [x[0] for x in segs], [], None]]
        c["optimise"] = False
        c["history"] = [first, ["replace_segments", [[i, None] for i in ids]]]
        out.append(c)
    return out


def derive_history_case(ck, case, out):
    """history case -> the case the measured call actually saw (state read back from the object just before it),
    plus the checks that only a history can fail"""
    pre_segs = rows_exact(out["pre_segs"])
    only_queries = all(st[0] in ("query", "all_queries", "lookups") or (st[0] == "replace_segments" and all(x[1] is None for x in st[1]))
                       for st in case["history"])
    if only_queries and (jq(pre_segs) != jq([list(x) for x in case["segs"]]) or out["pre_groups"] != case["groups"]):
        ck.witness("C16:history:query-altered-the-cell", "a query method changed the cell's segments or groups",
                   input=payload(case), expected={"segs": jq(case["segs"]), "groups": case["groups"]},
                   observed={"segs": jq(pre_segs), "groups": out["pre_groups"]})
    same = {"call": out["call"], "segs": out["segs"], "groups": out["groups"]}
    if out["fresh"] != same:
        ck.witness("C16:history-dependence:result-differs-from-a-fresh-equal-cell",
                   "create_unbranched_segment_group_branches on a Cell that went through %s gives another result than on a "
                   "freshly built cell with equal segments and groups" % json.dumps(case["history"]),
                   input=payload(case), expected={"fresh equal cell": out["fresh"]},
                   observed={"same object": same, "cell.adjacency_list left by the history": out["adj_cached"]})
    d = dict(case)
    d["orig"] = case
    # whatever the history did (earlier sectioning included), the segments may only have gained explicit proximals equal to
    # their effective proximal; anything else is already a violation, and the measured call is then judged on the
    # original cell
    ref0 = case.get("ref") or reference(case["segs"])
    altered = None
    if [x[0] for x in pre_segs] != [x[0] for x in case["segs"]]:
        altered = ("segment-order", [x[0] for x in case["segs"]], [x[0] for x in pre_segs])
    else:
        for b, a in zip(case["segs"], pre_segs):
            if (b[1], b[2], b[4]) != (a[1], a[2], a[4]) or (b[3] is not None and a[3] != b[3]) or \
                    (b[3] is None and a[3] is not None and a[3] != ref0["aprox"][b[0]]):
                altered = ("segment %d" % b[0], jq(b), jq(a))
                break
    if altered is not None:
        ck.witness("C16:history:earlier-call-altered-the-segments",
                   "after the history %s the cell's segments differ from the original by more than explicit effective "
                   "proximals (%s)" % (json.dumps(case["history"]), altered[0]),
                   input=payload(case), expected=altered[1], observed=altered[2])
        d["segs"], d["groups"] = [list(x) for x in case["segs"]], out["pre_groups"]
        d["ref"] = ref0
        d["history"] = case["history"]
        return d
    d["segs"], d["groups"] = pre_segs, out["pre_groups"]
    d["ref"] = reference(pre_segs)
    d["history"] = case["history"]
    return d


def big_id_cases(ck):
    """segment ids above 2**53 (not representable as doubles) and near 2**62: neighbouring ids must stay distinct"""
    from checks.c13 import BIG_ID_TREE
    out = []
    ids = [x[0] for x in BIG_ID_TREE]
    for root, reorder in ((ids[0], True), (ids[4], False), (ids[1], False)):
        c = gen_case(ck.rng, [list(x) for x in BIG_ID_TREE], root=root, kind="stored:segment-ids-above-2**53")
        c["groups"] = [["all", list(ids), [], None], ["some", [ids[1], ids[5]], [], None]]
        c["reorder"], c["optimise"] = reorder, False
        out.append(c)
    return out


def gen_cases(ck):
    rng = ck.rng
    cases = []
    for name, segs, root in STORED:
        c = gen_case(rng, [list(s) for s in segs], root=root, kind="stored:" + name)
        c["groups"], c["reorder"], c["optimise"] = [], True, False
        cases.append(c)
    maxn = ck.n(5, 6)
    reps = ck.n(1, 2)
    for n in range(1, maxn + 1):
        for pv in all_parent_vectors(n):
            for _ in range(reps):
                segs = gen_tree(rng, n, idstyle=rng.choice(["topo", "perm", "rootnz", "no0", "sparse"]),
                                fracs=rng.choice([(0, 1, 2, 3), (3,), (1, 2), (0, 1, 2, 3, 3, 3)]),
                                prox_prob=rng.choice([0.0, 0.3, 0.7, 1.0]), doc=rng.choice(["shuffle", "topo", "reverse"]),
                                parents=pv)
                cases.append(gen_case(rng, segs, kind="exhaustive-shape:n=%d" % n))
    for k in range(ck.n(120, 2400)):
        r = rng.random()
        n = rng.randrange(1, 9) if r < 0.3 else rng.randrange(9, 30) if r < 0.9 else rng.randrange(30, ck.n(60, 120))
        segs = gen_tree(rng, n, shape=rng.choice(["uniform", "chain", "star", "binary", "bushy", "deep"]),
                        idstyle=rng.choice(["topo", "perm", "rootnz", "no0", "sparse", "sparse"]),
                        fracs=rng.choice([(0, 1, 2, 3), (3,), (1, 2), (0, 1, 2, 3, 3, 3), (0, 3)]),
                        prox_prob=rng.choice([0.0, 0.2, 0.5, 0.8, 1.0]), doc=rng.choice(["shuffle", "shuffle", "topo", "reverse"]))
        cases.append(gen_case(rng, segs, kind="random:%s" % ("small" if n < 9 else "medium" if n < 30 else "large")))
    for k in range(ck.n(1, 6)):
        n = rng.randrange(150, 301)
        segs = gen_tree(rng, n, shape=rng.choice(["uniform", "chain", "deep", "bushy"]), idstyle=rng.choice(["perm", "sparse"]),
                        prox_prob=rng.choice([0.2, 0.6]), doc="shuffle")
        cases.append(gen_case(rng, segs, kind="random:big"))
    cases += big_id_cases(ck)
    cases += preexisting_group_cases(ck)
    cases += history_cases(ck)
    cases += replace_history_cases(ck)
    return cases


# ------------------------------------------------------------------------------------------ predicate
def rows_exact(rows):
    """implementation segment rows -> exact"""
    out = []
    for i, par, prox, dist in rows:
        out.append([i, None if par is None else par[0], None if par is None else fq(par[1]),
                    None if prox is None else tuple(fq(x) for x in prox), tuple(fq(x) for x in dist)])
    return out


def descendants(ref, root):
    out, stack = [], [root]
    while stack:
        x = stack.pop()
        out.append(x)
        stack.extend(ref["kids"].get(x, []))
    return out


def denotation(groups, gid, all_ids):
    """the segment set a group denotes: its members and, transitively, those of the groups it includes (own closure
    over the group rows, not the library's get_all_segments_in_group).  An included id that is not defined denotes every
    segment when it is 'all' (the library's documented convention) and is kept as a marker otherwise."""
    by = {}
    for g in groups:
        by.setdefault(g[0], g)
    seen, out, stack = set(), set(), [gid]
    while stack:
        x = stack.pop()
        if x in seen:
            continue
        seen.add(x)
        g = by.get(x)
        if g is None:
            out |= set(all_ids) if x == "all" else {"undefined:" + x}
            continue
        out |= set(g[1])
        stack.extend(g[2])
    return out


def predicate(case, out):
    """the clauses of C16 on the implementation's result -> list of (clause, expected, observed)"""
    bad = []
    ref, segs, root = case["ref"], case["segs"], case["root"]
    kids = ref["kids"]
    par = {s[0]: s[1] for s in segs}
    if "err" in out["call"]:
        return [("raises", "returns normally", out["call"])]
    after = rows_exact(out["segs"])
    pre = [g[:4] for g in case["groups"]]
    pre_ids = [g[0] for g in pre]
    new = [g for g in out["groups"] if g[0] not in pre_ids]
    old = [g for g in out["groups"] if g[0] in pre_ids]
    # --- the new groups
    for g in new:
        if g[3] != SECTION or g[2]:
            bad.append(("new-group-marking", "section NeuroLex id, no includes", g))
        if not g[1] or not re.fullmatch(r"seg_group_\d+_seg_%d" % g[1][0], g[0]):
            bad.append(("new-group-name", "seg_group_<n>_seg_<first member>", g))
    if len(set(g[0] for g in out["groups"])) != len(out["groups"]):
        bad.append(("group-ids-distinct", "distinct ids", [g[0] for g in out["groups"]]))
    allm = [m for g in new for m in g[1]]
    want = descendants(ref, root)
    if sorted(allm) != sorted(want):
        bad.append(("partition", {"each of": sorted(want), "in exactly one new group": True}, [g[:2] for g in new]))
    firsts = set()
    for g in new:
        ms = g[1]
        if not ms:
            continue
        firsts.add(ms[0])
        for a, b in zip(ms, ms[1:]):
            if par.get(b) != a:
                bad.append(("chain", "%d is the parent of %d" % (a, b), g[:2]))
            if kids.get(a, []) != [b]:
                bad.append(("inner-branch-point", "%d has exactly the child %d" % (a, b), {"group": g[:2], "children": kids.get(a, [])}))
        if len(kids.get(ms[-1], [])) == 1:
            bad.append(("maximal-at-end", "the last member has 0 or >= 2 children", {"group": g[:2], "children": kids[ms[-1]]}))
        if ms[0] != root and len(kids.get(par.get(ms[0]), [])) < 2:
            bad.append(("maximal-at-start", "a group starts at the given root or below a branch point", g[:2]))
    # --- the segments
    if [s[0] for s in after] != [s[0] for s in segs]:
        bad.append(("segment-order", [s[0] for s in segs], [s[0] for s in after]))
    else:
        for b, a in zip(segs, after):
            if (b[1], b[2]) != (a[1], a[2]):
                bad.append(("parent-changed", jq(b[:3]), jq(a[:3])))
            if b[4] != a[4]:
                bad.append(("distal-changed", jq(b[4]), jq(a[4])))
            if b[3] is not None and a[3] != b[3]:
                bad.append(("proximal-changed", jq(b[3]), jq(a[3])))
            if b[3] is None:
                if b[0] in firsts:
                    if a[3] is None:
                        if b[1] is not None:
                            bad.append(("first-proximal-missing:given-root-is-inner-segment" if b[0] == root
                                        else "first-proximal-missing:below-branch-point",
                                        {"segment": b[0], "proximal": jq(ref["aprox"][b[0]])}, {"proximal": None}))
                    elif a[3] != ref["aprox"][b[0]]:
                        bad.append(("first-proximal-wrong", jq(ref["aprox"][b[0]]), jq(a[3])))
                elif a[3] is not None:
                    bad.append(("proximal-added-elsewhere", {"segment": b[0], "proximal": None}, jq(a[3])))
    if "lens_before" in out and out["lens_before"] != out["lens_after"]:
        bad.append(("length-changed", out["lens_before"], out["lens_after"]))
    # --- the pre-existing groups
    if [g[0] for g in old if g[0] not in DEFAULTS] != [g for g in pre_ids if g not in DEFAULTS]:
        bad.append(("old-groups-order", pre_ids, [g[0] for g in old]))
    if sorted(g[0] for g in old) != sorted(pre_ids):
        bad.append(("old-groups-lost", pre_ids, [g[0] for g in old]))
    if case["reorder"]:
        tail = [g[0] for g in out["groups"] if g[0] in DEFAULTS]
        if tail != [d for d in DEFAULTS if d in pre_ids] or [g[0] for g in out["groups"]][len(out["groups"]) - len(tail):] != tail:
            bad.append(("reorder", "default groups last, in the order " + str(DEFAULTS), [g[0] for g in out["groups"]]))
    elif [g[0] for g in out["groups"]][:len(pre_ids)] != pre_ids:
        bad.append(("old-groups-order", pre_ids, [g[0] for g in out["groups"]]))
    byid = {g[0]: g for g in old}
    for g in pre:
        o = byid.get(g[0])
        if o is None:
            continue
        if not case["optimise"]:
            if o != g:
                bad.append(("old-group-changed", g, o))
        elif o[3] != g[3]:
            bad.append(("old-group-changed", g, o))
    all_ids = [x[0] for x in segs]
    for g in pre:
        before, after = denotation(pre, g[0], all_ids), denotation(out["groups"], g[0], all_ids)
        if before != after:
            bad.append(("old-group-denotation-changed", {g[0]: sorted(map(str, before))},
                        {g[0]: sorted(map(str, after)), "groups after": out["groups"]}))
    if case["optimise"] and "resolved_before" in out:
        for (g, b), (_, a) in zip(out["resolved_before"], out["resolved_after"]):
            if "ok" in b and ("ok" not in a or sorted(set(a["ok"])) != sorted(set(b["ok"]))):
                bad.append(("old-group-resolved-set-changed", {g: b}, {g: a}))
    return bad


def witness_key(clause, case):
    return "C16:" + clause


def wit_input(case):
    """what to store for a replay: the case as generated (with its history), not the state read back"""
    return payload(case.get("orig", case))


# ------------------------------------------------------------------------------------------ Coq terms
def cgroup(g):
    return "(G %s %s %s %s)" % (coq_str(g[0]), clist(g[1], cz), clist(g[2], coq_str), copt(g[3], coq_str))


def cseg_row(s):
    return "(SG %s %s %s %s)" % (cz(s[0]), copt(None if s[1] is None else (s[1], s[2]), lambda pf: "(%s, %s)" % (cz(pf[0]), cq(pf[1]))),
                                  copt(s[3], cpt), cpt(s[4]))


def ccase(case, out):
    if "err" in out["call"]:
        e = out["call"]["err"]
        res = "(Err %s)" % (e if e in ("EValue", "EAttr", "EKey") else "EOther")
    else:
        res = "(Ok (%s, %s))" % (clist(rows_exact(out["segs"]), cseg_row), clist(out["groups"], cgroup))
    return "(mkcase16 %s %s %s %s %s %s)" % (ccell(case["segs"]), clist(case["groups"], cgroup), cz(case["root"]),
                                             "true" if case["reorder"] else "false",
                                             "true" if case["optimise"] else "false", res)


HEADER = ("From Coq Require Import List ZArith QArith String.\nFrom LNML Require Import Model.Morph Model.Section.\n"
          "Import ListNotations.\nOpen Scope string_scope.\nOpen Scope Z_scope.\n")
COMPONENT = {1: "create_branches.segments", 2: "create_branches.groups", 3: "sect_vs_sect_tree",
             4: "cell-or-tree-outside-the-hypotheses-of-C16_model_correct"}


# ------------------------------------------------------------------------------------------ stored big inputs
def chain_segs(n):
    segs = [[0, None, None, (F(0), F(0), F(0), F(1)), (F(1), F(0), F(0), F(1))]]
    for i in range(1, n):
        segs.append([i, i - 1, F(1), None, (F(i + 1), F(0), F(0), F(1))])
    return segs


def fork_chain_segs(n):
    """an unbranched run of n segments (only the root has a proximal point; every attachment at fraction 1), whose last
    segment forks into two leaves: the fork children get their proximal made explicit through a proximal-less chain that is
    longer than the interpreter's recursion limit"""
    segs = chain_segs(n)
    segs.append([n, n - 1, F(1), None, (F(n), F(1), F(0), F(1))])
    segs.append([n + 1, n - 1, F(1), None, (F(n), F(-1), F(0), F(1))])
    return segs


def caterpillar_segs(depth):
    segs = [[0, None, None, (F(0), F(0), F(0), F(1)), (F(1), F(0), F(0), F(1))]]
    for i in range(1, depth):
        segs.append([2 * i, 2 * (i - 1), F(1), None, (F(i + 1), F(0), F(0), F(1))])
        segs.append([2 * i + 1, 2 * (i - 1), F(1), None, (F(i), F(1), F(0), F(1))])
    return segs


def big_inputs(ck):
    # (a) an unbranched run longer than the interpreter's recursion limit, ending in a fork: the run is handled by the
    #     while loop, the fork children's proximal by get_actual_proximal at fraction 1 (no recursion)
    n = ck.n(1200, 5000)
    case = {"segs": fork_chain_segs(n), "groups": [["all", list(range(n + 2)), [], None]], "root": 0, "reorder": False,
            "optimise": False, "kind": "stored:chain"}
    case["ref"] = reference(case["segs"])
    out = ck.impl("c16_impl.py", {"cases": [payload(case, light=True)]}, timeout=900)["results"][0]
    ck.count(1, nontrivial_key="chain-%d-fork" % n, sample={"kind": "chain+fork", "segments": n + 2, "groups_after": len(out["groups"])})
    ck.tally("stored:chain-longer-than-recursion-limit")
    for clause, exp, obs in predicate(case, out)[:3]:
        ck.witness("C16:long-chain:" + clause, "sectioning an unbranched run of %d proximal-less segments (fraction_along 1) "
                   "that ends in a fork: %s" % (n, clause),
                   input={"chain_length": n, "fork": [n, n + 1], "root": 0, "fraction_along": 1}, expected=jq(exp), observed=jq(obs))
    # (b) known finding: one Python frame per nested branch point
    depth = 1050
    case = {"segs": caterpillar_segs(depth), "groups": [], "root": 0, "reorder": True, "optimise": False, "kind": "stored:caterpillar"}
    out = ck.impl("c16_impl.py", {"cases": [payload(case, light=True)]}, timeout=900)["results"][0]
    ck.count(1, nontrivial_key="caterpillar-%d" % depth)
    ck.tally("stored:nested-branch-points")
    if "err" in out["call"]:
        ck.witness("C16:recursion-depth:nested-branch-points",
                   "__sectionise raises %s on %d nested branch points (one Python frame per branch point), leaving %d of the "
                   "groups built" % (out["call"]["err"], depth - 1, len(out["groups"])),
                   input={"shape": "caterpillar: a spine of %d segments, each spine segment also carries one leaf" % depth,
                          "segments": 2 * depth - 1, "root": 0},
                   expected="%d groups partitioning the tree" % (2 * (depth - 1) + 1), observed=out["call"])
    else:
        case["ref"] = reference(case["segs"])
        for clause, exp, obs in predicate(case, out)[:3]:
            ck.witness("C16:caterpillar:" + clause, clause, input={"depth": depth}, expected=jq(exp), observed=jq(obs))


def no_hidden_state(ck):
    """translator tie: the table (method of Cell, attributes of self it writes) regenerated from nml.py; the kernel
    checks writes_ok on it (C16_no_hidden_state says what that means)"""
    try:
        tab = ck.impl("c13_impl.py", {"mode": "self_writes"}, timeout=300)["writes"]
    except Exception as e:        # noqa: BLE001 - fail closed
        ck.oblige("translate:self_writes", False, str(e)[-1500:], kind="translate")
        return
    ck.oblige("translate:self_writes", True, kind="translate")
    gen = HEADER + "Definition writes : list (string * list string) := %s.\n" % clist(
        tab, lambda r: "(%s, %s)" % (coq_str(r[0]), clist(r[1], coq_str)))
    g = ck.gen_v("Gen_C16_writes.v", gen)
    ok, outp = ck.coqc(g)
    ck.oblige("Gen_C16_writes.v:compiles", ok, outp[-1500:], kind="translate")
    inst = ck.gen_v("Inst_C16_writes.v", HEADER + "From Run Require Import Gen_C16_writes.\n"
                    "Lemma cell_methods_hold_no_state : writes_ok Gen_C16_writes.writes = true.\nProof. vm_compute. reflexivity. Qed.\n")
    ok, _ = ck.compile_obligations(inst, kind="instance")
    ck.extra["methods_in_write_table"] = len(tab)
    if not ok:
        bad = [r for r in tab if r[1] and r[0] not in ("__init__", "build", "validate_", "_buildAttributes", "_buildChildren")]
        ck.extra["methods_writing_self"] = bad


# ------------------------------------------------------------------------------------------ run
def signature(case):
    ref, segs = case["ref"], case["segs"]
    order = ref["order"]
    idx = {x: k for k, x in enumerate(order)}
    by = {s[0]: s for s in segs}
    shape = tuple(-1 if by[x][1] is None else idx[by[x][1]] for x in order)
    if len(shape) > 12:
        shape = hash(shape) % 100003
    return json.dumps([shape, idx[case["root"]], tuple(by[x][3] is not None for x in order[:12]), len(case["groups"]),
                       case["reorder"], case["optimise"], by[case["root"]][3] is None, case.get("history"),
                       [g[0] for g in case["groups"]] if case["kind"].startswith("stored:") else None], default=str)


def run(ck):
    import time
    ck.rule = ("one evaluation = one generated cell (tree shape, ids, document order, fractions, proximal pattern, pre-existing "
               "groups, given root, flags) sectioned by the real method, compared (a) by the Coq kernel with "
               "Model/Section.v create_branches and with sect_tree, (b) clause by clause with the property; non-trivial = "
               "distinct (shape, root position, proximal pattern, number of old groups, flags) signature")
    ck.trusted = ["Coq 8.16.1 kernel + vm_compute (no native_compute)",
                  "the dict/object-based Python and Model/Section.v are related by the correspondence run (kernel-evaluated "
                  "equality of segments and groups on every generated case), not by proof",
                  "impl/c16_impl.py + impl/c13_impl.py (cell construction, reading back segments and groups)",
                  "CPython float arithmetic is exact on the generated dyadic geometry (proximal points made explicit are "
                  "compared for equality)",
                  "optimise_segment_groups on groups that have includes is C14's subject: with the flag on such groups are "
                  "compared by id / NeuroLex id and by resolved member set only"]
    ck.assumptions = ["segment ids distinct and non-negative, one parentless root with a proximal point, every parent exists",
                      "pre-existing group ids are distinct and none has the form seg_group_<n>_seg_<id>",
                      "fresh cell: no stale cell.adjacency_list cache",
                      "Python recursion depth is not modelled (fuel): known finding C16:recursion-depth"]
    t0 = time.time()
    ck.gate_static()
    no_hidden_state(ck)
    big_inputs(ck)
    t1 = time.time()
    cases = gen_cases(ck)
    outs = []
    B = 400
    for k in range(0, len(cases), B):
        outs += ck.impl("c16_impl.py", {"cases": [payload(c) for c in cases[k:k + B]]}, timeout=900)["results"]
    # the interpreter's configuration must not matter: the first deterministic cases again under -O, another hash seed and
    # another working directory
    nenv = 12
    try:
        outs_env = ck.impl("c16_impl.py", {"cases": [payload(c) for c in cases[:nenv]]}, timeout=600, pyflags=["-O"],
                           extra_env={"PYTHONHASHSEED": "3"}, cwd="/")["results"]
    except Exception as e:       # noqa: BLE001
        outs_env = None
        ck.oblige("impl:c16_impl.py:-O,PYTHONHASHSEED=3,cwd=/", False, str(e)[-1500:], kind="correspondence")
    if outs_env is not None:
        ck.oblige("impl:c16_impl.py:-O,PYTHONHASHSEED=3,cwd=/", True, kind="correspondence")
        for c, a, b in zip(cases[:nenv], outs[:nenv], outs_env):
            ck.count(1, nontrivial_key="env:" + signature(c))
            ck.tally("environment:-O,hashseed=3,cwd=/")
            if a != b:
                ck.witness("C16:environment-dependence", "the result depends on the interpreter's configuration (-O, "
                           "PYTHONHASHSEED=3, cwd=/)", input=payload(c), expected=a, observed=b)
    t2 = time.time()
    cases = [derive_history_case(ck, c, o) if c.get("history") else c for c, o in zip(cases, outs)]
    for case, out in zip(cases, outs):
        seen = set()
        for clause, exp, obs in predicate(case, out):
            key = witness_key(clause, case)
            if key in seen:
                continue
            seen.add(key)
            ck.witness(key, "create_unbranched_segment_group_branches: clause '%s' of the property fails%s"
                       % (clause, " after the history %s on the same Cell object" % json.dumps(case["history"]) if case.get("history") else ""),
                       input=wit_input(case), expected=jq(exp), observed=jq(obs))
        ck.count(1, nontrivial_key=signature(case),
                 sample={"kind": case["kind"], "segments": len(case["segs"]), "root": case["root"],
                         "tree_root": case["ref"]["root"], "old_groups": [g[0] for g in case["groups"]],
                         "new_groups": [g[:2] for g in out["groups"] if g[0] not in [x[0] for x in case["groups"]]][:6]})
        ck.tally(case["kind"] if not case.get("history") else "history")
        ck.tally("root=tree-root" if case["root"] == case["ref"]["root"] else "root=inner-segment")
        ck.tally("optimise=%s,reorder=%s" % (case["optimise"], case["reorder"]))
    t3 = time.time()
    CH = 150
    nmis = 0
    jobs = []
    for fi, k in enumerate(range(0, len(cases), CH)):
        chunk = list(zip(cases[k:k + CH], outs[k:k + CH]))
        text = HEADER + "Definition cases : list case16 := [\n%s\n].\nEval vm_compute in (mismatches16 cases).\n" % \
            ";\n".join(ccase(c, o) for c, o in chunk)
        jobs.append((fi, chunk, text))
    from concurrent.futures import ThreadPoolExecutor
    with ThreadPoolExecutor(max_workers=WORKERS) as ex:
        evals = list(ex.map(lambda j: ck.coq_eval("Cases_C16_%d.v" % j[0], j[2], timeout=1500), jobs))
    for (fi, chunk, _), (ok, res, outp) in zip(jobs, evals):
        name = "Cases_C16_%d.v:mismatches16=[]" % fi
        if not ok or not res:
            ck.oblige(name, False, outp[-1500:], kind="correspondence")
            continue
        ck.oblige(name, res[0].strip() == "[]", res[0][:500], kind="correspondence")
        for idx, comps in parse_mismatches(res[0]).items():
            c, o = chunk[idx]
            nmis += 1
            mo = "(not printed)"
            if nmis <= 4:
                t = HEADER + "Definition k := %s.\nEval vm_compute in (create_branches (k_cell k) (k_groups k) (k_root k) (k_reorder k) (k_optimise k)).\n" % ccase(c, o)
                ok2, r2, o2 = ck.coq_eval("Model_C16_%d.v" % nmis, t, timeout=300)
                mo = r2[0][:4000] if ok2 and r2 else o2[-1000:]
            ck.disagree("Section." + ",".join(COMPONENT.get(x, str(x)) for x in comps), wit_input(c), mo,
                        {"call": o["call"], "segs": o["segs"], "groups": o["groups"]})
    t4 = time.time()
    ck.extra["exhaustive_tree_shapes_up_to"] = ck.n(5, 6)
    ck.extra["cases_in_kernel_diff"] = len(cases)
    ck.compile_props()
    ck.extra["phase_seconds"] = {"stored big inputs": round(t1 - t0, 1), "implementation": round(t2 - t1, 1),
                                 "predicate": round(t3 - t2, 1), "kernel diff": round(t4 - t3, 1),
                                 "theorems": round(time.time() - t4, 1)}


class _Collect:
    def __init__(self):
        self.w = []

    def witness(self, key, what, **kw):
        self.w.append(key)


def replay(ck, data):
    case = data.get("input") or {}
    if "segs" not in case:
        print(json.dumps(data, indent=1)[:4000])
        return 0
    out = ck.impl("c16_impl.py", {"cases": [case]})["results"][0]
    segs = [[s[0], s[1], None if s[2] is None else F(s[2]), None if s[3] is None else tuple(F(x) for x in s[3]),
             tuple(F(x) for x in s[4])] for s in case["segs"]]
    c = {"segs": segs, "groups": case["groups"], "root": case["root"], "reorder": case.get("reorder", True),
         "optimise": case.get("optimise", True), "history": case.get("history")}
    col = _Collect()
    if c["history"]:
        c = derive_history_case(col, c, out)
    else:
        c["ref"] = reference(segs)
    bad = sorted(set([b[0] for b in predicate(c, out)] + col.w))
    print(json.dumps({"input": case, "implementation": {"call": out["call"], "groups": out["groups"], "segs": out["segs"],
                                                        "fresh_equal_cell": out.get("fresh"), "adjacency_cache": out.get("adj_cached")},
                      "stored_expected": data.get("expected"), "stored_observed": data.get("observed")}, indent=1)[:8000])
    print("property predicate on the implementation:", "FAILS " + ", ".join(bad) if bad else "holds")
    return 1 if bad else 0
