"""C04 — loading depends only on XML content; load/write reaches a fixed point.  See design_notes/C04.md"""
import glob
import json
import os

from checks import c01
from lib import bindings, gdsgen
from lib.vcommon import REPO


def dflt_text(v):
    if v is None:
        return None
    return str(v)


def run(ck):
    ck.rule = ("generated NeuroML documents (every top-level component list of NeuroMLDocument populated in turn, nested to the "
               "tier's depth) and the example files shipped with the package are written by the real writer; each text is rewritten "
               "by 6 presentation-only rewriters (attribute order, comments + inter-element whitespace, compact form, explicitly "
               "written constructor defaults, equivalent number spellings, XML declaration) and loaded by the real loader: the dumped "
               "document must equal the original's; three write/load cycles must reach a fixed point with stable bytes; "
               "non-trivial = document text longer than 400 characters, distinct by text")
    ck.trusted = ["Coq 8.16.1 kernel + vm_compute", "translators/tr_bindings.py", "lxml: comments and inter-element whitespace are not "
                  "part of what the builders read (hypothesis; exercised by the rewriters)",
                  "CPython float parsing: equal real values parse to the same float (hypothesis of the spelling lemma)"]
    ck.gate_static()
    tab = bindings.translate(ck)
    if tab is None:
        return
    if not bindings.gen_bindings(ck, tab):
        return
    T = bindings.Tables(tab)
    c01.glue_facts(ck)
    c01.runtime_obligations(ck, tab)
    if tab["errors"]:
        c01.directed_by_errors(ck, T, tab["errors"], prop="C04")
    if c01.wf_obligations(ck, T, prop="C04"):
        ck.compile_props()
    else:
        ck.oblige("Props_C04.v", False, "instance obligation wf_ok failed", kind="theorem")
    # the text layer: the quoting functions regenerated from nml.py are the reference ones (instance obligations of
    # coq/Model/Escape.v; the round-trip theorems about them are proved in Props/C01_escape.v)
    try:
        from lib import escape_check
        d = escape_check.translate(ck)
        if d is not None:
            ok, out = ck.coqc(ck.gen_v("Gen_Escape.v", d["coq"]))
            ck.oblige("Gen_Escape.v:compiles", ok, out[-1500:], kind="translate")
            if ok:
                escape_check.instances(ck, "Inst_Escape.v", escape_check.INST_TABLES)
    except Exception as e:  # noqa
        ck.oblige("escape:instance-obligations", False, str(e)[-800:], kind="instance")
    # fixed point / purity on the real writer + loader
    c01.run_documents(ck, T, n=ck.n(6, 30), depth=ck.n(3, 4), prop="C04")
    # metamorphic rewriters
    gen = gdsgen.Gen(T, ck.rng)
    order = {c: T.field_order(c) for c in T.order}
    tables = {}
    for c in T.order:
        ea = []
        for a in T.exp_attrs(c):
            d = T.default_of_chain(c, a["py"]) if a["guard"] is not None else None
            ea.append([a["py"], a["xml"], a["kind"], dflt_text(d)])
        bks = {b["py"]: b for b in T.bld_kids(c)}
        ek = [[e["py"], e["tag"], e["kind"], (bks.get(e["py"]) or {}).get("cls")] for e in T.exp_kids(c)]
        tables[c] = {"ea": ea, "ek": ek}
    cases = [{"tree": gen.tree("NeuroMLDocument", ck.n(3, 4), full=(j % 3 == 0))} for j in range(ck.n(8, 40))]
    files = sorted(glob.glob(os.path.join(REPO, "neuroml", "examples", "test_files", "*.nml")))
    files = [f for f in files if os.path.getsize(f) < ck.n(200_000, 5_000_000)]
    doc = ('<neuroml xmlns="http://www.neuroml.org/schema/neuroml2" id="d">%s</neuroml>')
    texts = [["charref-tab-in-attribute", doc % '<property tag="a&#9;b" value="v"/>'],
             ["charref-cr-in-attribute", doc % '<property tag="t" value="x&#13;y"/>'],
             ["charref-cr-in-text", doc % '<notes>l1&#13;l2</notes>'],
             ["charref-newline-in-attribute", doc % '<property tag="a&#10;b" value="v"/>'],
             ["entity-like-literal-text", doc % '<notes>x &amp;lt; y &amp;amp; z &amp;quot;q&amp;quot; &amp;#10;</notes><property tag="a &amp;lt; b &amp;amp;amp; c" value="&amp;gt;"/>'],
             ["entities-in-attribute-and-text", doc % '<notes>a &lt; b &amp;&amp; c &gt; d</notes><property tag="&quot;q&quot; &apos;a&apos; &lt;&amp;&gt;" value="v"/>']]
    out = ck.try_impl("c04_impl.py", {"order": order, "tables": tables, "cases": cases, "files": files, "seed": ck.seed, "texts": texts},
                      timeout=900, label="rewriters") or {"results": [], "probes": []}
    res = out["results"]
    for pr in out.get("probes", []):
        ck.count(1, nontrivial_key="probe:" + pr["name"])
        if not pr.get("fixed", False):
            if pr["name"] in ("charref-tab-in-attribute", "charref-cr-in-attribute", "charref-cr-in-text"):
                ck.witness("C04:tab-or-cr-character-reference-not-a-fixed-point",
                           "a loaded string holding TAB or CR (from &#9; / &#13;) is written raw and reloads as a blank / newline",
                           input=pr)
            else:
                ck.witness("C04:probe:" + pr["name"], "load -> write -> load is not a fixed point: %s" % (pr.get("diff") or pr.get("err")), input=pr)
    jobs = [("tree", c) for c in cases] + [("file", f) for f in files]
    for (kind, item), r in zip(jobs, res):
        label = item if kind == "file" else "generated"
        if "err" in r:
            if kind == "file":
                ck.tally("example-file-not-loadable")   # e.g. old-format examples; not a presentation issue
                continue
            ck.witness("C04:generated:load-raises", "writer/loader raised: " + r["err"][:300], input=item)
            continue
        for v in r["variants"]:
            ck.tally("rewrite:" + v["name"])
            ck.count(1, nontrivial_key="%s|%s|%s" % (label if kind == "file" else json.dumps(item, sort_keys=True)[:2000], v["name"], r.get("size"))
                     if r.get("size", 0) > 400 else None,
                     sample={"rewrite": v["name"], "source": os.path.basename(label) if kind == "file" else "generated document"}
                     if len(ck.samples) < 5 else None)
            if not v["same"]:
                ck.witness("C04:rewrite:%s:%s" % (v["name"], ",".join(v.get("diff", [])) or v.get("err", "")[:40]),
                           "presentation-only rewrite '%s' of %s loads to a different document (%s)" % (
                               v["name"], os.path.basename(label) if kind == "file" else "a generated document", v.get("diff") or v.get("err")),
                           input={"source": label if kind == "file" else item, "rewritten_text": v.get("text")})
        cyc = r.get("cycle")
        if cyc:
            ck.tally("example-file-cycles")
            if not cyc["bytes_stable"] or not cyc["doc_fixed"]:
                if cyc["has_annotation"]:
                    ck.witness("C04:annotation-raw-content-grows",
                               "raw annotation content gains whitespace on every load/write cycle, bytes never stabilise",
                               input={"file": label, "lengths_of_three_writes": cyc["lens"]})
                else:
                    ck.witness("C04:file:not-a-fixed-point:" + os.path.basename(label), "load/write cycles of an example file do not stabilise",
                               input={"file": label, "cycle": cyc})
