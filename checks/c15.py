"""C15 - any sequence of cell-builder calls leaves a well-formed, valid cell.

Coq: Model/Builder.v (state machine mirroring add_segment / add_unbranched_segments / add_segment_group /
     add_unbranched_segment_group / setup_default_segment_groups / reorder / optimise / set_*),
     Proofs/BuilderP*.v (invariant, by induction over the operation list), Props/C15.v.
Tie: correspondence.  Generated operation sequences run on the REAL builder (impl/c15_impl.py); after
     every operation the cell (segments, groups in order, property entries) or the exception class is
     recorded, then the documented closing step (reorder + optimise), validate(recursive=True) and the
     XSD verdict of the written file.  All of it is written into Cases_C15_<k>.v as Coq terms and the
     kernel computes the indices where the model differs (`mismatches15 true cases` must be []).
Witness search: the property itself is evaluated on the implementation's answers with this file's own
     bookkeeping of which segment was added with which type (no model involved).
"""
import ast
import json
import os

from lib import bindings, schemagen
from lib.gdsgen import dec_of
from lib.vcommon import REPO, coq_list, coq_opt, coq_str, coq_z

TREE_CLASSES = ["Cell", "Morphology", "Segment", "SegmentParent", "Point3DWithDiam", "SegmentGroup", "Member", "Include",
                "BiophysicalProperties", "MembraneProperties", "IntracellularProperties", "SpikeThresh", "InitMembPotential",
                "SpecificCapacitance", "Resistivity", "ChannelDensity"]
INIT_IDS = {"factory": ("morphology", "biophys"), "bare": ("morphology", "biophys"), "custom": ("morph_x", "bio_x")}

KINDS = ["SpikeThresh", "InitMembPotential", "SpecificCapacitance", "ChannelDens", "Resistivity"]   # order of Builder.kinds
SET_KINDS = ["SpikeThresh", "InitMembPotential", "SpecificCapacitance", "Resistivity"]
# documented defaults of the optional parameters (what the model assumes; tied to the source by signature_check)
SEG_DEFAULTS = {"seg_id": None, "name": None, "parent": None, "fraction_along": 4, "group_id": None, "use_convention": True,
                "seg_type": None, "reorder_segment_groups": True, "optimise_segment_groups": True}
SEG_FIELDS = {"seg_id": "seg_id", "name": "name", "parent": "parent", "fraction_along": "frac", "group_id": "group",
              "use_convention": "conv", "seg_type": "ty", "reorder_segment_groups": "reorder", "optimise_segment_groups": "optimise"}
UNB_ARGS = ["parent", "fraction_along", "group_id", "use_convention", "seg_type", "reorder_segment_groups", "optimise_segment_groups"]
CHAN_OPTIONALS = ["erev", "group_id", "ion", "ion_chan_def_file"]
SIGNATURES = {
    "add_segment": "self, prox, dist, seg_id=None, name=None, parent=None, fraction_along=1.0, group_id=None, "
                   "use_convention=True, seg_type=None, reorder_segment_groups=True, optimise_segment_groups=True",
    "add_unbranched_segments": "self, points, parent=None, fraction_along=1.0, group_id=None, use_convention=True, seg_type=None, "
                               "reorder_segment_groups=True, optimise_segment_groups=True",
    "add_segment_group": "self, group_id, neuro_lex_id=None, notes=None",
    "add_unbranched_segment_group": "self, group_id, notes=None",
    "reorder_segment_groups": "self", "optimise_segment_groups": "self", "optimise_segment_group": "self, seg_group_id",
    "set_spike_thresh": "self, v, group_id='all'", "set_init_memb_potential": "self, v, group_id='all'",
    "set_resistivity": "self, resistivity, group_id='all'", "set_specific_capacitance": "self, spec_cap, group_id='all'",
    "add_intracellular_property": "self, property_name, **kwargs", "add_membrane_property": "self, property_name, **kwargs",
    "add_channel_density": "self, nml_cell_doc, cd_id, ion_channel, cond_density, erev='0.0 mV', group_id='all', "
                           "ion='non_specific', ion_chan_def_file=''",
    "setup_nml_cell": "self, use_convention=True, overwrite=False, default_groups=['all', 'soma_group']",
    "setup_default_segment_groups": "self, use_convention=True, default_groups=['all', 'soma_group']",
}
DEFAULTS = {"soma": "soma_group", "axon": "axon_group", "dendrite": "dendrite_group"}
DEFAULT_NAMES = ["all", "soma_group", "axon_group", "dendrite_group"]
KNOWN_KEY = "C15:group-id-used-with-two-segment-types"
# dend_1/dend_01 and sec1/sec01 have the same natural-sort key and are different ids
USER_GROUPS = ["dend_01", "sec007", "sec7", "Dend_1", "sec01", "dend_1", "dend_2", "dend_10", "axon_1", "axon_2", "soma_0", "sec1", "sec2", "sec10", "apical", "basal", "g", "h"]


def seg(**kw):
    d = {"op": "seg", "prox": True, "seg_id": None, "name": None, "parent": None, "frac": 4, "group": None,
         "conv": True, "ty": "soma", "reorder": True, "optimise": True, "frac_int": False}
    d.update(kw)
    return d


PROPS3 = [{"op": "prop", "kind": k, "v": 0, "group": "all"} for k in SET_KINDS[:3]]


def omit_defaults(o, names=None):
    """leave out every optional argument (of those named) whose value is the documented default"""
    om = []
    if o["op"] == "seg":
        for a, f in SEG_FIELDS.items():
            if (names is None or a in names) and o[f] == SEG_DEFAULTS[a] and (a != "fraction_along" or not o.get("frac_int")):
                om.append(a)
    elif o["op"] == "unbranched":
        for a in UNB_ARGS:
            if (names is None or a in names) and o[SEG_FIELDS[a]] == SEG_DEFAULTS[a] and (a != "fraction_along" or not o.get("frac_int")):
                om.append(a)
    elif o["op"] == "group":
        if o["nlex"] is None and (names is None or "neuro_lex_id" in names):
            om.append("neuro_lex_id")
    elif o["op"] == "chan":
        dflt = {"erev": o["erev"] == 0, "group_id": o["group"] is None, "ion": o.get("ion", "non_specific") == "non_specific",
                "ion_chan_def_file": o.get("file", "") == ""}
        om = [a for a in CHAN_OPTIONALS if dflt[a] and (names is None or a in names)]
    return dict(o, omit=om)


def chan(k, erev=0, group=None, **kw):
    return dict({"op": "chan", "k": k, "erev": erev, "group": group, "ion": "non_specific", "file": ""}, **kw)


def all_subsets(xs):
    out = [[]]
    for x in xs:
        out += [s + [x] for s in out]
    return out

# stored witnesses (DESIGN.md par.7, C15) - always run first
def unb(**kw):
    d = {"op": "unbranched", "npoints": 4, "parent": 0, "frac": 4, "frac_int": False, "group": "dend_1", "conv": True,
         "ty": "dendrite", "reorder": True, "optimise": True}
    d.update(kw)
    return d


CORPUS = [
    # whole branches put directly into a default group of their own type, and into "all"
    {"init": "factory", "kind": "corpus:branches-in-default-groups",
     "ops": [seg(), unb(group="dendrite_group"), unb(group="all", ty="axon", npoints=3, parent=1),
             unb(group="soma_group", ty="soma", npoints=3, reorder=False, optimise=False),
             unb(group="axon_group", ty="axon", npoints=5, parent=2, flag_form="numpy")] + PROPS3},
    # points with coordinates / diameters of extreme magnitude: a positive diameter must still be written as a positive number
    {"init": "factory", "kind": "corpus:tiny-and-huge-coordinates-and-diameters",
     "ops": [seg(pt={"x": "1e-16", "d": "1e-16"}), seg(parent=0, ty="dendrite", pt={"x": "-5e-324", "d": "5e-324"}),
             seg(parent=1, ty="dendrite", prox=False, pt={"x": "1e300", "d": "1e300"}),
             seg(parent=1, ty="axon", group="axon_1", pt={"x": "-1e300", "d": "2.5e-310"}),
             seg(parent=0, ty="axon", group="axon_1", pt={"x": "123456789.125", "d": "4.9e-16"})] + PROPS3},
    # flags given as numpy.bool_ / 1 / 0, and explicit ids beyond 2**53 and 2**63
    {"init": "factory", "kind": "corpus:flag-forms-and-huge-ids",
     "ops": [seg(flag_form="numpy"), seg(parent=0, group="dend_1", ty="dendrite", flag_form="int"),
             seg(parent=1, group="dend_1", ty="dendrite", flag_form="numpy", reorder=False, optimise=False, seg_id=9223372036854775808),
             seg(parent=2, ty="axon", flag_form="int", seg_id=9223372036854775809),
             {"op": "unbranched", "npoints": 3, "parent": 0, "frac": 4, "frac_int": False, "group": "axon_1", "conv": True,
              "ty": "axon", "reorder": True, "optimise": True, "flag_form": "numpy"},
             seg(parent=0, ty="soma", seg_id=9007199254740993, flag_form="int", conv=True),
             seg(parent=0, ty="soma", seg_id=9223372036854775808)] + PROPS3},
    # explicit id 0: in use as the first segment's explicit id / as an automatic id -> refused; free -> honoured as 0
    {"init": "factory", "kind": "corpus:explicit-id-0-twice", "ops": [seg(seg_id=0), seg(seg_id=0, parent=0, ty="dendrite")]},
    {"init": "factory", "kind": "corpus:explicit-id-0-after-automatic-0",
     "ops": [seg(), seg(seg_id=7, parent=0, ty="dendrite"), seg(parent=1, ty="dendrite"), seg(seg_id=0, parent=2, ty="axon")]},
    {"init": "bare", "kind": "corpus:explicit-id-0-free-is-honoured",
     "ops": [seg(seg_id=3), seg(seg_id=0, parent=0, ty="dendrite"), seg(parent=1, ty="dendrite"), seg(seg_id=1, parent=2, ty="axon"),
             seg(parent=0, ty="axon")] + PROPS3},
    # containers created by the user with their own ids; setters interleaved with add_segment: a setter changes
    # nothing but its own property, whatever the ids of morphology / biophysical properties are
    {"init": "custom", "kind": "corpus:user-made-containers-setters-interleaved",
     "ops": [seg(), {"op": "prop", "kind": "SpikeThresh", "v": 0, "group": None}, seg(parent=0, group="dend_1", ty="dendrite"),
             {"op": "prop", "kind": "Resistivity", "v": 0, "group": "all"}, seg(parent=1, group="dend_1", ty="dendrite"),
             {"op": "prop", "kind": "InitMembPotential", "v": 0, "group": "all", "via": "generic"},
             {"op": "unbranched", "npoints": 3, "parent": 0, "frac": 4, "frac_int": False, "group": "axon_1", "conv": True,
              "ty": "axon", "reorder": True, "optimise": True},
             {"op": "prop", "kind": "SpecificCapacitance", "v": 0, "group": None, "via": "generic"}, chan(0), seg(parent=2, ty="soma"),
             {"op": "prop", "kind": "Resistivity", "v": 1, "group": None, "via": "generic"}]},
    # ... and the same on a cell that came out of a file
    {"init": "custom", "kind": "corpus:reloaded-cell-continued",
     "ops": [seg(), seg(parent=0, group="dend_1", ty="dendrite"), {"op": "prop", "kind": "SpikeThresh", "v": 0, "group": "all"},
             {"op": "reload"}, {"op": "prop", "kind": "InitMembPotential", "v": 0, "group": "all"},
             seg(parent=1, group="dend_1", ty="dendrite"), {"op": "prop", "kind": "SpecificCapacitance", "v": 0, "group": "all"},
             {"op": "reload"}, seg(parent=2, ty="axon"), chan(0, group="dend_1"), {"op": "prop", "kind": "Resistivity", "v": 0, "group": "all"}]},
    {"init": "factory", "kind": "corpus:reloaded-factory-cell",
     "ops": [seg(), seg(parent=0, group="g", ty="axon")] + PROPS3 + [{"op": "reload"}, seg(parent=1, group="g", ty="axon"),
                                                                    {"op": "prop", "kind": "Resistivity", "v": 0, "group": None}]},
    # add_channel_density with EVERY subset of its optional arguments left to the documented defaults
    {"init": "factory", "kind": "corpus:channel-density-every-subset-of-defaults",
     "ops": [seg()] + PROPS3 + [omit_defaults(chan(k), names=sub) for k, sub in enumerate(all_subsets(CHAN_OPTIONALS))]
            + [omit_defaults(chan(20, erev=1, group="soma_group", ion="na", file="chan.nml"))]},
    # every builder call with all / each single optional argument left out
    {"init": "factory", "kind": "corpus:all-optional-arguments-omitted",
     "ops": [omit_defaults(seg(ty="soma")), omit_defaults(seg(parent=0, ty="dendrite")),
             omit_defaults(seg(parent=1, ty="dendrite", group="dend_1")),
             omit_defaults({"op": "unbranched", "npoints": 3, "parent": 0, "frac": 4, "frac_int": False, "group": "axon_1",
                            "conv": True, "ty": "axon", "reorder": True, "optimise": True}),
             omit_defaults({"op": "group", "id": "extra", "nlex": None})]
            + [{"op": "prop", "kind": k, "v": 0, "group": None} for k in SET_KINDS]
            + [{"op": "prop", "kind": k, "v": 1, "group": None, "via": "generic"} for k in SET_KINDS]},
    {"init": "bare", "kind": "corpus:each-optional-argument-omitted-alone",
     "ops": [omit_defaults(seg(conv=True, ty="soma"), names=["seg_id"])]
            + [omit_defaults(seg(parent=0, ty="axon"), names=[a]) for a in SEG_DEFAULTS if a != "parent"]
            + [omit_defaults({"op": "unbranched", "npoints": 2, "parent": 1, "frac": 4, "frac_int": False, "group": "sec7",
                              "conv": True, "ty": "dendrite", "reorder": True, "optimise": True}, names=[a]) for a in UNB_ARGS]
            + PROPS3},
    {"init": "factory", "kind": "corpus:explicit-ids-not-ascending-then-duplicate",
     "ops": [seg(seg_id=10), seg(seg_id=11, parent=0, ty="dendrite"), seg(seg_id=5, parent=0, ty="axon"),
             seg(seg_id=6, parent=2, ty="axon", frac=0, frac_int=True), seg(seg_id=10, parent=1, ty="dendrite")]},
    {"init": "factory", "kind": "corpus:automatic-id-skips-several-taken-ids",
     "ops": [seg(seg_id=2), seg(seg_id=3, parent=0, ty="dendrite"), seg(seg_id=4, parent=1, ty="dendrite"),
             seg(parent=0, ty="axon"), seg(parent=0, ty="axon"), seg(seg_id=1, parent=3, ty="axon"), seg(parent=5, ty="axon"),
             {"op": "unbranched", "npoints": 4, "parent": 0, "frac": 0, "frac_int": True, "group": "sec7", "conv": True,
              "ty": "dendrite", "reorder": True, "optimise": True}]},
    {"init": "factory", "kind": "corpus:group-ids-differ-by-leading-zeros-and-case",
     "ops": [seg(), seg(parent=0, group="sec7", ty="axon"), seg(parent=0, group="sec007", ty="axon"),
             seg(parent=0, group="Dend_1", ty="dendrite"), seg(parent=0, group="dend_1", ty="dendrite"),
             seg(parent=0, group="dend_01", ty="dendrite", optimise=False, reorder=False)]},
    {"init": "factory", "kind": "corpus:group-ids-equal-under-natural-sort",
     "ops": [seg(), seg(parent=0, group="dend_1", ty="dendrite"), seg(parent=0, group="dend_01", ty="dendrite"),
             seg(parent=1, group="dend_1", ty="dendrite", frac=0, frac_int=True)]},
    {"init": "factory", "kind": "corpus:duplicate-explicit-id",
     "ops": [seg(seg_id=5), seg(seg_id=5, parent=0, ty="dendrite", prox=False)] + PROPS3},
    {"init": "factory", "kind": "corpus:automatic-id-collision",
     "ops": [seg(seg_id=2), seg(parent=0, ty="dendrite"), seg(parent=1, ty="dendrite")] + PROPS3},
    {"init": "factory", "kind": "corpus:mixed-type-group",
     "ops": [seg(), seg(parent=0, group="g", ty="axon"), seg(parent=0, group="g", ty="dendrite")] + PROPS3},
    {"init": "factory", "kind": "corpus:group-id-all",
     "ops": [seg(), seg(parent=0, group="all", ty="dendrite", optimise=False)] + PROPS3},
    {"init": "factory", "kind": "corpus:typical",
     "ops": [seg(), {"op": "unbranched", "npoints": 4, "parent": 0, "frac": 4, "group": "dend_1", "conv": True,
                     "ty": "dendrite", "reorder": False, "optimise": False},
             {"op": "unbranched", "npoints": 3, "parent": 0, "frac": 2, "group": "axon_1", "conv": True,
              "ty": "axon", "reorder": True, "optimise": True},
             seg(parent=2, group="dend_2", ty="dendrite", prox=False, reorder=False, optimise=False)] + PROPS3
            + [{"op": "prop", "kind": "Resistivity", "v": 1, "group": "all"}]},
    {"init": "bare", "kind": "corpus:bare-no-convention",
     "ops": [seg(conv=False, ty=None), seg(parent=0, conv=False, ty=None, group="g", prox=False),
             {"op": "group", "id": "h", "nlex": None}] + PROPS3},
]


# ----------------------------------------------------------------------------- generator
def gen_case(rng, long=False):
    init = rng.choices(["factory", "bare", "custom"], weights=[60, 12, 28])[0]
    nchan = [0]
    n = rng.randint(12, 40) if long else rng.randint(1, 12)
    ops = []
    nseg = 0
    used = []
    roles = {}
    groups_seen = []
    sloppy = rng.random() < 0.2       # sequences that may break the "one group id - one role" discipline
    faulty = rng.random() < 0.15      # sequences that may contain a call that raises
    conv_cell = rng.random() < 0.9

    def auto():
        k = len(used)
        while k in used:
            k += 1
        return k

    def pick_group():
        r = rng.random()
        if r < 0.30:
            return None
        if r < 0.62 and groups_seen:
            return rng.choice(groups_seen)
        if r < 0.93:
            return rng.choice(USER_GROUPS)
        if sloppy:
            return rng.choice(DEFAULT_NAMES + ["", "1bad id"])
        return rng.choice(USER_GROUPS)

    def role_for(g):
        if g in roles and not (sloppy and rng.random() < 0.3):
            return roles[g]
        conv = conv_cell if rng.random() < 0.95 else not conv_cell
        ty = rng.choice(["soma", "axon", "dendrite"])
        if g and g not in roles:
            roles[g] = (conv, ty)
        return conv, ty

    for _ in range(n):
        r = rng.random()
        if r < 0.55 or nseg == 0 and r < 0.8:
            g = pick_group()
            conv, ty = role_for(g)
            sid = None
            q = rng.random()
            if q < 0.2:
                sid = rng.choice([x for x in range(0, 60) if x not in used])
            elif q < 0.24 and 0 not in used:
                sid = 0                      # an explicit 0 is an id like any other
            elif q < 0.28 and used and faulty:
                sid = rng.choice(used + ([0] if 0 in used else []))
            parent = None if nseg == 0 else rng.randrange(nseg)
            if faulty and nseg > 0 and rng.random() < 0.05:
                parent = None
            frac = rng.choice([4, 4, 4, 0, 1, 2, 3])
            if faulty and rng.random() < 0.04:
                frac = rng.choice([5, -1])
            if faulty and conv and rng.random() < 0.05:
                ty = rng.choice([None, "foo", ""])
            o = seg(prox=(nseg == 0 or rng.random() < 0.4), seg_id=sid, name=rng.choice([None, None, None, "nm", ""]),
                    parent=parent, frac=frac, frac_int=(rng.random() < 0.5), group=g, conv=conv,
                    ty=ty if (conv or rng.random() < 0.5) else None,
                    reorder=rng.random() < 0.5, optimise=rng.random() < 0.6)
            ops.append(o)
            used.append(sid if sid is not None else auto())
            nseg += 1
            if g and g not in groups_seen:
                groups_seen.append(g)
        elif r < 0.67 and nseg > 0:
            g = pick_group()
            if g is None and not faulty:
                g = rng.choice(USER_GROUPS)
            conv, ty = role_for(g)
            npts = rng.choice([2, 2, 3, 4, 5]) if not (faulty and rng.random() < 0.1) else 1
            ops.append({"op": "unbranched", "npoints": npts, "parent": rng.randrange(nseg), "frac": rng.choice([4, 4, 2, 0]),
                        "frac_int": rng.random() < 0.5, "group": g, "conv": conv, "ty": ty, "reorder": rng.random() < 0.5, "optimise": rng.random() < 0.6})
            for _k in range(max(npts - 1, 0)):
                used.append(auto())
                nseg += 1
            if g and g not in groups_seen:
                groups_seen.append(g)
        elif r < 0.73:
            g = rng.choice(USER_GROUPS + (DEFAULT_NAMES if sloppy else []))
            ops.append({"op": "group", "id": g, "nlex": rng.choice([None, None, "GO:0043025"])})
            if g not in groups_seen:
                groups_seen.append(g)
        elif r < 0.77:
            g = rng.choice(USER_GROUPS)
            ops.append({"op": "ugroup", "id": g})
            if g not in groups_seen:
                groups_seen.append(g)
        elif r < 0.81:
            ops.append({"op": "reorder"})
        elif r < 0.85:
            ops.append({"op": "optimise"})
        elif r < 0.88 and nseg > 0:
            ops.append({"op": "reload"})
        elif r < 0.92:
            o = chan(nchan[0], erev=rng.choice([0, 0, 1]), group=rng.choice([None, None, "all", "soma_group"] + groups_seen[:1]),
                     ion=rng.choice(["non_specific", "non_specific", "na"]), file=rng.choice(["", "", "chan.nml"]))
            nchan[0] += 1
            ops.append(omit_defaults(o, names=[a for a in CHAN_OPTIONALS if rng.random() < 0.6]))
        else:
            k = rng.choice(SET_KINDS)
            v = rng.randrange(3) if not (faulty and rng.random() < 0.15) else 100 + rng.randrange(3)
            ops.append({"op": "prop", "kind": k, "v": v, "via": rng.choice(["setter", "setter", "generic"]),
                        "group": rng.choice([None, "all", "all", "soma_group"] + groups_seen[:2])})
    if rng.random() < 0.6:
        have = {o["kind"] for o in ops if o["op"] == "prop"}
        ops += [p for p in PROPS3 if p["kind"] not in have]
    # the three flags come as Python bools, numpy.bool_ or 1 / 0 (same truth value, the model takes that)
    for o in ops:
        if o["op"] in ("seg", "unbranched"):
            o["flag_form"] = rng.choice(["bool", "bool", "numpy", "int"])
    # optional arguments equal to their documented default are left out half of the time
    ops = [omit_defaults(o, names=[a for a in list(SEG_DEFAULTS) + ["neuro_lex_id"] if rng.random() < 0.5])
           if o["op"] in ("seg", "unbranched", "group") else o for o in ops]
    return {"init": init, "ops": ops, "kind": ("long" if long else "short") + (":sloppy" if sloppy else "") + (":faulty" if faulty else "")}


# ----------------------------------------------------------------------------- Coq terms
def q_bool(b):
    return "true" if b else "false"


def q_op(o):
    k = o["op"]
    if k == "seg":
        return "(AddSegment %s %s %s %s %s %s %s %s %s %s)" % (
            q_bool(o["prox"]), coq_opt(o["seg_id"], coq_z), coq_opt(o["name"], q_s),
            coq_opt(o["parent"], lambda n: "%d%%nat" % n), coq_z(o["frac"]), coq_opt(o["group"], q_s),
            q_bool(o["conv"]), coq_opt(o["ty"], q_s), q_bool(o["reorder"]), q_bool(o["optimise"]))
    if k == "unbranched":
        return "(AddUnbranched %d%%nat %s %s %s %s %s %s %s)" % (
            o["npoints"], coq_opt(o["parent"], lambda n: "%d%%nat" % n), coq_z(o["frac"]), coq_opt(o["group"], q_s),
            q_bool(o["conv"]), coq_opt(o["ty"], q_s), q_bool(o["reorder"]), q_bool(o["optimise"]))
    if k == "group":
        return "(AddSegmentGroup %s %s)" % (q_s(o["id"]), coq_opt(o["nlex"], q_s))
    if k == "ugroup":
        return "(AddUnbranchedGroup %s)" % q_s(o["id"])
    if k == "reorder":
        return "Reorder"
    if k == "optimise":
        return "Optimise"
    if k == "reload":
        return "Reload"
    if k == "chan":
        g = o["group"] if o["group"] is not None else "all"
        ion = {"non_specific": 0, "na": 1}[o.get("ion", "non_specific")]
        return "(SetProp ChannelDens %s %s %s)" % (coq_z(100 * o["k"] + 10 * ion + o["erev"]), q_bool(nmlid(g)), q_s(g))
    if k == "prop":
        o = dict(o, group=o["group"] if o["group"] is not None else "all")
        # valid = the whole component (value string and segmentGroup attribute) meets its facets
        return "(SetProp %s %s %s %s)" % (o["kind"], coq_z(o["v"]), q_bool(o["v"] < 100 and nmlid(o["group"])), q_s(o["group"]))
    raise ValueError(k)


ERR = {"DupId": "BDupId", "NoParent": "BNoParent", "Validation": "BValidation", "NoSegType": "BNoSegType",
       "BadSegType": "BBadSegType", "NoSuchGroup": "BNoSuchGroup", "NoGroup": "BNoGroup", "Index": "BIndex",
       "Recursion": "BRecursion"}


class Interner:
    """repeated sub-terms (strings, segments, groups, whole states) become top-level Definitions:
    parsing a string literal costs ~9 constructor nodes per character, and every recorded state
    repeats almost all of the previous one"""

    def __init__(self):
        self.names = {}
        self.defs = []

    TYPES = {"ls": "list oseg", "lg": "list group", "lp": "list (pkind * Z * string)", "o": "xobj", "lo": "list xobj"}

    def ref(self, term, prefix):
        key = prefix + term
        nm = self.names.get(key)
        if nm is None:
            nm = "%s%d" % (prefix, len(self.names))
            self.names[key] = nm
            ty = self.TYPES.get(prefix)
            self.defs.append("Definition %s%s := %s." % (nm, " : " + ty if ty else "", term))
        return nm


INT = Interner()


def q_s(s):
    return INT.ref(coq_str(s), "s")


def q_group(g):
    gid = g["id"] if g["id"] is not None else ""
    return INT.ref("(mkGroup %s %s %s %s)" % (q_s(gid), coq_list([coq_z(m) for m in g["members"]]),
                                              coq_list([q_s(i) for i in g["includes"]]), coq_opt(g["nlex"], q_s)), "g")


def q_state(st):
    segs = []
    for sid, par, fr, prox, name in st["segs"]:
        if par is None:
            p = "None"
        elif isinstance(fr, int):
            p = "(Some (%s, %s))" % (coq_z(par), coq_z(fr))
        else:
            p = "(Some (%s, %s))" % (coq_z(par), coq_z(-999))  # a fraction the model cannot produce
        if not isinstance(sid, int):
            sid = -999999
        segs.append(INT.ref("(mkOSeg %s %s %s %s)" % (coq_z(sid), p, q_bool(prox), q_s(name if name is not None else "<None>")), "e"))
    props = []
    for k in KINDS:
        for v, g in st["props"][k]:
            props.append(INT.ref("(%s, %s, %s)" % (k, coq_z(v), q_s(g)), "p"))
    return "(OState %s %s %s)" % (INT.ref(coq_list(segs), "ls"), INT.ref(coq_list([q_group(g) for g in st["groups"]]), "lg"),
                                  INT.ref(coq_list(props), "lp"))


def q_step(t):
    if "err" in t:
        e = ERR.get(t["err"])
        return "(OErr %s)" % e if e else "OOtherErr"
    return q_state(t["state"])


def q_final(f):
    if f is None:
        return "ONoFinal"
    if "err" in f:
        e = ERR.get(f["err"])
        return "(OFinal %s false false)" % ("(OErr %s)" % e if e else "OOtherErr")
    return "(OFinal %s %s %s)" % (q_state(f["state"]), q_bool(f["validate"]), q_bool(f["xsd"]))


def q_case(c, r):
    probes = (r["final"] or {}).get("probes") or []
    return "(mkCase15 %s %s %s %s %s %s)" % (
        q_bool(c["init"] == "factory"), coq_list([q_op(o) for o in c["ops"]]),
        coq_list([q_step(t) for t in r["trace"]]), q_final(r["final"]),
        coq_list([coq_z(z) for z, _ in probes]),
        coq_list(["(OErr %s)" % ERR[o["err"]] if o.get("err") in ERR else "OOtherErr" for _, o in probes]))


HEADER = ("From Coq Require Import String List ZArith Bool.\nFrom LNML Require Import Model.Groups Model.Builder.\n"
          "Import ListNotations.\nOpen Scope string_scope.\n")


def cases_v(cases, results):
    global INT
    INT = Interner()
    body = ";\n  ".join(q_case(c, r) for c, r in zip(cases, results))
    return (HEADER + "\n".join(INT.defs) + "\nDefinition cases : list c15_case := [\n  " + body + "\n].\n"
            "Eval vm_compute in (mismatches15 true cases).\n"
            "Eval vm_compute in (mismatches15 false cases).\n"
            "Eval vm_compute in (model_counterexamples true cases).\n")


# ---- component trees (Model/BuilderTree.v)
def t_val(v):
    if v is None:
        return "VNone"
    if "s" in v:
        return "(VStr %s)" % q_s(v["s"])
    if "i" in v:
        return "(VInt %s)" % coq_z(v["i"])
    if "f" in v:
        m, e = dec_of(v["f"])
        return "(VFlt (%s, %d%%nat))" % (coq_z(m), e)
    if "o" in v:
        return "(VObj %s)" % t_obj(v["o"])
    if "l" in v:
        return "(VObjs %s)" % INT.ref(coq_list([t_obj(x) for x in v["l"]]), "lo")
    raise ValueError("raw content in a builder cell")


def t_obj(d):
    if d["cls"] == "SegmentGroup":
        # members / includes in canonical order (compared as multisets, see BuilderTree.canon_group)
        d = dict(d, fields=[[n, {"l": sorted(v["l"], key=lambda x: x["fields"][1][1].get("i", 0) if n == "members"
                                              else x["fields"][1][1].get("s", ""))}
                             if n in ("members", "includes") and v and "l" in v else v] for n, v in d["fields"]])
    return INT.ref("(Obj %s %s)" % (q_s(d["cls"]), coq_list(["(%s, %s)" % (q_s(n), t_val(v)) for n, v in d["fields"]])), "o")


def tree_eligible(c):
    """the tree comparison covers sequences without a reload (an empty container is not written to the file) and in
    which the default groups are the builder's own (their notes)"""
    for o in c["ops"]:
        if o["op"] == "reload" or o.get("pt"):
            return False
        if o["op"] in ("group", "ugroup") and o["id"] in DEFAULT_NAMES:
            return False
        if o["op"] in ("seg", "unbranched") and o.get("group") in DEFAULT_NAMES:
            return False
    return True


def trees_v(items):
    global INT
    INT = Interner()
    terms = []
    for c, r in items:
        mid, bid = INIT_IDS[c["init"]]
        terms.append("(mkTreeCase %s %s %s %s %s)" % (q_bool(c["init"] == "factory"), coq_list([q_op(o) for o in c["ops"]]),
                                                      q_s(mid), q_s(bid), t_obj(r["final"]["tree"])))
    head = HEADER.replace("Model.Groups Model.Builder.", "Lib.Dec Model.Gds Model.GdsExec Model.Groups Model.Builder Model.BuilderTree.")
    return (head + "\n".join(INT.defs) + "\nDefinition trees : list tree_case := [\n  " + ";\n  ".join(terms) + "\n].\n"
            "Eval vm_compute in (tree_mismatches trees).\n")


def parse_idx(s):
    s = s.strip()
    if s in ("[]", "nil"):
        return []
    return [int(x.replace("%nat", "")) for x in s.strip("[]").split(";") if x.strip()]


# ------------------------------------------------------- the property on the implementation
def nmlid(s):
    import re
    return isinstance(s, str) and re.match(r"^[a-zA-Z_][a-zA-Z0-9_]*$", s) is not None


def bookkeeping(case, res):
    """per added segment (in document order): (conv, type, group) as THIS FILE knows it from the
    operations that returned, using the segment counts the implementation reports"""
    tags = []
    prev = 0
    for o, t in zip(case["ops"], res["trace"]):
        if "state" not in t:
            break
        now = len(t["state"]["segs"])
        if o["op"] in ("seg", "unbranched"):
            g = o["group"] if o["group"] else None
            for _ in range(now - prev):
                tags.append((bool(o["conv"]), o["ty"] if o["conv"] else None, g))
        prev = now
    return tags


def discipline(tags, case):
    """wide reading of 'one group id - one role': a user group id always with the same
    (use_convention, seg_type); a default type group only for its own type; 'all' only with the convention"""
    roles = {}
    for conv, ty, g in tags:
        if g is None:
            continue
        if g in DEFAULT_NAMES:
            # soma_group/axon_group/dendrite_group carry their type by name; 'all' carries none
            if not conv or (g != "all" and DEFAULTS.get(ty) != g):
                return False, KNOWN_KEY
            continue
        if g in roles and roles[g] != (conv, ty):
            return False, KNOWN_KEY
        roles[g] = (conv, ty)
    return True, None


def expected_error(o, before):
    """what THIS FILE expects a single add_segment / set_* call to raise (None = it must return)"""
    if o["op"] == "seg":
        if o["parent"] is None and before:
            return "NoParent"
        if o["parent"] is not None and not (0 <= o["frac"] <= 4):
            return "Validation"
        if o["seg_id"] is not None and o["seg_id"] in before:
            return "DupId"
        if o["conv"] and not o["ty"]:
            return "NoSegType"
        if o["conv"] and o["ty"] not in DEFAULTS:
            return "BadSegType"
        return None
    if o["op"] == "prop":
        return None if (o["v"] < 100 and nmlid(o["group"] or "all")) or o["kind"] != "Resistivity" else "Validation"
    if o["op"] in ("chan", "reload"):
        return None
    return "?"


def predicate(case, res):
    bad = []
    trace = res["trace"]
    before = []
    for o, t in zip(case["ops"], trace):
        want = expected_error(o, before)
        if want is None and "err" in t and t["err"] != "Recursion":
            bad.append(("C15:legal-call-raises", "a call with legal arguments raised %s: %s" % (t["err"], json.dumps(o)[:200]),
                        "returns", t["err"]))
        if "state" in t:
            before = [s[0] for s in t["state"]["segs"]]
    # frame: a property setter / a reload changes nothing of the morphology; add_segment keeps every earlier segment
    prev = None
    for o, t in zip(case["ops"], trace):
        if "state" not in t:
            break
        cur = t["state"]
        if prev is not None:
            if o["op"] in ("prop", "chan", "reload") and (cur["segs"] != prev["segs"] or cur["groups"] != prev["groups"]):
                bad.append(("C15:setter-changes-morphology", "%s changed the segments / segment groups of the cell" % json.dumps(o)[:160],
                            {"segs": len(prev["segs"]), "groups": [g["id"] for g in prev["groups"]]},
                            {"segs": len(cur["segs"]), "groups": [g["id"] for g in cur["groups"]]}))
            if o["op"] in ("seg", "unbranched", "group", "ugroup") and cur["segs"][:len(prev["segs"])] != prev["segs"]:
                bad.append(("C15:earlier-segments-lost", "%s lost or changed earlier segments" % json.dumps(o)[:160],
                            len(prev["segs"]), len(cur["segs"])))
            if o["op"] in ("seg", "unbranched", "group", "ugroup", "reorder", "optimise", "reload") and cur["props"] != prev["props"]:
                bad.append(("C15:earlier-properties-lost", "%s changed the biophysical properties" % json.dumps(o)[:160],
                            prev["props"], cur["props"]))
        prev = cur
    for z, o in ((res["final"] or {}).get("probes") or []):
        if o.get("err") != "DupId":
            bad.append(("C15:explicit-id-in-use-not-refused:id-0" if z == 0 else "C15:duplicate-explicit-segment-id-accepted",
                        "add_segment(seg_id=%d) on the finished cell, where that id is in use, did not raise ValueError" % z,
                        "ValueError", o.get("err", "returned normally")))
    # explicit id in use must be refused
    before = []
    for o, t in zip(case["ops"], trace):
        if o["op"] == "seg" and o["seg_id"] is not None and o["seg_id"] in before:
            early = (o["parent"] is None and before) or not (0 <= o["frac"] <= 4)
            if t.get("err") != "DupId" and not early:
                bad.append(("C15:explicit-id-in-use-not-refused:id-0" if o["seg_id"] == 0 else "C15:duplicate-explicit-segment-id-accepted",
                            "add_segment(seg_id=%d) with that id in use did not raise ValueError" % o["seg_id"],
                            "ValueError", t.get("err", "returned normally")))
        if o["op"] == "seg" and o["seg_id"] is not None and o["seg_id"] not in before and "state" in t \
                and len(t["state"]["segs"]) == len(before) + 1 and t["state"]["segs"][-1][0] != o["seg_id"]:
            bad.append(("C15:explicit-free-id-not-honoured", "add_segment(seg_id=%d), an id not in use, stored the segment under id %r"
                        % (o["seg_id"], t["state"]["segs"][-1][0]), o["seg_id"], t["state"]["segs"][-1][0]))
        if "state" in t:
            before = [s[0] for s in t["state"]["segs"]]
            for g in t["state"]["groups"]:
                if g["id"] in g["includes"]:
                    bad.append(("C15:group-includes-itself", "group %r includes itself after %s" % (g["id"], json.dumps(o)[:120]),
                                "no self include", g["includes"]))
        if t.get("err") == "Recursion":
            k = len(trace)
            part = {"trace": trace[:k - 1] + [{"state": {"segs": [[None] * 5] * (len(before) + 1)}}]}
            tg = bookkeeping({"ops": case["ops"][:k]}, part)
            okd, dk = discipline(tg, case)
            bad.append(("C15:builder-call-recursion-error" if okd else dk, "a builder call raised RecursionError",
                        "returns", "RecursionError"))
        if "state" in t:
            before = [s[0] for s in t["state"]["segs"]]
    fin = res["final"]
    if fin is None:
        return bad
    tags = bookkeeping(case, res)
    disciplined, dkey = discipline(tags, case)
    if "err" in fin:
        key = "C15:closing-step-raises" if disciplined else dkey
        bad.append((key, "reorder/optimise at the end raised %s" % fin["err"], "returns", fin["err"]))
        return bad
    st = fin["state"]
    ids = [s[0] for s in st["segs"]]
    if fin.get("new_attributes"):
        bad.append(("C15:builder-leaves-state-on-cell", "the builder calls left new attribute(s) %s on the cell" % fin["new_attributes"],
                    "no new attribute", fin["new_attributes"]))
    if len(set(ids)) != len(ids):
        dup = sorted(x for x in set(ids) if ids.count(x) > 1)
        explicit = [o["seg_id"] for o in case["ops"] if o["op"] == "seg" and o["seg_id"] is not None]
        key = ("C15:duplicate-explicit-segment-id-accepted" if all(explicit.count(d) >= 2 for d in dup)
               else "C15:automatic-id-collides-with-explicit-id")
        bad.append((key, "segment ids are not unique: %s" % dup, "unique ids", ids))
    for sid, par, fr, prox, name in st["segs"]:
        if par is not None and par not in ids:
            bad.append(("C15:parent-missing", "parent %r of segment %r does not exist" % (par, sid), "parent in cell", ids))
    gids = [g["id"] for g in st["groups"]]
    if len(tags) == len(ids):
        conv_ids = set(i for i, (c, ty, g) in zip(ids, tags) if c)
        want = {"all": conv_ids if "all" in gids else set(ids)}
        for ty, gname in DEFAULTS.items():
            want[gname] = set(i for i, (c, t, g) in zip(ids, tags) if c and t == ty)
        for gname, w in want.items():
            got = fin["resolved"][gname]
            if gname != "all" and gname not in gids:
                if w:
                    bad.append(("C15:default-group-missing", "%s does not exist but segments of that type do" % gname, sorted(w), got))
                continue
            ok = isinstance(got, list) and set(got) == w and len(set(got)) == len(got)
            if not ok:
                key = ("C15:all-group-wrong" if gname == "all" else "C15:default-group-wrong") if disciplined else dkey
                bad.append((key, "group %r resolves to %s, the segments added with that type are %s" % (gname, got, sorted(w)),
                            sorted(w), got))
    for g in st["groups"]:
        if len(set(g["members"])) != len(g["members"]) or len(set(g["includes"])) != len(g["includes"]):
            bad.append(("C15:closing-optimise-leaves-duplicates", "group %r still has a duplicate member/include after the closing "
                        "optimise step" % g["id"], "no duplicate", {"members": g["members"], "includes": g["includes"]}))
    seen = set()
    for g in st["groups"]:
        for i in g["includes"]:
            if i not in seen:
                key = "C15:group-order" if disciplined else dkey
                bad.append((key, "group %r includes %r which is not defined before it" % (g["id"], i), "defined before", gids))
        seen.add(g["id"])
    # validity when the basic properties were given and every input meets the schema facets
    # "given its basic biophysical properties": judged by the setter CALLS that returned, not by the cell
    called = [dict(o, group=o["group"] or "all", v=o.get("v", 0), kind=o.get("kind", "ChannelDens"))
              for o, t in zip(case["ops"], trace) if o["op"] in ("prop", "chan") and "state" in t]
    added = [o for o, t in zip(case["ops"], trace) if o["op"] in ("seg", "unbranched") and "state" in t]
    facets = (len(ids) >= 1 and all(isinstance(i, int) and i >= 0 for i in ids)
              and all((o["seg_id"] or 0) >= 0 for o in added if o["op"] == "seg")
              and all(nmlid(g["id"]) for g in st["groups"])
              and all(o["v"] < 100 and nmlid(o["group"]) for o in called)
              and all(nmlid(o.get("ion", "x")) for o in called)
              and all(any(o["kind"] == k for o in called) for k in SET_KINDS[:3]))
    if facets and not (fin["validate"] and fin["xsd"]):
        bad.append(("C15:invalid-cell", "the cell has its basic properties but validate=%s, xsd=%s: %s %s"
                    % (fin["validate"], fin["xsd"], fin.get("validate_msg", ""), fin.get("xsd_msg", "")),
                    "valid", {"validate": fin["validate"], "xsd": fin["xsd"]}))
    return bad


# ----------------------------------------------------------------------------- shrinking
def shrink(ck, case, key, deadline):
    import time
    cur = {"init": case["init"], "ops": list(case["ops"])}
    for _ in range(30):
        if time.time() > deadline or len(cur["ops"]) <= 2:
            break
        r0 = ck.impl("c15_impl.py", {"cases": [cur]}, timeout=120)["results"][0]
        counts = []
        prev = 0
        for t in r0["trace"]:
            now = len(t["state"]["segs"]) if "state" in t else prev
            counts.append(now - prev)
            prev = now
        counts += [0] * (len(cur["ops"]) - len(counts))
        cands = []
        for j in range(len(cur["ops"])):
            first = sum(counts[:j])
            k = counts[j]
            ops = []
            okc = True
            for i, o in enumerate(cur["ops"]):
                if i == j:
                    continue
                o = dict(o)
                if i > j and o.get("parent") is not None:
                    p = o["parent"]
                    if first <= p < first + k:
                        p = first - 1
                    elif p >= first + k:
                        p -= k
                    if p < 0:
                        okc = False
                    o["parent"] = p
                ops.append(o)
            if okc:
                cands.append({"init": cur["init"], "ops": ops})
        if not cands:
            break
        rs = ck.impl("c15_impl.py", {"cases": cands}, timeout=300)["results"]
        nxt = None
        for c, r in zip(cands, rs):
            if any(b[0] == key for b in predicate(c, r)):
                nxt = c
                break
        if nxt is None:
            break
        cur = nxt
    return cur


# ------------------------------------------------------------- signatures (fail closed)
def signature_check(ck):
    """the model and the generator assume the parameter lists and documented defaults in SIGNATURES (an argument
    equal to its default may be left out); they are re-read from class Cell in nml.py on every run"""
    path = os.path.join(REPO, "neuroml", "nml", "nml.py")
    try:
        tree = ast.parse(open(path).read())
    except Exception as e:  # noqa
        ck.oblige("source:nml.py:parses", False, str(e), kind="source")
        return
    defs = {}
    for node in tree.body:
        if isinstance(node, ast.ClassDef) and node.name == "Cell":
            for n in node.body:
                if isinstance(n, ast.FunctionDef):
                    defs[n.name] = n
    for name, want in SIGNATURES.items():
        fn = defs.get(name)
        got = ast.unparse(fn.args) if fn is not None else "<method not found>"
        norm = ast.unparse(ast.parse("def f(%s): pass" % want).body[0].args)
        ck.oblige("source:Cell.%s:signature_and_defaults" % name, got == norm,
                  "assumed (%s), found (%s)" % (norm, got), kind="source")


# ----------------------------------------------------------------------------- run
def run(ck):
    ck.rule = ("one evaluation = one generated operation sequence run on the real builder with the cell recorded after "
               "every call, then the closing reorder+optimise, validate(recursive=True) and the XSD check of the written "
               "file; the kernel compares every recorded state with the model and the C15 predicate is evaluated on the "
               "implementation's answers; non-trivial = a sequence with at least 3 segments, a user group and a default "
               "group include; distinct by the multiset of (operation kind, group role, flags)")
    ck.trusted = ["Coq 8.16.1 kernel + vm_compute (no native_compute)",
                  "hand-written model coq/Model/Builder.v (+ Groups.v) of the builder methods, tied to the code by the "
                  "per-run correspondence after EVERY operation (this file + impl/c15_impl.py)",
                  "natsort.natsorted modelled by the insertion sorts of Groups.v (compared on every case)",
                  "lxml/libxml2 XMLSchema with the bundled NeuroML_<current>.xsd as the schema oracle",
                  "geometry and Point3DWithDiam validation are outside the model (the harness always passes valid points)"]
    ck.assumptions = ["one group id - one role (hypothesis op_ok of the theorem, forced by the proof: C15_mixed_type_refuted): a "
                      "user group id is always used with the same (use_convention, seg_type), soma_group/axon_group/"
                      "dendrite_group as group_id only with their own type, 'all' only under the convention; the same "
                      "discipline is computed independently by the witness search; sequences outside it are compared, and "
                      "judged under the known-finding key",
                      "validity clause: the model's valid_cell predicts the validate()/XSD verdicts (compared on every "
                      "sequence); the link to the schema itself is C02's, not proved here (C15_valid_partial)",
                      "explicit segment ids are positive integers; property values come from a fixed table of valid/invalid strings"]
    ck.gate_static()
    signature_check(ck)

    n = ck.n(380, 7200)
    cases = [dict(c) for c in CORPUS]
    while len(cases) < n:
        cases.append(gen_case(ck.rng, long=(ck.rng.random() < 0.15)))
    # ---- the binding / schema / validation tables of this run (the functions C02 uses): the field order of the component
    #      classes for the tree dump, and Gen_*.v for Props/C15.v
    tab = bindings.translate(ck)
    tree_order = None
    tables_ok = False
    if tab is not None:
        schemagen.runtime_tie(ck, tab)
        mode = schemagen.validate_mode(ck)
        Sx = schemagen.translate_schema(ck)
        if Sx is not None:
            from concurrent.futures import ThreadPoolExecutor
            with ThreadPoolExecutor(3) as ex:      # three independent coqc runs
                futs = [ex.submit(schemagen.gen_validate, ck, tab, mode), ex.submit(schemagen.gen_schema, ck, Sx),
                        ex.submit(bindings.gen_bindings, ck, tab)]
                tables_ok = all(bool(f.result()) for f in futs)
        TT = bindings.Tables(tab)
        tree_order = {k: TT.field_order(k) for k in TREE_CLASSES if k in TT.C}
    # instance obligations: what Proofs/BuilderTreeP.v assumes about the 16 classes / simple types holds of these tables
    inst_ok = False
    if tables_ok:
        inst = ck.gen_v("Inst_C15.v", open(os.path.join(os.path.dirname(os.path.abspath(__file__)), "c15_inst.v")).read())
        inst_ok, _ = ck.compile_obligations(inst, kind="instance", timeout=900)
    ntree = 0
    for i, c in enumerate(cases):
        if tree_order and tree_eligible(c) and (c["kind"].startswith("corpus") or i % ck.n(4, 3) == 0):
            c["tree"] = True
    payload = [{"init": c["init"], "ops": c["ops"], "tree": bool(c.get("tree"))} for c in cases]
    results = []
    for k in range(0, len(payload), 600):
        results += ck.impl("c15_impl.py", {"cases": payload[k:k + 600], "tree_order": tree_order}, timeout=900)["results"]

    # ---- environment: the fixed sequences again under python -O, another hash seed, another working directory
    def canon_state(st):
        return {"segs": st["segs"], "props": st["props"],
                "groups": [(g["id"], sorted(g["members"]), sorted(g["includes"]), g["nlex"]) for g in st["groups"]]}

    def canon_run(r):
        tr = [canon_state(t["state"]) if "state" in t else t for t in r["trace"]]
        f = r["final"]
        if f and "state" in f:
            f = {"state": canon_state(f["state"]), "validate": f.get("validate"), "xsd": f.get("xsd"), "probes": f.get("probes"),
                 "resolved": {k: (sorted(v) if isinstance(v, list) else v) for k, v in f.get("resolved", {}).items()}}
        return {"trace": tr, "final": f}
    env_cases = [dict(p, tree=False) for p in payload[:len(CORPUS)]]
    for label, kw in (("python -O", {"pyflags": ["-O"]}), ("PYTHONHASHSEED=3", {"extra_env": {"PYTHONHASHSEED": "3"}}),
                      ("cwd=/", {"cwd": "/"})):
        try:
            er = ck.impl("c15_impl.py", {"cases": env_cases}, timeout=300, **kw)["results"]
        except Exception as e:  # noqa
            ck.oblige("environment:%s:runs" % label, False, str(e)[-800:], kind="correspondence")
            continue
        diff = [i for i, (a, b) in enumerate(zip(results[:len(env_cases)], er)) if canon_run(a) != canon_run(b)]
        ck.oblige("environment:%s:same-answers-as-default-run" % label, not diff, "differing corpus sequences: %s" % diff,
                  kind="correspondence")
        for i in diff[:1]:
            ck.witness("C15:answers-depend-on-environment:" + label, "the same call sequence gives another cell under %s" % label,
                       input=dict(env_cases[i], environment=label), expected="as in the default run",
                       observed=canon_run(er[i])["final"])

    any_bad = False
    v0 = True
    chunk = 240
    # all generated files are compiled side by side
    titems = [(c, r) for c, r in zip(cases, results) if r["final"] and isinstance(r["final"].get("tree"), dict)
              and "cls" in r["final"]["tree"]]
    jobs = [("Cases_C15_%d.v" % (k // chunk), cases_v(cases[k:k + chunk], results[k:k + chunk])) for k in range(0, len(cases), chunk)]
    tree_err = {}
    for k in range(0, len(titems), 150):
        try:
            jobs.append(("Trees_C15_%d.v" % (k // 150), trees_v(titems[k:k + 150])))
        except ValueError as e:
            tree_err[k] = str(e)
    from concurrent.futures import ThreadPoolExecutor
    with ThreadPoolExecutor(6) as ex:
        evals = dict(zip([j[0] for j in jobs], ex.map(lambda j: ck.coq_eval(j[0], j[1], timeout=900), jobs)))
    for k in range(0, len(cases), chunk):
        cs, rs = cases[k:k + chunk], results[k:k + chunk]
        ok, res, out = evals["Cases_C15_%d.v" % (k // chunk)]
        good = ok and len(res) == 3 and parse_idx(res[0]) == []
        ck.oblige("Cases_C15_%d.v:model_agrees_with_implementation" % (k // chunk), good,
                  detail=(out[-1500:] if not ok else "differing case indices: %s" % (res[0] if res else "none")),
                  kind="correspondence")
        if ok and len(res) == 3:
            ck.oblige("Cases_C15_%d.v:model_satisfies_theorem_on_cases" % (k // chunk), parse_idx(res[2]) == [],
                      detail="op_ok sequences whose model result is not wellformed: %s" % res[2], kind="correspondence")
            if parse_idx(res[1]) != []:
                v0 = False
            for i in parse_idx(res[0])[:10]:
                any_bad = True
                ck.disagree("Builder.step/finish", {"init": cs[i]["init"], "ops": cs[i]["ops"]},
                            "see model (bin/check C15 --replay)", {"trace_tail": rs[i]["trace"][-1:], "final": rs[i]["final"]},
                            note="case %d of Cases_C15_%d.v" % (i, k // chunk))
        else:
            v0 = False
    ck.extra["implementation_matches_prefix_model_v0"] = bool(v0 and any_bad)

    # ---- the finished real cell as a component tree = cell_tree of the model's final state
    for k in range(0, len(titems), 150):
        chunk_t = titems[k:k + 150]
        if k in tree_err:
            ck.oblige("Trees_C15_%d.v:cell_tree_equals_dumped_cell" % (k // 150), False, tree_err[k], kind="correspondence")
            continue
        ok, res, out = evals["Trees_C15_%d.v" % (k // 150)]
        good = ok and len(res) == 1 and parse_idx(res[0]) == []
        ck.oblige("Trees_C15_%d.v:cell_tree_equals_dumped_cell" % (k // 150), good,
                  detail=(out[-1500:] if not ok else "differing tree indices: %s" % (res[0] if res else "none")), kind="correspondence")
        if ok and len(res) == 1:
            for i in parse_idx(res[0])[:5]:
                any_bad = True
                ck.disagree("BuilderTree.cell_tree", {"init": chunk_t[i][0]["init"], "ops": chunk_t[i][0]["ops"]},
                            "see model", {"tree": "differs"}, note="tree %d of Trees_C15_%d.v" % (i, k // 150))
    ck.extra["component_trees_compared"] = len(titems)

    if inst_ok:
        ck.compile_props()
    else:
        ck.oblige("Props_C15.v:not-compiled", False, "the tables of this run / Inst_C15.v are not available", kind="theorem")

    seen = {}
    for c, r in zip(cases, results):
        ck.tally(c["kind"])
        for o in c["ops"]:
            ck.tally("op:" + o["op"])
        errs = [t["err"] for t in r["trace"] if "err" in t]
        for e in errs:
            ck.tally("raised:" + e.split(":")[0])
        nseg = len(r["final"]["state"]["segs"]) if r["final"] and "state" in r["final"] else 0
        nontriv = None
        if r["final"] and "state" in r["final"]:
            gs = r["final"]["state"]["groups"]
            if nseg >= 3 and any(g["includes"] for g in gs) and any(g["id"] not in DEFAULT_NAMES for g in gs):
                sig = sorted((o["op"], bool(o.get("group")), bool(o.get("conv")), str(o.get("ty")), bool(o.get("reorder")), bool(o.get("optimise")))
                             for o in c["ops"] if o["op"] in ("seg", "unbranched"))
                nontriv = json.dumps(sig)
            ck.tally("final:valid" if r["final"].get("validate") and r["final"].get("xsd") else "final:invalid")
        ck.count(1, nontrivial_key=nontriv,
                 sample={"ops": c["ops"][:6], "final_groups": r["final"]["state"]["groups"]} if nontriv else None)
        for key, what, exp, obs in predicate(c, r):
            if key not in seen:
                seen[key] = (c, what, exp, obs)
    import time
    deadline = time.time() + ck.n(25, 150)   # shrinking is a convenience: bounded
    for key, (c, what, exp, obs) in seen.items():
        small = {"init": c["init"], "ops": c["ops"]}
        try:
            small = shrink(ck, c, key, deadline)
            r = ck.impl("c15_impl.py", {"cases": [small]}, timeout=120)["results"][0]
            hit = [b for b in predicate(small, r) if b[0] == key]
            if hit:
                _, what, exp, obs = hit[0]
            else:
                small = {"init": c["init"], "ops": c["ops"]}
        except Exception:  # shrinking is best effort
            small = {"init": c["init"], "ops": c["ops"]}
        ck.witness(key, what, input=small, expected=exp, observed=obs,
                   broken="Cases_C15:model_agrees_with_implementation" if any_bad else None)


def replay(ck, data):
    case = data.get("input") or (data.get("disagreements") or [{}])[0].get("input")
    if not case:
        print(json.dumps(data, indent=1)[:4000])
        return 0
    r = ck.impl("c15_impl.py", {"cases": [case]}, timeout=120)["results"][0]
    global INT
    INT = Interner()
    kterm = q_case(case, r)
    ok, res, out = ck.coq_eval("Replay_C15.v", HEADER + "\n".join(INT.defs) + "\nDefinition k := %s.\n" % kterm +
                               "Eval vm_compute in (trace true (k_ops k) (init_of (k_factory k))).\n"
                               "Eval vm_compute in (model_final true (k_ops k) (init_of (k_factory k))).\n"
                               "Eval vm_compute in (case15_ok true k).\n")
    bad = predicate(case, r)
    print(json.dumps({"input": case, "implementation": {"trace_tail": r["trace"][-2:], "final": r["final"]}, "model": res,
                      "property_violations": [{"key": b[0], "what": b[1], "expected": b[2], "observed": b[3]} for b in bad]},
                     indent=1, default=str)[:10000])
    return 1 if bad else 0
