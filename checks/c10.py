"""C10 — add() stores a child under exactly the right member, or raises changing nothing.  See design_notes/C10.md

tie:  tr_bindings -> Gen_Bindings.v (constructors), lib/supergen -> Gen_Members.v (MemberSpec_ tables), Inst_C10.v
      (instance obligations of the generic theorems), and a correspondence run of the REAL add() against
      Model/Super.v (add_with, repaired variant) diffed inside Coq; the property itself is evaluated on the real
      code with the XSD (translators/tr_schema_members.py) as the oracle for "the member the schema declares".
"""
import json
import os
import re
import subprocess
from concurrent.futures import ThreadPoolExecutor

from lib import bindings, gdsgen, supergen
from lib.vcommon import PY, VERIF, coq_list, coq_opt, coq_str, impl_env

HEADER = ("From Coq Require Import String List ZArith Bool.\nFrom LNML Require Import Lib.Dec Model.Gds Model.Super.\n"
          "From Run Require Import Gen_Bindings Gen_Members.\nImport ListNotations.\nOpen Scope string_scope.\n")

INST = HEADER + """
(* instance obligations of the generic C10 theorems on the tables regenerated from nml.py on this run *)
Fixpoint nodup_strs (l : list string) : bool :=
  match l with [] => true | x :: r => negb (mem x r) && nodup_strs r end.

(* every class: the inheritance chain ends (no class is its own ancestor) and all supers exist *)
Lemma chains_ok :
  forallb (fun k => nodup_strs (map mc_name (mro (mfuel Gen_Members.M) Gen_Members.M (mc_name k)))
                    && match mc_super (last (mro (mfuel Gen_Members.M) Gen_Members.M (mc_name k)) k) with None => true | Some _ => false end)
          Gen_Members.M = true.
Proof. vm_compute. reflexivity. Qed.

(* member names are unique per class, inherited ones included: the order of _get_members cannot matter *)
Lemma member_names_unique :
  forallb (fun k => nodup_strs (map ms_name (members_set Gen_Members.M (mc_name k)))) Gen_Members.M = true.
Proof. vm_compute. reflexivity. Qed.

(* class names are unique and the constructor tables describe the same classes with the same supers *)
Lemma same_classes :
  nodup_strs (map mc_name Gen_Members.M)
  && strs_eqb (map mc_name Gen_Members.M) (map c_name Gen_Bindings.T)
  && forallb (fun kc => match mc_super (fst kc), c_super (snd kc) with
                        | Some a, Some b => String.eqb a b | None, None => true | _, _ => false end)
             (combine Gen_Members.M Gen_Bindings.T) = true.
Proof. vm_compute. reflexivity. Qed.

(* the value equality add() uses for its duplicate test (GeneratedsSuper.__eq__, translated by tr_eq.py) leaves out
   exactly the two bookkeeping attributes, hence no member attribute of any class: it is the model's obj_eqb *)
Lemma eq_excluded_exact : set_eqb Gen_Members.eq_excluded ["parent_object_"; "gds_collector_"] = true.
Proof. vm_compute. reflexivity. Qed.

Lemma eq_sees_members : eq_sees_all_members Gen_Members.eq_excluded Gen_Members.M = true.
Proof. vm_compute. reflexivity. Qed.

(* add() has the parameters the model gives it: (self, obj=None, hint=None, force=False, validate=True, **kwargs) *)
Lemma add_signature_ok : sig_eqb Gen_Members.add_signature modelled_add_signature = true.
Proof. vm_compute. reflexivity. Qed.

(* the loops of add() are the modelled ones; in particular the loop that compares the hint iterates the candidate list *)
Lemma hint_loop_over_candidates : hint_loop_okb Gen_Members.add_loops Gen_Members.hint_loops = true.
Proof. vm_compute. reflexivity. Qed.

(* nothing in the class configures the process-wide warnings / logging machinery *)
Lemma add_configures_nothing : configures_nothingb Gen_Members.state_calls = true.
Proof. vm_compute. reflexivity. Qed.

(* ... and the only test involving the hint is the equality `hint == t.get_name()` *)
Lemma hint_test_is_equality : hint_test_okb Gen_Members.hint_tests = true.
Proof. vm_compute. reflexivity. Qed.

(* methods that are read-only by their name write nothing on self (so __eq__, which compares the instance dictionaries, keeps
   agreeing with the model's equality on member fields) - apart from the ones listed as a known finding *)
Lemma read_only_helpers_write_nothing_new : readers_write_nothing_newb Gen_Members.reader_writes = true.
Proof. vm_compute. reflexivity. Qed.
"""

WRONG = "no_such_member_xyz"


def schema_translate(ck):
    out = os.path.join(ck.build, "schema_members.json")
    p = subprocess.run([PY, os.path.join(VERIF, "translators", "tr_schema_members.py"), out], capture_output=True,
                       text=True, env=impl_env(), timeout=300)
    if p.returncode != 0 or not os.path.exists(out):
        ck.oblige("translate:tr_schema_members", False, p.stderr[-2000:], kind="translate")
        return None
    S = json.load(open(out))
    ck.oblige("translate:tr_schema_members", not S["errors"], "; ".join(S["errors"][:20]), kind="translate")
    return S


class SchemaView:
    """the member (python name) the schema declares for a child type"""

    def __init__(self, S, mirror):
        self.sc = {c["name"]: c for c in S["classes"]}
        self.M = mirror
        self.cache = {}

    def candidates(self, parent, child):
        key = (parent, child)
        if key not in self.cache:
            py = {(x, a): p for p, x, a in self.M.pyxml(parent)}
            out = []
            for d in self.sc.get(parent, {"all": []})["all"]:
                if not d["is_attr"] and d["type"] == child and (d["xml"], False) in py:
                    out.append(py[(d["xml"], False)])
            self.cache[key] = out
        return self.cache[key]

    def children_of(self, parent):
        return sorted(set(d["type"] for d in self.sc.get(parent, {"all": []})["all"] if not d["is_attr"]))


# ------------------------------------------------------------------------------------------------ generator
def scalar_kw(gen, T, c, rng):
    """a few scalar constructor keywords of class c"""
    kw = []
    bas = {b_["py"]: b_ for b_ in T.bld_attrs(c)}
    for ea in T.exp_attrs(c):
        if rng.random() < 0.5:
            v = gen.attr_value(c, ea, bas.get(ea["py"]), True)
            if v != "OMIT":
                kw.append([ea["py"], v])
    return kw


def make_calls(ck, gen, T, mir, sv, parent, children, variants):
    """history of add calls on one parent: for every child class in `children` the hint/force variants, shuffled"""
    rng = ck.rng
    calls = []
    for c in children:
        ms_names = [m["name"] for m in mir.targets(parent, c)]
        cands = sorted(set(ms_names) | set(sv.candidates(parent, c)))
        if not cands:
            form = rng.random()
            if form < 0.8:
                calls.append({"child": {"kind": "obj", "tree": {"cls": c, "kw": []}}, "hint": rng.choice([None, None, WRONG]),
                              "force": rng.random() < 0.3, "validate": rng.random() < 0.3})
            else:
                calls.append({"child": {"kind": "cls", "cls": c, "kw": [], "form": rng.choice(["str", "class"])},
                              "hint": None, "force": False, "validate": False})
            continue
        near = rng.choice(cands)
        # near misses: a proper prefix / suffix / different case / extension of a candidate name
        hints = list(cands) + [None, WRONG, "", rng.choice([near[:-1], near[1:], near.upper(), near + "_", near.split("_")[-1]])]
        hints = [h for h in hints if h is None or h == "" or h in cands or all(h != c_ for c_ in cands)]
        combos = [(h, f) for h in hints for f in (False, True)]
        if variants is not None and len(combos) > variants:
            combos = rng.sample(combos, variants)
        for h, f in combos:
            k = rng.random()
            if k < 0.7:
                child = {"kind": "obj", "tree": gen.tree(c, rng.choice([0, 0, 1]))}
            else:
                child = {"kind": "cls", "cls": c, "kw": scalar_kw(gen, T, c, rng), "form": rng.choice(["str", "class"])}
            calls.append({"child": child, "hint": h, "force": f, "validate": rng.random() < 0.35})
        # duplicates: an equal copy and the very same object, unforced and forced
        t = gen.tree(c, 0)
        h = rng.choice(cands)
        calls.append({"child": {"kind": "obj", "tree": t}, "hint": h, "force": False, "validate": False, "mark": "first"})
        calls.append({"child": {"kind": "obj", "tree": t}, "hint": h, "force": False, "validate": False, "mark": "equal-copy"})
        calls.append({"child": {"kind": "same", "back": 2}, "hint": h, "force": rng.random() < 0.5, "validate": False,
                      "mark": "same-object"})
    # keep the (first, copy, same) triples together but shuffle everything else around them
    blocks, i = [], 0
    while i < len(calls):
        if calls[i].get("mark") == "first":
            blocks.append(calls[i:i + 3])
            i += 3
        else:
            blocks.append([calls[i]])
            i += 1
    if rng.random() < 0.3:
        blocks.append([{"child": {"kind": "falsy", "value": rng.choice([None, "", 0])}, "hint": None, "force": False,
                        "validate": False}])
    rng.shuffle(blocks)
    out = []
    for b_ in blocks:
        for c_ in b_:
            if c_["child"]["kind"] == "same":
                c_["child"] = {"kind": "same", "index": len(out) - 2}
            out.append(c_)
    return out


def one_member_variants(T, c):
    """a fully populated child of class c and, for each of its members in turn, a copy that differs in exactly that member"""
    base, alts = [], []
    bas = {b_["py"]: b_ for b_ in T.bld_attrs(c)}
    for ea in T.exp_attrs(c):
        n, kind = ea["py"], ea["kind"]
        if kind == "int":
            lo = 1 if (bas.get(n) or {}).get("range") == "pos" else 0
            base.append([n, {"i": lo + 1}])
            alts.append((n, {"i": lo + 2}))
        elif kind in ("float", "double"):
            base.append([n, {"f": "0.5"}])
            alts.append((n, {"f": "1.5"}))
        else:
            base.append([n, {"s": "v"}])
            alts.append((n, {"s": "w"}))
    bks = {b_["py"]: b_ for b_ in T.bld_kids(c)}
    for ek in T.exp_kids(c):
        n, b_ = ek["py"], bks.get(ek["py"])
        if ek["kind"] == "text":
            base.append([n, {"s": "t"}])
            alts.append((n, {"s": "u"}))
        elif ek["kind"] == "obj" and b_ and b_.get("cls") in T.C:
            alts.append((n, {"o": {"cls": b_["cls"], "kw": []}}))
        elif ek["kind"] == "objlist" and b_ and b_.get("cls") in T.C:
            alts.append((n, {"l": [{"cls": b_["cls"], "kw": []}]}))
    out = []
    for n, v in alts:
        kw = [[k, (v if k == n else x)] for k, x in base]
        if n not in [k for k, _ in base]:
            kw = kw + [[n, v]]
        out.append((n, {"cls": c, "kw": kw}))
    return {"cls": c, "kw": base}, out


def variant_cases(ck, T, mir, pairs):
    """for each (parent, list member, child class): base, every one-member variant (must be stored, no warning), then equal
    copies of the base and of a variant (must be refused with the duplicate warning)"""
    cases = []
    for p, member, c in pairs:
        base, variants = one_member_variants(T, c)
        hint = member if len(mir.targets(p, c)) > 1 else None
        calls = [{"child": {"kind": "obj", "tree": base}, "hint": hint, "force": False, "validate": False, "mark": "variant-base"}]
        for n, tree in variants:
            calls.append({"child": {"kind": "obj", "tree": tree}, "hint": hint, "force": False, "validate": False,
                          "mark": "differs-only-in:" + n})
        calls.append({"child": {"kind": "obj", "tree": base}, "hint": hint, "force": False, "validate": False, "mark": "equal-copy"})
        if variants:
            calls.append({"child": {"kind": "obj", "tree": variants[-1][1]}, "hint": hint, "force": False, "validate": False, "mark": "equal-copy"})
        for i in range(0, len(calls), 60):
            cases.append({"enabled": False, "parent": {"cls": p, "kw": []}, "calls": ([calls[0]] if i else []) + calls[i:i + 60]})
    return cases


def matrix_cases(T, mir):
    """fixed cases, independent of the random stream, run before the random ones.
    (a) every (parent, child type) with >= 2 candidate members (from the tables): {each candidate as hint} x {slot free,
        occupied} x {force False, True} (list members: equal child absent / present x force), and hint in {None, wrong, ""} x force;
    (b) for the first pairs with a unique single-valued / a unique list member: hint in {the member, None, wrong, ""} x force x
        {free, occupied} resp. {equal absent, present} -- all inside one history per parent, so after earlier adds."""
    cases = []

    def call(tree, hint, force, mark):
        return {"child": {"kind": "obj", "tree": tree}, "hint": hint, "force": force, "validate": False, "mark": mark}

    def two_children(c):
        base, variants = one_member_variants(T, c)
        other = variants[0][1] if variants else {"cls": c, "kw": []}
        return base, other

    def cells(member, container, hint, a, b):
        """the full slot x force matrix for one member, as two histories (unforced first / forced first)"""
        if not container:
            h1 = [call(a, hint, False, "matrix:free,unforced"), call(b, hint, False, "matrix:occupied,unforced"),
                  call(b, hint, True, "matrix:occupied,forced"), call(a, hint, False, "matrix:occupied,unforced")]
            h2 = [call(a, hint, True, "matrix:free,forced"), call(b, hint, True, "matrix:occupied,forced")]
        else:
            h1 = [call(a, hint, False, "matrix:absent,unforced"), call(a, hint, False, "matrix:equal-present,unforced"),
                  call(a, hint, True, "matrix:equal-present,forced"), call(b, hint, False, "matrix:absent,unforced")]
            h2 = [call(a, hint, True, "matrix:absent,forced"), call(b, hint, True, "matrix:absent,forced"),
                  call(b, hint, False, "matrix:equal-present,unforced")]
        return [h1, h2]

    several, single, lists = [], [], []
    for p in mir.order:
        by = {}
        for m in mir.members(p):
            if mir.dt(m) in T.C:
                by.setdefault(mir.dt(m), []).append(m)
        for c, ms in sorted(by.items()):
            if len(ms) >= 2:
                several.append((p, c, ms))
            elif ms[0]["container"]:
                lists.append((p, c, ms[0]))
            else:
                single.append((p, c, ms[0]))
    for p, c, ms in several:
        a, b = two_children(c)
        for m in ms:
            for h in cells(m["name"], m["container"], m["name"], a, b):
                cases.append({"enabled": False, "parent": {"cls": p, "kw": []}, "calls": h})
        bad = [call(a, h, f, "matrix:no-unique-member") for h in (None, WRONG, "", ms[0]["name"][:-1]) for f in (False, True)]
        # the refusals also after a successful add (state must survive them)
        cases.append({"enabled": False, "parent": {"cls": p, "kw": []},
                      "calls": bad[:4] + [call(a, ms[0]["name"], False, "matrix:free,unforced")] + bad[4:]})
    for p, c, m in single[:3] + lists[:3] + [x for x in lists if x[0] in ("NeuroMLDocument", "Network")][:2]:
        a, b = two_children(c)
        for hint in (m["name"], None, WRONG, ""):     # a unique member is chosen whatever the hint
            for h in cells(m["name"], m["container"], hint, a, b):
                cases.append({"enabled": False, "parent": {"cls": p, "kw": []}, "calls": h})
    return cases


def other_member_hint_cases(T, mir):
    """fixed, both tiers: for every (parent, child type) with >= 2 candidate members (8 pairs today) and every name of ANOTHER member
    of the parent (attributes and inherited members included, i.e. all of _get_members() minus the candidates) as hint, forced and
    unforced: add() must raise and leave the parent unchanged (C10_hint: the hint chooses among the candidates only).
    One history per hint, so a wrongly stored child cannot disturb the next call."""
    cases = []
    for p in mir.order:
        by = {}
        for m in mir.members(p):
            if mir.dt(m) in T.C:
                by.setdefault(mir.dt(m), []).append(m["name"])
        for c, cand in sorted(by.items()):
            if len(cand) < 2:
                continue
            base, _ = one_member_variants(T, c)
            others = []
            for m in mir.members(p):
                if m["name"] not in cand and m["name"] not in others:
                    others.append(m["name"])
            for h in others:
                calls = [{"child": {"kind": "obj", "tree": base}, "hint": h, "force": f, "validate": False,
                          "mark": "matrix:hint-names-another-member"} for f in (False, True)]
                calls.append({"child": {"kind": "cls", "cls": c, "kw": [], "form": "str"}, "hint": h, "force": False, "validate": False,
                              "mark": "matrix:hint-names-another-member"})
                cases.append({"enabled": False, "parent": {"cls": p, "kw": []}, "calls": calls})
    return cases


def list_member_sweep(T, mir):
    """fixed, both tiers: the first adds into EVERY list-valued child member of every class.  Which members are list-valued is taken
    from the export / build tables (how the writer and the parser treat the member: kind objlist), independently of the MemberSpec_
    container flag that add() consults; child class from the build table.  add(a): the member is still a list and holds a;
    add(b), a distinct child: appended; add(a) again: refused as a duplicate.  (A container flag flipped to 0 makes add() replace the
    list by the bare child.)"""
    cases = []
    for p in mir.order:
        for ek in mir.C[p].get("exp_kids", []):
            if ek["kind"] != "objlist":
                continue
            b = [x for x in T.bld_kids(p) if x["py"] == ek["py"]]
            c = b[0].get("cls") if b else None
            if c not in T.C:
                continue
            base, variants = one_member_variants(T, c)
            other = variants[0][1] if variants else None
            hint = ek["py"] if len(mir.targets(p, c)) > 1 else None
            calls = [{"child": {"kind": "obj", "tree": t}, "hint": hint, "force": False, "validate": False, "mark": "list-member-sweep:" + m}
                     for t, m in ((base, "first"), (other, "second-distinct"), (base, "equal-again")) if t is not None]
            cases.append({"enabled": False, "parent": {"cls": p, "kw": []}, "calls": calls})
    return cases


def warning_scope_cases(T, mir):
    """fixed, both tiers: "refused WITH A WARNING unless forced" as a user's program would see it - the warnings of a whole history
    are recorded in one scope entered before it (no filter re-installed per call), and between the adds the program makes a Cell
    through the factories (component_factory by name / class, the neuroml.utils wrapper, doc.add("Cell")): the later unforced add to
    an occupied single-valued member / of an equal list child must still warn.  Independently, every add() of every case and every
    such factory call must leave warnings.filters (process-global state) exactly as it found it."""
    several, single, lists = [], [], []
    for p in mir.order:
        by = {}
        for m in mir.members(p):
            if mir.dt(m) in T.C:
                by.setdefault(mir.dt(m), []).append(m)
        for c, ms in sorted(by.items()):
            (several if len(ms) >= 2 else lists if ms[0]["container"] else single).append((p, c, ms[0], len(ms) >= 2))
    pres = [[{"how": "factory", "cls": "Cell", "form": "str", "kw": [["id", {"s": "c"}]]}],
            [{"how": "factory", "cls": "Cell", "form": "class", "kw": [["id", {"s": "c"}]]}],
            [{"how": "utils", "cls": "Cell", "form": "str", "kw": [["id", {"s": "c"}]]}],
            [{"how": "add", "cls": "Cell", "form": "str", "kw": [["id", {"s": "c"}]]}],
            [{"how": "add", "cls": "Cell", "form": "class", "kw": [["id", {"s": "c"}]]}]] if "Cell" in T.C else []
    picks = [x for x in several if not x[2]["container"]][:2] + single[:2] + lists[:1] + [x for x in lists if x[0] == "Projection"][:1]
    cases = []
    for p, c, m, multi in picks:
        a, variants = one_member_variants(T, c)
        b = variants[0][1] if variants else a
        hint = m["name"] if multi else None

        def call(tree, force, mark, pre=None):
            d = {"child": {"kind": "obj", "tree": tree}, "hint": hint, "force": force, "validate": False, "mark": "warning-scope:" + mark}
            if pre:
                d["pre"] = pre
            return d
        for pre in pres:
            if m["container"]:
                calls = [call(a, False, "absent"), call(a, False, "equal-present,after-factory", pre), call(a, True, "equal-present,forced"),
                         call(a, False, "equal-present")]
            else:
                calls = [call(a, False, "free"), call(b, False, "occupied,after-factory", pre), call(b, True, "occupied,forced"),
                         call(a, False, "occupied")]
            cases.append({"enabled": False, "one_warning_scope": True, "parent": {"cls": p, "kw": []}, "calls": calls})
            cases.append({"enabled": False, "one_warning_scope": True, "parent": {"cls": p, "kw": []},
                          "calls": [dict(calls[0], pre=pre)] + [dict(x, pre=None) for x in calls[1:]]})
    return cases


def near_hint_cases(T, mir):
    """fixed, both tiers: for every pair with >= 2 candidates and every candidate name c, hints that CONTAIN or resemble c without
    being it - c+' ', ' '+c, 'x'+c, c+'x', '<Parent>.'+c, c.upper(), c[:-1], and c1+c2, c1+','+c2, c1+' '+c2 for two candidates -
    must raise and leave the parent unchanged (the hint names a member by equality).  One history per hint."""
    cases = []
    for p in mir.order:
        by = {}
        for m in mir.members(p):
            if mir.dt(m) in T.C:
                by.setdefault(mir.dt(m), []).append(m["name"])
        for c, cand in sorted(by.items()):
            if len(cand) < 2:
                continue
            base, _ = one_member_variants(T, c)
            hints = []
            for n in cand:
                hints += [n + " ", " " + n, "x" + n, n + "x", p + "." + n, n.upper(), n[:-1], "not_" + n]
            for a in cand:
                for b in cand:
                    if a != b:
                        hints += [a + b, a + "," + b]
            seen = set()
            for h in hints:
                if h in cand or h in seen or not h:
                    continue
                seen.add(h)
                calls = [{"child": {"kind": "obj", "tree": base}, "hint": h, "force": f, "validate": False,
                          "mark": "matrix:hint-resembles-a-candidate"} for f in ((False, True) if len(seen) % 4 == 1 else (len(seen) % 2 == 0,))]
                cases.append({"enabled": False, "parent": {"cls": p, "kw": []}, "calls": calls})
    return cases


TOUCH_PREFERRED = ["Connection", "ConnectionWD", "Input", "InputW", "ExplicitInput", "Instance", "ElectricalConnection",
                   "ElectricalConnectionInstance", "ElectricalConnectionInstanceW", "ContinuousConnection", "ContinuousConnectionInstance",
                   "ContinuousConnectionInstanceW", "SynapticConnection", "Population", "Projection", "Network", "Segment", "SegmentGroup",
                   "InputList", "Cell"]


def touched_duplicate_cases(ck, tab, T, mir):
    """fixed, both tiers: "a child equal to one already present is refused unless forced" must not depend on read-only calls made
    in between.  For every class with hand-written read-only helpers (translators/tr_readonly.py: __str__, __repr__, summary,
    get_* ...; one-argument ones such as get_by_id are called with an id that does not exist) and a list member of some parent that
    takes it: schema-valid, realistic children (paths like ../pop/0/cell), and histories in which the new child and / or the stored
    one went through those helpers, or through a refused re-add of the very same object (whose warning formats it with str())."""
    import random
    from checks import c09
    vg = c09.ValidGen(tab, T, random.Random(0))
    readers = (getattr(ck, "helpers", None) or {}).get("readers", {})
    classes = [c for c in TOUCH_PREFERRED if c in readers and c in T.C] + sorted(c for c in readers if c in T.C and c not in TOUCH_PREFERRED)
    cases, used = [], []
    for c in classes:
        where = [(p, m) for p in mir.order for m in mir.targets(p, c) if m["container"]]
        if not where:
            continue
        where.sort(key=lambda pm: (len(mir.targets(pm[0], c)) != 1, pm[0] not in ("Projection", "InputList", "Network", "Population",
                                                                                  "ElectricalProjection", "ContinuousProjection")))
        p, m = where[0]
        hint = m["name"] if len(mir.targets(p, c)) > 1 else None
        kw = []
        for k, v in vg.kwargs(c, depth=1, optional=1.0):
            if k.endswith("cell_id") or k in ("target", "destination") and isinstance(v, dict) and "s" in v:
                v = {"s": "../pop/0/cell"}
            if v is None or any(t in v for t in ("s", "i", "f")):
                kw.append([k, v])
        tree = {"cls": c, "kw": kw}
        meths = []
        for name in readers[c]:
            if [name, []] not in meths:
                meths.append([name, []])
        for name in ("get_by_id",):
            meths.append([name, ["no_such_id_xyz"]])
        used.append(c)

        def call(child, force=False, **extra):
            return dict({"child": child, "hint": hint, "force": force, "validate": False, "mark": "touched-duplicate"}, **extra)
        new = lambda: {"kind": "obj", "tree": tree}  # noqa
        for calls in ([call(new()), call(new(), touch=meths)],
                      [call(new()), call(new(), touch_stored=meths)],
                      [call(new()), call({"kind": "same", "index": 0}), call(new()), call(new())],
                      [call(new()), call(new(), touch=meths, touch_stored=meths), call(new(), force=True), call(new(), touch=meths[:1])]):
            cases.append({"enabled": False, "parent": {"cls": p, "kw": []}, "calls": calls})
    ck.extra["touched_duplicate_classes"] = used
    return cases


def related_type_pairs(mir):
    """(parent, child class, members, "ancestor"/"descendant"): the parent has NO member of the child's exact type but has members
    typed with an ancestor class of the child, resp. with a class derived from the child's - computed from the tables"""
    out = []
    for p in mir.order:
        types = {}
        for m in mir.members(p):
            types.setdefault(mir.dt(m), []).append(m["name"])
        for c in mir.order:
            if c in types:
                continue
            anc = [n for k in mir.chain(c)[1:] if k in types for n in types[k]]
            if anc:
                out.append((p, c, anc, "ancestor"))
            desc = [n for k in sorted(types) if k in mir.C and c in mir.chain(k)[1:] for n in types[k]]
            if desc:
                out.append((p, c, desc, "descendant"))
    return out


def related_type_cases(T, mir):
    """fixed, both tiers, independent of the random stream: for every pair of related_type_pairs add() must raise and leave the
    parent unchanged (C10_none: members are matched by the child's exact type name, never by a base or a derived type).
    ancestor pairs: {component, class name} x hint {None, the related member} x force; descendant pairs: component, hint None
    unforced and hint = the related member forced.  One history per parent."""
    by_parent = {}
    for p, c, names, rel in related_type_pairs(mir):
        base, _ = one_member_variants(T, c)
        calls = by_parent.setdefault(p, [])
        mark = "matrix:related-type-only:" + rel

        def call(child, hint, force):
            return {"child": child, "hint": hint, "force": force, "validate": False, "mark": mark}
        if rel == "ancestor":
            for child in ({"kind": "obj", "tree": base}, {"kind": "cls", "cls": c, "kw": base.get("kw", []), "form": "str"},
                          {"kind": "cls", "cls": c, "kw": [], "form": "class"}):
                for hint in (None, names[0]):
                    for force in (False, True):
                        calls.append(call(child, hint, force))
        else:
            calls.append(call({"kind": "obj", "tree": base}, None, False))
            calls.append(call({"kind": "obj", "tree": base}, names[0], True))
    return [{"enabled": False, "parent": {"cls": p, "kw": []}, "calls": calls} for p, calls in by_parent.items()]


STORED = [
    # the witnesses of the known defects, re-run first on every run
    {"enabled": True, "parent": {"cls": "GateHHRates", "kw": [["id", {"s": "g"}], ["instances", {"i": 1}]]},
     "calls": [{"child": {"kind": "obj", "tree": {"cls": "HHRate", "kw": [["type", {"s": "HHExpRate"}], ["rate", {"s": "1per_ms"}],
                                                                          ["midpoint", {"s": "0mV"}], ["scale", {"s": "1mV"}]]}},
                "hint": "nonsense", "force": False, "validate": False}]},
    {"enabled": True, "parent": {"cls": "ComponentType", "kw": [["name", {"s": "ct"}]]},
     "calls": [{"child": {"kind": "obj", "tree": {"cls": "LEMS_Property", "kw": [["name", {"s": "p"}], ["dimension", {"s": "none"}]]}},
                "hint": None, "force": False, "validate": False},
               {"child": {"kind": "obj", "tree": {"cls": "Property", "kw": [["tag", {"s": "t"}], ["value", {"s": "v"}]]}},
                "hint": None, "force": False, "validate": False}]},
    {"enabled": True, "parent": {"cls": "Projection", "kw": [["id", {"s": "proj"}], ["presynaptic_population", {"s": "a"}],
                                                             ["postsynaptic_population", {"s": "b"}], ["synapse", {"s": "s"}]]},
     "calls": [{"child": {"kind": "obj", "tree": {"cls": "Connection", "kw": [["id", {"i": 0}], ["pre_cell_id", {"s": "Z"}], ["post_cell_id", {"s": "Y"}]]}},
                "hint": None, "force": False, "validate": False},
               {"child": {"kind": "obj", "tree": {"cls": "Connection", "kw": [["id", {"i": 0}], ["pre_cell_id", {"s": "Z"}], ["post_cell_id", {"s": "Y"}]]}},
                "hint": None, "force": False, "validate": False}]},
]


# ------------------------------------------------------------------------------------------------ Coq emission
def child_coq(call, r):
    ch = call["child"]
    if ch["kind"] == "falsy":
        return "(ChFalsy XF)"
    if ch["kind"] in ("obj", "same"):
        return "(ChObj XF %s)" % gdsgen.cobj(r["child"])
    return "(ChCls XF %s %s)" % (coq_str(ch["cls"]), coq_list(["(%s, %s)" % (coq_str(k), gdsgen.cval(v)) for k, v in ch["kw"]]))


def code_coq(code):
    return "(%d%%nat, %s)" % (code[0], coq_list([coq_str(s) for s in code[1]]))


def call_coq(call, r):
    ch = call["child"]
    dis = r["disabled"]
    if ch["kind"] == "cls" and ch["cls"] == "Cell":
        dis = None     # setup_nml_cell logs on its own
    return ("{| xc_child := %s; xc_hint := %s; xc_force := %s; xc_validate := %s; xc_vchild := %s; xc_vparent := %s;\n"
            "   xc_cell := %s; xc_str := %s; xc_parent_after := %s;\n   xc_code := %s; xc_ret := %s; xc_warn := %s; xc_disabled := %s |}") % (
        child_coq(call, r), coq_opt(call["hint"], coq_str), supergen.b(call["force"]), supergen.b(call["validate"]),
        supergen.b(r.get("vchild", True)), supergen.b(r["vparent"]),
        coq_opt(r.get("cell"), gdsgen.cobj), supergen.b(r.get("str_ok", True)),
        coq_list(["(%s, %s)" % (coq_str(n), gdsgen.cval(v)) for n, v in r["changed_fields"]]), code_coq(r["code"]),
        coq_opt(r.get("ret") if ch["kind"] == "cls" else None, gdsgen.cobj),
        coq_list(["(%d%%nat, %s)" % (k, coq_str(m)) for k, m in r["warn"]]),
        "None" if dis is None else "(Some %d%%nat)" % dis)


def case_coq(case, res):
    return "{| xa_enabled := %s; xa_parent := %s;\n  xa_calls := %s |}" % (
        supergen.b(case["enabled"]), gdsgen.cobj(res["parent"]),
        coq_list(["\n  " + call_coq(c, r) for c, r in zip(case["calls"], res["calls"])]))


def usable(case, res):
    if "harness_error" in res:
        return False
    s = json.dumps(res)
    if '"f": "!' in s:
        return False
    try:
        case_coq(case, res)
        return True
    except ValueError:
        return False   # raw content outside the decimal instance


# ------------------------------------------------------------------------------------------------ the property on the real code
def field_of(dumped, name):
    for n, v in dumped["fields"]:
        if n == name:
            return v
    return "MISSING"


def predicate(ck, sv, mir, case, res, enabled):
    """C10 evaluated on what the real add() did, the schema being the oracle for the right member"""
    parent_cls = case["parent"]["cls"]
    cur = res["parent"]
    for j, (call, r) in enumerate(zip(case["calls"], res["calls"])):
        before = cur
        if r["parent_after"] is not None:
            cur = r["parent_after"]
        ch = call["child"]
        code = r["code"][0]
        inp = {"parent": case["parent"], "enabled": enabled, "earlier_calls": case["calls"][:j], "call": call}

        def bad(key, what, expected=None):
            if call.get("conv", "kw") != "kw":
                what += " [add() called with hint/force %s]" % ("positionally" if call["conv"] == "pos" else "as keyword " + call["conv"].split(":", 1)[1])
            ck.witness(key, what, input=inp, expected=expected,
                       observed={k: r.get(k) for k in ("code", "exc", "changed", "warn", "holds_child", "ret_is_child")})

        if not r.get("switch_unchanged", True):
            bad("C09:add-changes-the-global-switch", "add() left neuroml.build_time_validation.ENABLED changed")
        ck.tally("warnings.filters-compared")
        if r.get("filters_changed") or r.get("pre_filters_changed"):
            bad("C10:call-changes-warnings-filters", "%s left the process-wide warnings.filters changed (%s): later refusals of add() "
                "can lose their warning" % ("add()" if r.get("filters_changed") else "making a %s through the factory (%s)"
                                            % (call["pre"][0]["cls"], call["pre"][0]["how"]),
                                            (r.get("filters_changed") or r.get("pre_filters_changed"))[:2]), expected="warnings.filters unchanged")
        if ch["kind"] == "falsy":
            ck.count(1)
            ck.tally("call:falsy")
            if code != 20 or r["changed"]:
                bad("C10:falsy-child", "add(%r) is documented to print info and return None" % (ch["value"],))
            continue
        child_cls = ch["cls"] if ch["kind"] == "cls" else (r.get("child") or {}).get("cls")
        S = sv.candidates(parent_cls, child_cls)
        MS = [m["name"] for m in mir.targets(parent_cls, child_cls)]
        hint, force = call["hint"], call["force"]
        slip = sorted(set(S) ^ set(MS))
        keyslip = "C10:memberspec-type-differs-from-schema:%s.%s" % (parent_cls, ",".join(slip)) if slip else None
        factory_failed = ch["kind"] == "cls" and code in (4, 5, 6, 7) and not r["changed"] and "ret" not in r
        nontriv = None
        if S:
            nontriv = json.dumps([parent_cls, child_cls, hint, force, field_of(before, S[0]) not in (None, {"l": []})])
        ck.count(1, nontrivial_key=nontriv,
                 sample={"parent": parent_cls, "child": child_cls, "hint": hint, "force": force, "outcome": r["code"],
                         "changed": r["changed"]} if S and len(ck.samples) < 5 else None)
        ck.tally("call:%s:%s" % ("no-member" if not S else ("unique" if len(S) == 1 else "several"),
                                 "raises" if code not in (0, 20) else "returns"))
        if call.get("mark", "").startswith("matrix:"):
            ck.tally("convention:" + call.get("conv", "kw"))
        if call.get("mark", "").startswith("matrix:") and call.get("conv", "kw") == "kw":
            ck.tally("%s:%s:hint=%s" % (call["mark"], "unique" if len(S) == 1 else "several" if S else "none",
                                        "candidate" if hint in S else repr(hint) if hint in (None, "") else "wrong"))
        if factory_failed:
            continue   # the child was never made (C09's business); the parent is unchanged, checked above by `changed`
        if not S or (len(S) >= 2 and (not hint or hint not in S)):
            # no member / no unique member can be determined: must raise and leave the parent alone
            if code in (0, 20) or r["changed"]:
                if keyslip:
                    bad(keyslip, "add(%s) to a %s is accepted although the schema declares no member of that type"
                        % (child_cls, parent_cls), expected="an exception, parent unchanged")
                elif len(S) >= 2 and hint:
                    bad("C10:hint-names-no-candidate", "several members qualify and the hint %r names none of them: add() returns "
                        "normally (members changed: %s)" % (hint, r["changed"] or "none"), expected="an exception naming the valid hints %s" % S)
                else:
                    bad("C10:no-unique-member", "add() does not raise / changes the parent "
                        "although no unique member can be determined", expected="an exception, parent unchanged")
            continue
        target = S[0] if len(S) == 1 else hint
        slot0 = field_of(before, target)
        if (code not in (0, 4) and not r.get("str_ok", True) and not force and not r["changed"] and isinstance(slot0, dict)
                and "l" in slot0 and r.get("child") in slot0["l"]):
            bad("C10:duplicate-refusal-raises-from-__str__", "an equal child is already present; instead of the warning the "
                "exception of the child's __str__ (%s) comes out of add()" % r.get("exc"), expected="a warning, no exception")
            continue
        if code not in (0, 4) or (code == 4 and not (enabled and call["validate"])):
            bad(keyslip or "C10:raises-although-member-exists",
                "add(%s) to a %s raises (%s) although the schema declares member %s for it" % (child_cls, parent_cls, r.get("exc"), target),
                expected="stored under %s" % target)
            continue
        if any(m != target for m in r["changed"]):
            bad(keyslip or "C10:other-member-touched",
                "members other than %s changed: %s" % (target, r["changed"]), expected=[target])
            continue
        held = dict((k, n) for k, n in (r["holds_ret"] if "holds_ret" in r else r["holds_child"]))
        held_before = dict((k, n) for k, n in r["held_before"])
        elsewhere = [k for k in held if k != target and held[k] != held_before.get(k, 0)]
        if elsewhere:
            bad("C10:stored-elsewhere", "the child now also sits in %s" % elsewhere, expected=[target])
        if code == 0 and ch["kind"] != "cls" and not r.get("ret_is_child"):
            bad("C10:returns-another-object", "add() did not return the object it was given")
        if code == 0 and ch["kind"] == "cls" and (r.get("ret") or {}).get("cls") != child_cls:
            bad("C10:returns-another-object", "add(<class>) returned a %s" % (r.get("ret") or {}).get("cls"))
        # stored, or refused with a warning
        slot = field_of(before, target)
        value = r.get("ret") if ch["kind"] == "cls" else r.get("child")
        if value is None:
            continue
        is_list = isinstance(slot, dict) and "l" in slot
        if is_list:
            dup = any(x == value for x in slot["l"])
            now = field_of(cur, target)
            if dup and not force:
                if r["changed"] or [2, target] not in r["warn"]:
                    left = [x for c_ in case["calls"][:j + 1] for x in ()] or []
                    for rr in res["calls"][:j + 1]:
                        left += rr.get("touch_left") or []
                    if left:
                        bad("C10:read-only-call-defeats-duplicate-refusal:%s.%s" % (left[0][0], left[0][1]),
                            "an equal %s is already in %s, but after the read-only call %s.%s() (which left %s in the instance "
                            "dictionary, compared by __eq__) add() no longer recognises it: %s"
                            % (child_cls, target, left[0][0], left[0][1], left[0][2],
                               "stored without warning" if r["changed"] else "no warning"), expected="a warning and no change")
                    else:
                        bad("C10:duplicate-not-refused", "an equal child is already in %s: expected a warning and no change" % target)
            else:
                ok = isinstance(now, dict) and "l" in now and now["l"][:-1] == slot["l"] and now["l"] and now["l"][-1] == value \
                    and held.get(target, 0) == held_before.get(target, 0) + 1
                mark = call.get("mark", "")
                if not ok and mark.startswith("differs-only-in:") and [2, target] in r["warn"]:
                    bad("C10:non-equal-child-refused-as-duplicate", "a %s that differs from the one already in %s only in member `%s` is "
                        "refused as a duplicate (warning, not stored)" % (child_cls, target, mark.split(":", 1)[1]),
                        expected="stored, no warning")
                elif not ok:
                    bad("C10:not-appended", "the child was not appended to %s" % target)
        else:
            occupied = slot not in (None, "MISSING", {"l": []}, {"s": ""}, {"i": 0})
            if occupied and not force:
                if r["changed"] or [1, target] not in r["warn"]:
                    bad("C10:occupied-not-refused", "%s is occupied: expected a warning and no change" % target)
            else:
                now = field_of(cur, target)
                if now != {"o": value} or held.get(target, 0) != 1:
                    bad("C10:not-stored", "%s does not hold the child afterwards" % target)


# ------------------------------------------------------------------------------------------------ run
def run_cases(ck, T, cases, label):
    order = {c: T.field_order(c) for c in T.order}
    out = []
    chunk = 40
    parts = [cases[i:i + chunk] for i in range(0, len(cases), chunk)]

    def one(part):
        return ck.impl("c10_impl.py", {"order": order, "cases": part}, timeout=1500)
    with ThreadPoolExecutor(max_workers=6) as ex:
        for part, res in zip(parts, ex.map(one, parts)):
            out.extend(zip(part, res["results"]))
            check_class_attrs(ck, res.get("new_class_attrs") or {}, {"first_parent": part[0]["parent"]["cls"] if part else None})
    return out


INTERPRETER_CONFIGS = (("python-O", {"pyflags": ["-O"]}), ("PYTHONHASHSEED=3,cwd=/", {"extra_env": {"PYTHONHASHSEED": "3"}, "cwd": "/"}))


def canon_code(code):
    return [code[0], sorted(str(x) for x in code[1])] if isinstance(code, list) and len(code) == 2 and isinstance(code[1], list) else code


def interpreter_configurations(ck, script, payload, ref, canon, describe):
    """the interpreter's configuration is not input: the same deterministic cases under `python -O` (asserts stripped) and with
    another hash seed (set / dict iteration order) from another working directory must give the same canonicalised results as the
    default run `ref`.  canon(result) -> comparable structure; describe(i) -> the input of the i-th case."""
    def one(cfg):
        return ck.try_impl(script, payload, timeout=400, label="interpreter[%s]" % cfg[0], **cfg[1])
    with ThreadPoolExecutor(max_workers=2) as ex:
        outs = list(ex.map(one, INTERPRETER_CONFIGS))
    want = canon(ref)
    for (label, _), o in zip(INTERPRETER_CONFIGS, outs):
        if o is None:
            continue
        got = canon(o)
        for i, (a, b) in enumerate(zip(want, got)):
            ck.tally("other-interpreter-configuration:" + label.split(",")[0])
            if a != b:
                where = next((k for k, (x, y) in enumerate(zip(a, b)) if x != y), 0) if isinstance(a, list) and isinstance(b, list) else 0
                ck.witness("%s:interpreter-configuration:%s" % (ck.pid, label.split(",")[0]),
                           "under %s the results differ from those of the default interpreter (case %d, step %d)" % (label, i, where),
                           input=describe(i), expected=a[where] if isinstance(a, list) and where < len(a) else a,
                           observed=b[where] if isinstance(b, list) and where < len(b) else b)
                break
        if len(want) != len(got):
            ck.witness("%s:interpreter-configuration:%s" % (ck.pid, label.split(",")[0]), "under %s %d results instead of %d"
                       % (label, len(got), len(want)), input=describe(0))


ALLOWED_CLASS_ATTRS = ("_GeneratedsSuperSuper__all_members_", "_GeneratedsSuperSuper__nml_hier")


def check_class_attrs(ck, new, where):
    """no class-level attribute other than the two caches the model knows may appear on a binding class at run time"""
    bad = {c: [a for a in attrs if a not in ALLOWED_CLASS_ATTRS] for c, attrs in new.items()}
    bad = {c: a for c, a in bad.items() if a}
    ck.tally("class-attribute-snapshots")
    if bad:
        c = sorted(bad)[0]
        ck.witness("%s:class-attribute-appears-at-run-time" % ck.pid,
                   "running the calls created class-level attribute(s) %s on %s (and %d more classes): state shared by all "
                   "components of the class and, through inheritance, of derived classes" % (bad[c], c, len(bad) - 1),
                   input=where, expected=[], observed={k: bad[k] for k in sorted(bad)[:6]})


def coq_diff(ck, pairs, label, fixed=True):
    """model vs implementation, diffed inside Coq; shards of <= ~350 calls"""
    files, cur, n = [], [], 0
    for case, res in pairs:
        if not usable(case, res):
            ck.tally("skipped:outside-decimal-instance-or-harness")
            if "harness_error" in res:
                ck.disagree("harness", case["parent"], "case could not be run", res["harness_error"])
            continue
        cur.append((case, res))
        n += len(case["calls"])
        if n >= (350 if ck.tier == "thorough" else 230):
            files.append(cur)
            cur, n = [], 0
    if cur:
        files.append(cur)
    texts = []
    for k, part in enumerate(files):
        text = HEADER + "Definition cases : list xcase := %s.\n" % coq_list(["\n " + case_coq(c, r) for c, r in part]) + \
            "Eval vm_compute in (add_mismatches %s Gen_Members.M Gen_Bindings.T 0 cases).\n" % supergen.b(fixed)
        texts.append(("%s_%d.v" % (label, k), part, text))
    with ThreadPoolExecutor(max_workers=8) as ex:
        evals = list(ex.map(lambda f: ck.coq_eval(f[0], f[2], timeout=1200), texts))
    ncalls = 0
    for (name, part, text), (ok, results, out) in zip(texts, evals):
        ck.oblige(name + ":evaluates", ok, out[-1500:], kind="correspondence")
        ncalls += sum(len(c["calls"]) for c, _ in part)
        if not ok:
            continue
        for m in re.finditer(r"\((\d+)%nat, \((\d+)%nat, (\d+)%nat\)\)", results[0] if results else ""):
            i, j, bits = int(m.group(1)), int(m.group(2)), int(m.group(3))
            case, res = part[i]
            # the correspondence presupposes that read-only helpers write nothing on the instance; where the harness saw one write
            # that is a registered known finding (reported by the predicate as a witness with that key), the model's verdict on the
            # duplicate is not expected to match
            left = [x for rr in res["calls"][:j + 1] for x in (rr.get("touch_left") or [])]
            known = set(d_.get("key") for d_ in ck.known)
            if left and all("%s:read-only-call-defeats-duplicate-refusal:%s.%s" % (ck.pid if ck.pid == "C10" else "C10", x[0], x[1]) in known
                            or ("C10:read-only-call-defeats-duplicate-refusal:%s.%s" % (x[0], x[1])) in known for x in left):
                ck.tally("disagreement-explained-by-known-finding:read-only-call")
                continue
            which = [nm for b_, nm in ((1, "parent-after"), (2, "outcome"), (4, "warnings"), (8, "log-records"), (16, "returned")) if bits & b_]
            ck.disagree("Super.add_with[" + "+".join(which) + "]",
                        {"parent": case["parent"], "enabled": case["enabled"], "earlier_calls": case["calls"][:j], "call": case["calls"][j]},
                        "model differs (bits %d)" % bits,
                        {k: res["calls"][j].get(k) for k in ("code", "exc", "changed", "warn", "disabled", "vparent", "vchild")})
    ck.extra["correspondence_calls"] = ck.extra.get("correspondence_calls", 0) + ncalls


def eq_translate(ck, oblige):
    """GeneratedsSuper.__eq__ -> the attribute names it leaves out (fail closed); obligations only for C10"""
    p = subprocess.run([PY, os.path.join(VERIF, "translators", "tr_eq.py")], capture_output=True, text=True, env=impl_env(), timeout=300)
    try:
        d = json.loads(p.stdout.strip().splitlines()[-1])
    except Exception:  # noqa
        d = {"excluded": [], "overrides": [], "errors": ["tr_eq failed: " + p.stderr[-500:]]}
    if oblige:
        ck.oblige("translate:tr_eq", not d["errors"], "; ".join(d["errors"][:10]), kind="translate")
        ck.oblige("translate:tr_eq:no-class-overrides-equality", not d["overrides"], ", ".join(d["overrides"][:10]), kind="translate")
    return d


def supersig_translate(ck):
    p = subprocess.run([PY, os.path.join(VERIF, "translators", "tr_supersig.py")], capture_output=True, text=True, env=impl_env(), timeout=300)
    try:
        d = json.loads(p.stdout.strip().splitlines()[-1])
    except Exception:  # noqa
        d = {"signatures": {}, "class_attrs": [], "errors": ["tr_supersig failed: " + p.stderr[-500:]]}
    ck.oblige("translate:tr_supersig", not d["errors"], "; ".join(d["errors"][:10]), kind="translate")
    return d


def switch_translate(ck):
    p = subprocess.run([PY, os.path.join(VERIF, "translators", "tr_switch.py")], capture_output=True, text=True, env=impl_env(), timeout=300)
    try:
        d = json.loads(p.stdout.strip().splitlines()[-1])
    except Exception:  # noqa
        d = {"module": [], "helpers": [], "binding": [], "uses": [], "errors": ["tr_switch failed: " + p.stderr[-500:]]}
    ck.oblige("translate:tr_switch", not d["errors"], "; ".join(d["errors"][:10]), kind="translate")
    return d


def helpers_translate(ck):
    p = subprocess.run([PY, os.path.join(VERIF, "translators", "tr_readonly.py")], capture_output=True, text=True, env=impl_env(), timeout=300)
    try:
        d = json.loads(p.stdout.strip().splitlines()[-1])
    except Exception:  # noqa
        d = {"writes": [["?", "?", ["tr_readonly failed"]]], "readers": {}, "counted": 0, "errors": ["tr_readonly failed: " + p.stderr[-500:]]}
    ck.oblige("translate:tr_readonly", not d["errors"], "; ".join(d["errors"][:10]), kind="translate")
    return d


def build_tables(ck, with_eq=False):
    tab = bindings.translate(ck)
    if tab is None:
        return None
    if not bindings.gen_bindings(ck, tab):
        return None
    eq = eq_translate(ck, with_eq)
    sig = supersig_translate(ck)
    ck.supersig = sig
    ck.switch_shape = switch_translate(ck)
    ck.helpers = helpers_translate(ck)
    if not supergen.gen_members(ck, tab, [] if eq["errors"] else eq["excluded"], sig, ck.switch_shape, ck.helpers):
        return None
    S = schema_translate(ck)
    if S is None:
        return None
    return tab, S


def run(ck):
    ck.rule = ("for (parent type, child type) pairs of the 199 binding classes (thorough: all 39601; quick: every pair with a "
               "candidate member plus a seeded sample of the rest) the REAL add() is called with hints in {each candidate, None, "
               "a wrong name, ''}, forced and unforced, with components, class names and classes, inside shuffled histories on "
               "one parent (so each call follows random earlier calls; equal copies and the same object are re-added); before/"
               "after member-wise snapshots, identities, warnings and log records are compared with Model/Super.v inside Coq "
               "and the property is evaluated with the XSD as oracle; non-trivial = a call whose child type has a schema "
               "member in the parent, distinct by (parent, child, hint, force, slot occupied)")
    ck.trusted = ["Coq 8.16.1 kernel + vm_compute", "translators/tr_bindings.py, lib/supergen.py (MemberSpec_ tables)",
                  "translators/tr_schema_members.py (XSD particles -> declared members; lxml as XML parser)",
                  "impl/c10_impl.py (snapshots through vars()/getattr, identity through `is`)",
                  "GeneratedsSuperSuper.validate() and Cell.setup_nml_cell() enter the model as oracles (Section variables)"]
    ck.assumptions = ["components are compared by value (class + fields): python identity is checked on the real code only",
                      "__eq__ of components made by the constructors = field-wise equality (same technical fields)"]
    ck.gate_static()
    bt = build_tables(ck, with_eq=True)
    if bt is None:
        return
    tab, S = bt
    T = bindings.Tables(tab)
    mir = supergen.Mirror(tab)
    sv = SchemaView(S, mir)
    inst = ck.gen_v("Inst_C10.v", INST)
    iok, _ = ck.compile_obligations(inst, kind="instance")
    if iok:
        ck.compile_props()
    else:
        ck.oblige("Props_C10.v", False, "instance obligations failed", kind="theorem")
    gen = gdsgen.Gen(T, ck.rng)
    rng = ck.rng
    thorough = ck.tier == "thorough"
    cases = [json.loads(json.dumps(c)) for c in STORED]
    fixed_matrix = matrix_cases(T, mir)
    # every calling convention the signature on the tree under test allows: keywords as modelled, positional, and - when the
    # signature differs from the modelled one (Inst_C10.add_signature_ok then fails) - force under each other parameter name
    sig = (getattr(ck, "supersig", None) or {}).get("signatures", {}).get("add", [])
    convs = ["pos"] + ["alias:" + n for n, _ in sig if n not in ("self", "obj", "hint", "force", "validate") and not n.startswith("*")
                       and not n.endswith("=")] + ["alias:" + n[:-1] for n, _ in sig if n.endswith("=")]
    ck.extra["add_calling_conventions"] = ["kw"] + convs
    for cv in convs:
        for case in matrix_cases(T, mir):
            for c_ in case["calls"]:
                c_["conv"] = cv
            fixed_matrix.append(case)
    related = related_type_cases(T, mir)
    ck.extra["related_type_only_pairs"] = {"ancestor": sum(1 for x in related_type_pairs(mir) if x[3] == "ancestor"),
                                           "descendant": sum(1 for x in related_type_pairs(mir) if x[3] == "descendant")}
    fixed_matrix.extend(related)
    sweep = list_member_sweep(T, mir)
    ck.extra["list_member_sweep_histories"] = len(sweep)
    fixed_matrix.extend(sweep)
    scoped = warning_scope_cases(T, mir)
    ck.extra["warning_scope_histories"] = len(scoped)
    fixed_matrix.extend(scoped)
    near = near_hint_cases(T, mir)
    ck.extra["hint_resembles_candidate_histories"] = len(near)
    fixed_matrix.extend(near)
    touched = touched_duplicate_cases(ck, tab, T, mir)
    ck.extra["touched_duplicate_histories"] = len(touched)
    fixed_matrix.extend(touched)
    others = other_member_hint_cases(T, mir)
    ck.extra["hint_names_another_member_histories"] = len(others)
    fixed_matrix.extend(others)
    cases.extend(fixed_matrix)
    ck.extra["fixed_matrix_histories"] = len(fixed_matrix)
    ck.extra["fixed_matrix_calls"] = sum(len(c_["calls"]) for c_ in fixed_matrix)
    classes = list(T.order)
    must = ["GateHHRates", "Segment", "ComponentType", "NeuroMLDocument", "Network", "Cell", "Annotation", "IonChannel", "Path"]
    parents = classes if thorough else must + rng.sample([c for c in classes if c not in must], ck.n(36, 0))
    for p in parents:
        with_member = sorted(set(c for c in classes if mir.targets(p, c)) | set(c for c in sv.children_of(p) if c in T.C))
        others = [c for c in classes if c not in with_member]
        kids = with_member + (others if thorough else rng.sample(others, min(len(others), 6)))
        rng.shuffle(kids)
        calls = make_calls(ck, gen, T, mir, sv, p, kids, None if thorough else 4)
        # split long histories so that a shard stays small; each part starts from a fresh random parent
        step = 120
        for i in range(0, max(len(calls), 1), step):
            part = calls[i:i + step]
            base = i
            for c_ in part:
                if c_["child"]["kind"] == "same":
                    c_["child"]["index"] -= base
            part = [c_ for c_ in part if not (c_["child"]["kind"] == "same" and c_["child"]["index"] < 0)]
            cases.append({"enabled": rng.random() < 0.7, "parent": gen.tree(p, rng.choice([0, 1])), "calls": part})
    # duplicate test: children differing in exactly one member (each member in turn) vs. equal children
    list_pairs = [(p, m["name"], mir.dt(m)) for p in classes for m in mir.members(p) if m["container"] and mir.dt(m) in T.C]
    if not thorough:
        special = set(c for c in classes if any(m["name"].endswith("_") and m["name"] != "__ANY__" for m in mir.members(c)))
        rest = [x for x in list_pairs if x[2] not in special]
        list_pairs = [x for x in list_pairs if x[2] in special] + rng.sample(rest, min(len(rest), 12))
    vcases = variant_cases(ck, T, mir, list_pairs)
    cases.extend(vcases)
    ck.extra["one_member_variant_pairs"] = len(list_pairs)
    ck.extra["parents"] = len(parents)
    ck.extra["pairs_exhaustive"] = thorough
    pairs = run_cases(ck, T, cases, "C10")
    sub = cases[:10]
    keys = ("code", "changed", "warn", "parent_after", "ret", "holds_child", "disabled", "ret_is_child", "filters_changed")
    interpreter_configurations(
        ck, "c10_impl.py", {"order": {c: T.field_order(c) for c in T.order}, "cases": sub}, {"results": [r for _, r in pairs[:10]]},
        lambda o: [[[canon_code(c_.get(k)) if k == "code" else c_.get(k) for k in keys] for c_ in r_.get("calls", [])] + [r_.get("harness_error")]
                   for r_ in o["results"]],
        lambda i: {"parent": sub[i]["parent"], "calls": sub[i]["calls"][:4]})
    for case, res in pairs:
        if "harness_error" in res:
            continue
        predicate(ck, sv, mir, case, res, case["enabled"])
    coq_diff(ck, pairs, "Cases_C10", fixed=True)
    debug(ck)


def debug(ck):
    if os.environ.get("VERIF_DEBUG"):
        import sys
        for o in ck.obligations:
            if not o["ok"]:
                print("BROKEN", o["name"], o["detail"][-1200:], file=sys.stderr)
        for d in ck.disagreements[:8]:
            print("DISAGREE", json.dumps(d)[:1500], file=sys.stderr)


def replay(ck, data):
    """re-run a stored input on the real add() and on the model"""
    bt = build_tables(ck)
    if bt is None:
        return 2
    tab, S = bt
    T = bindings.Tables(tab)
    inp = data.get("input") or {}
    if "call" not in inp:
        print(json.dumps({"stored": data, "note": "no add() input stored (broken obligation)"}, indent=1)[:4000])
        return 1
    case = {"enabled": inp.get("enabled", True), "parent": inp["parent"], "calls": list(inp.get("earlier_calls", [])) + [inp["call"]]}
    pairs = run_cases(ck, T, [case], "replay")
    res = pairs[0][1]
    last = res["calls"][-1] if res.get("calls") else res
    coq_diff(ck, pairs, "Replay_C10", fixed=True)
    mir = supergen.Mirror(tab)
    predicate(ck, SchemaView(S, mir), mir, case, res, case["enabled"])
    print(json.dumps({"input": inp, "implementation": {k: last.get(k) for k in ("code", "exc", "changed", "warn", "holds_child", "ret_is_child")},
                      "model_disagreements": ck.disagreements[:3], "property_violations": [w["key"] for w in ck.witnesses]}, indent=1)[:6000])
    return 1 if ck.witnesses or ck.disagreements else 0
