"""C09 — with build-time validation on, factories never hand back an invalid component.  See design_notes/C09.md

tie:  tr_bindings -> Gen_Bindings.v (constructors) / Gen_Members.v (MemberSpec_ tables), Inst_C09.v, and a correspondence
      run of the REAL component_factory (class method and neuroml.utils wrapper; class and string form) and add(<class>)
      against Model/Super.v inside sessions that toggle the global switch; an explicit validate() is run on whatever
      the real code handed back.
"""
import json
import re
from concurrent.futures import ThreadPoolExecutor

from checks import c10
from lib import bindings, gdsgen, supergen
from lib.vcommon import coq_list, coq_opt, coq_str

HEADER = ("From Coq Require Import String List ZArith Bool.\nFrom LNML Require Import Lib.Dec Model.Gds Model.Super Proofs.SuperP2.\n"
          "From Run Require Import Gen_Bindings Gen_Members.\nImport ListNotations.\nOpen Scope string_scope.\n")

INST = HEADER + """
(* every constructor keyword (but the technical ones) is a member name and vice versa, reading __ANY__ as anytypeobjs_:
   the argument check refuses no legitimate keyword and lets through only keywords the constructor uses *)
Lemma info_ctor_ok : all_info_ctor_okb Gen_Members.M Gen_Members.ctor_kw = true.
Proof. vm_compute. reflexivity. Qed.

(* the constructor tables and the member tables describe the same classes *)
Lemma same_classes : strs_eqb (map mc_name Gen_Members.M) (map c_name Gen_Bindings.T) = true.
Proof. vm_compute. reflexivity. Qed.

(* every class can be constructed without arguments in the model (the factory's first step) *)
Lemma ctor_total : forallb (fun k => match init_fields XF dec_norm (cfuel Gen_Bindings.T) Gen_Bindings.T (c_name k) [] with
                                     | Some _ => true | None => false end) Gen_Bindings.T = true.
Proof. vm_compute. reflexivity. Qed.

(* the factories have the parameters the model gives them, and the only class-level attributes the module creates at
   run time are the two caches the model knows to be harmless (keyed by class name / global) *)
Lemma factory_signature_ok : sig_eqb Gen_Members.factory_signature modelled_factory_signature = true.
Proof. vm_compute. reflexivity. Qed.
Lemma add_signature_ok : sig_eqb Gen_Members.add_signature modelled_add_signature = true.
Proof. vm_compute. reflexivity. Qed.
Lemma class_level_state_ok : set_eqb Gen_Members.class_level_attrs modelled_class_attrs = true.
Proof. vm_compute. reflexivity. Qed.

(* the member cache of _get_members() is written under the asking class's own name only, with a fresh list *)
Lemma member_cache_keyed_by_own_class : cache_writes_okb Gen_Members.cache_writes = true.
Proof. vm_compute. reflexivity. Qed.

(* the validate() that the two build-time call sites run is validate() with its default arguments: the default of `recursive`
   is a bool literal and add()/component_factory pass nothing or that same literal *)
Lemma build_time_validate_is_default_validate :
  build_time_rec_agreesb Gen_Members.validate_default_recursive Gen_Members.validate_sites = true.
Proof. vm_compute. reflexivity. Qed.

(* the switch is a plain global: neuroml/build_time_validation.py binds ENABLED once (`ENABLED = True`) and has nothing else that matters, the helpers of
   neuroml/__init__.py assign / return that attribute of the module bound by `from . import build_time_validation`, and the only
   other use in the package is the read in add()/component_factory - one cell, shared by every thread *)
Lemma switch_is_plain_global :
  switch_plain_globalb Gen_Members.switch_module Gen_Members.switch_helpers Gen_Members.switch_binding Gen_Members.switch_uses = true.
Proof. vm_compute. reflexivity. Qed.
"""

ANY6 = ["Annotation", "CellSet", "ForwardTransition", "ReverseTransition", "ReactionScheme", "Region"]


# ------------------------------------------------------------------------------------------------ schema-valid keyword generator
class ValidGen:
    def __init__(self, tab, T, rng):
        self.T = T
        self.rng = rng
        self.C = {c["name"]: c for c in tab["classes"]}
        self.st = {}
        for c in tab["classes"]:
            for v in c.get("st_validators", []):
                self.st.setdefault(v["name"], v)

    def matches(self, st, s):
        v = self.st.get(st)
        if v is None:
            return True
        if v.get("enums"):
            return s in v["enums"]
        for group in v.get("patterns") or []:
            if not any(re.search(p, s) for p in group):
                return False
        return True

    def st_value(self, st, kind):
        v = self.st.get(st)
        if v is not None and v.get("enums"):
            e = v["enums"][0]
            if isinstance(e, str) and kind == "str":
                return {"s": e}
            if kind == "int":
                return {"i": int(float(e))}
            if kind in ("float", "double"):
                return {"f": repr(float(e))}
            return {"s": str(e)}
        if kind == "int":
            return {"i": 1}
        if kind in ("float", "double"):
            return {"f": "0.5"}
        cands = ["abc", "a_1", "1", "0.5", "true", "../pop/0/c"]
        if v is not None:
            for group in v.get("patterns") or []:
                for p in group:
                    for m in re.finditer(r"\(([A-Za-z_0-9|]+)\)\)\$", p):
                        cands.insert(0, "1" + m.group(1).split("|")[0])
        for s in cands:
            if self.matches(st, s):
                return {"s": s}
        return {"s": "abc"}

    def bad_value(self, st):
        v = self.st.get(st)
        if v is None or not (v.get("enums") or v.get("patterns")):
            return None
        for s in ("!not valid!", "?? ??", "not_an_enum value"):
            if not self.matches(st, s):
                return {"s": s}
        return None

    def members(self, c):
        """(name, what, st/child class, required, kind) along the inheritance chain"""
        T = self.T
        kinds = {a["py"]: a["kind"] for a in T.exp_attrs(c)}
        kid = {b["py"]: b for b in T.bld_kids(c)}
        ek = {e["py"]: e for e in T.exp_kids(c)}
        out = {}
        for k in T.chain(c):
            for it in self.C[k].get("val_items", []):
                m = it["member"]
                e = out.setdefault(m, {"name": m, "st": None, "required": False, "attr": m in kinds, "kind": kinds.get(m, "str")})
                if it["op"] in ("defined", "builtin"):
                    e["st"] = it["st"]
                elif it["op"] == "card_req":
                    e["required"] = bool(it["required"])
                elif it["op"] == "card":
                    e["required"] = it["min"] >= 1
                    e["list"] = it["max"] > 1
        for m, e in out.items():
            if not e["attr"]:
                b = kid.get(m)
                e["child"] = b["cls"] if b and b.get("cls") else None
                e["ckind"] = ek.get(m, {}).get("kind")
        return list(out.values())

    def kwargs(self, c, depth=4, optional=0.25):
        rng = self.rng
        kw = []
        for e in self.members(c):
            if not e["required"] and rng.random() > optional:
                continue
            if e["attr"]:
                kw.append([e["name"], self.st_value(e["st"], e["kind"])])
            elif e.get("ckind") == "text":
                kw.append([e["name"], {"s": "some text"}])
            elif e.get("child") and e["child"] in self.C and depth > 0 and e.get("ckind") in ("obj", "objlist"):
                sub = {"cls": e["child"], "kw": self.kwargs(e["child"], depth - 1, optional=0.0)}
                kw.append([e["name"], {"l": [sub]} if e.get("ckind") == "objlist" else {"o": sub}])
        return kw

    def violate(self, c, kw):
        """the same keywords with one facet violated (None when the class has no facet-checked string member)"""
        byname = {e["name"]: e for e in self.members(c)}
        # string-kind attributes only: a bad value for an int/float attribute already fails in the constructor's cast
        cands = [i for i, (n, v) in enumerate(kw) if byname.get(n, {}).get("attr") and byname[n]["kind"] == "str"
                 and self.bad_value(byname[n]["st"])]
        extra = [e for e in byname.values() if e["attr"] and e["kind"] == "str" and self.bad_value(e["st"])
                 and e["name"] not in [n for n, _ in kw]]
        if cands:
            i = self.rng.choice(cands)
            out = [list(x) for x in kw]
            out[i][1] = self.bad_value(byname[out[i][0]]["st"])
            return out, out[i][0]
        if extra:
            e = self.rng.choice(extra)
            return kw + [[e["name"], self.bad_value(e["st"])]], e["name"]
        return None, None


def violate_own(vg, c, kw):
    """the schema-valid keywords of class c with exactly one violation in a member that c declares ITSELF (not inherited):
    a required own member left out, or an own pattern/enumeration facet violated"""
    own = set(m["name"] for m in vg.C[c]["mspecs"])
    info = {e["name"]: e for e in vg.members(c)}
    out = []
    for n in sorted(own):
        e = info.get(n)
        if e and e["required"] and n in [k for k, _ in kw]:
            out.append(("own-required-missing:" + n, [x for x in kw if x[0] != n]))
            break
    for n in sorted(own):
        e = info.get(n)
        if e and e["attr"] and e["kind"] == "str" and vg.bad_value(e["st"]):
            out.append(("own-facet:" + n, [x for x in kw if x[0] != n] + [[n, vg.bad_value(e["st"])]]))
            break
    return out


QUICK_PAIRS = [("Input", "InputW"), ("ChannelDensity", "ChannelDensityVShift"), ("IonChannel", "IonChannelVShift"), ("IafCell", "IafRefCell"),
               ("IafTauCell", "IafTauRefCell"), ("SpikeGeneratorPoisson", "SpikeGeneratorRefPoisson"),
               ("ElectricalConnectionInstance", "ElectricalConnectionInstanceW"), ("ContinuousConnectionInstance", "ContinuousConnectionInstanceW"),
               ("DecayingPoolConcentrationModel", "ConcentrationModel_D"), ("Cell", "Cell2CaPools"), ("Standalone", "IafCell"), ("Base", "Q10Settings")]


def pair_sessions(ck, tab, T, mir, exhaustive):
    """(ancestor P, derived D) pairs of the tables: a P is validated first, then a D with one violation in an OWN member of D must
    be refused (and the reverse order); each session runs in a process of its own, so only the order inside it matters"""
    vg = ValidGen(tab, T, ck.rng)
    pairs = [(p, d) for d in T.order for p in T.chain(d)[1:]]
    if not exhaustive:
        fixed = [x for x in QUICK_PAIRS if x in pairs]
        rest = sorted(x for x in pairs if x not in fixed)
        pairs = fixed + rest[::max(1, len(rest) // 10)][:10]
    sessions = []
    for p, d in pairs:
        pk = vg.kwargs(p, optional=0.0)
        dk = vg.kwargs(d, optional=0.0)
        for label, bad_kw in violate_own(vg, d, dk):
            fp = {"op": "factory", "cls": p, "kw": pk, "validate": True, "form": "str", "via": "classmethod", "kind": "valid", "key": None}
            fd = {"op": "factory", "cls": d, "kw": bad_kw, "validate": True, "form": "class", "via": "classmethod", "kind": "own-violation",
                  "key": label, "after": p}
            sessions.append({"isolate": True, "pair": [p, d], "ops": [{"op": "enable"}, dict(fp), dict(fd)]})
            sessions.append({"isolate": True, "pair": [p, d], "ops": [{"op": "enable"}, {"op": "validate", "cls": p, "kw": pk}, dict(fd, via="utils", form="str")]})
            sessions.append({"isolate": True, "pair": [p, d], "ops": [{"op": "enable"}, dict(fd, after=None), dict(fp), dict(fd)]})
        # third step: the ancestor AGAIN, after the derived type was used, with each member only the derived type has as a keyword:
        # it is no member of the ancestor and must be refused (factory, both forms and the utils wrapper, and add(<class>))
        own = [m["name"] for k in T.chain(d) if k not in T.chain(p) for m in vg.C[k]["mspecs"]]
        own = [n for n in dict.fromkeys(own) if n not in [m["name"] for m in mir.members(p)]]
        if own:
            fpv = {"op": "factory", "cls": p, "kw": pk, "validate": True, "form": "str", "via": "classmethod", "kind": "valid", "key": None}
            fdv = {"op": "factory", "cls": d, "kw": dk, "validate": True, "form": "str", "via": "classmethod", "kind": "valid", "key": None}
            ops = [{"op": "enable"}, dict(fpv), dict(fdv)]
            for i, n in enumerate(own):
                val = next((v for k_, v in dk if k_ == n), {"s": "v"})
                ops.append({"op": "factory", "cls": p, "kw": pk + [[n, val]], "validate": True, "form": ("str", "class")[i % 2],
                            "via": ("classmethod", "utils")[(i // 2) % 2], "kind": "typo", "key": n, "after": d})
            hosts = [h for h in mir.order if len(mir.targets(h, p)) == 1]
            if hosts:
                ops.append({"op": "add", "parent": hosts[0], "cls": p, "kw": pk + [[own[0], next((v for k_, v in dk if k_ == own[0]), {"s": "v"})]],
                            "validate": False, "form": "str", "key": own[0], "typo": own[0]})
            sessions.append({"isolate": True, "pair": [p, d], "ops": ops})
            # and with the derived type used FIRST in the process (the ancestor's entry is then made by the derived type's walk)
            sessions.append({"isolate": True, "pair": [p, d], "ops": [{"op": "enable"}, dict(fdv)] + [dict(o_) for o_ in ops[3:]]})
    ck.extra["ancestor_derived_pairs"] = len(pairs)
    return sessions


def deep_sessions(ck, tab, T, mir):
    """fixed, both tiers, independent of the random stream: components that are fine themselves but own a child that is NOT valid -
    what the factory hands back with validation on must pass a plain validate() (default arguments), whatever depth that looks at.
    (a) Cell with an id only (the factory attaches an empty Morphology / BiophysicalProperties), every via x form;
    (b) for every class with a child-component member whose class has a required member: schema-valid keywords with that child
        replaced by an empty one (e.g. Network(.., populations=[Population()]))."""
    vg = ValidGen(tab, T, ck.rng)
    calls = []

    def F(c, kw, via, form, key):
        return {"op": "factory", "cls": c, "kw": kw, "validate": True, "form": form, "via": via, "host": "NeuroMLDocument",
                "kind": "deep", "key": key}
    if "Cell" in T.order:
        for via in ("classmethod", "utils"):
            for form in ("str", "class"):
                calls.append(F("Cell", [["id", {"s": "c"}]], via, form, "factory-attached-children"))
    n = 0
    for c in T.order:
        pick = None
        for e in vg.members(c):
            ch = e.get("child")
            if e["attr"] or not ch or ch not in vg.C or e.get("ckind") not in ("obj", "objlist"):
                continue
            if any(x["required"] for x in vg.members(ch)):
                pick = e
                break
        if pick is None:
            continue
        kw = [x for x in vg.kwargs(c, optional=0.0) if x[0] != pick["name"]]
        empty = {"cls": pick["child"], "kw": []}
        kw.append([pick["name"], {"l": [empty]} if pick.get("ckind") == "objlist" else {"o": empty}])
        n += 1
        forms = [("classmethod", "str")] + ([("utils", "class")] if c in ("Network", "NeuroMLDocument", "Cell", "Morphology") else [])
        for via, form in forms:
            calls.append(F(c, kw, via, form, "incomplete-child:" + pick["name"]))
    ck.extra["deep_subjects"] = n
    ck.extra["deep_calls"] = len(calls)
    return [{"ops": [{"op": "enable"}] + calls[i:i + 12]} for i in range(0, len(calls), 12)]


THREAD_FIXED = [("Network", [["id", {"s": "net"}]], "NeuroMLDocument"), ("IafCell", [["id", {"s": "iaf"}]], "NeuroMLDocument")]


def thread_patterns(F, A, V):
    """histories of switch / factory / add operations spread over threads.  F(where, **over) a factory call with keywords that
    validate() rejects, A(where) the same through parent.add(<class>), V(where) a factory call with schema-valid keywords;
    where: "main", "new" (a thread started for the operation), "pool:a"/"pool:b" (long-lived pool workers)"""
    en, dis = (lambda w: {"op": "enable", "thread": w}), (lambda w: {"op": "disable", "thread": w})
    st = lambda w, v: {"op": "set", "value": v, "thread": w}  # noqa
    return [
        # toggled in the main thread, used in workers
        [en("main"), F("new"), F("pool:a"), A("pool:a"), F("new", validate=False), dis("main"), F("main"), F("new"), F("pool:a"),
         A("new"), A("pool:a"), en("main"), F("new"), F("pool:a"), A("pool:a"), F("main")],
        # toggled in a thread that is gone afterwards, used in the main thread
        [dis("new"), F("main"), A("main"), F("pool:a"), en("new"), F("main"), A("main"), F("pool:a"), st("new", False), F("main"),
         st("new", True), F("main"), A("new")],
        # a pool worker toggles, the main thread toggles back (and the reverse)
        [dis("pool:a"), F("pool:a"), en("main"), F("pool:a"), A("pool:a"), F("main"), dis("main"), F("pool:a"), en("pool:a"),
         F("main"), A("main"), F("pool:a"), F("pool:b")],
        # two workers; the first one exists and has validated before the switch moves
        [V("pool:a"), st("pool:a", False), F("pool:b"), A("pool:b"), F("main"), F("new"), st("pool:b", True), F("pool:a"), A("pool:a"),
         F("main"), F("new")],
        # default position seen from threads that never touched the switch
        [F("new"), F("pool:a"), A("new"), dis("pool:a"), F("new"), F("main"), en("new"), F("pool:a"), F("main")],
    ]


def thread_sessions(ck, tab, T, mir, exhaustive):
    rng = ck.rng
    vg = ValidGen(tab, T, rng)
    subjects = []
    for c, bad, parent in THREAD_FIXED:
        if c in T.order and parent in T.order:
            subjects.append((c, vg.kwargs(c, optional=0.0), bad, "required-missing", parent))
    pool = [c for c in T.order if c not in [x[0] for x in THREAD_FIXED]]
    rng.shuffle(pool)
    want = len(subjects) + (40 if exhaustive else 4)
    for c in pool:
        if len(subjects) >= want:
            break
        valid = vg.kwargs(c, optional=0.0)
        bad, key = vg.violate(c, valid)
        if bad is None:
            continue
        parents = [p for p in mir.order if len(mir.targets(p, c)) == 1]
        subjects.append((c, valid, bad, "facet:" + key, rng.choice(parents) if parents else None))
    sessions = []
    for c, valid, bad, key, parent in subjects:
        def F(where, validate=True, c=c, bad=bad, key=key):
            return {"op": "factory", "cls": c, "kw": bad, "validate": validate, "form": rng.choice(["str", "class"]),
                    "via": rng.choice(["classmethod", "utils"]), "host": "NeuroMLDocument", "kind": "facet", "key": key, "thread": where}

        def V(where, c=c, valid=valid):
            return {"op": "factory", "cls": c, "kw": valid, "validate": True, "form": "str", "via": "classmethod",
                    "host": "NeuroMLDocument", "kind": "valid", "key": None, "thread": where}

        def A(where, c=c, bad=bad, key=key, parent=parent):
            if parent is None:
                return F(where)
            return {"op": "add", "parent": parent, "cls": c, "kw": bad, "validate": True, "form": rng.choice(["str", "class"]),
                    "key": key, "thread": where}
        for ops in thread_patterns(F, A, V):
            sessions.append({"isolate": True, "threads": True, "ops": ops})
    ck.extra["thread_sessions"] = len(sessions)
    ck.extra["thread_session_subjects"] = [x[0] for x in subjects][:12]
    return sessions


THREAD_NO = {"main": 0, "new": 1}


def thread_no(w):
    w = w or "main"
    return THREAD_NO[w] if w in THREAD_NO else 2 + (ord(w[-1]) - ord("a"))


def misspell(rng, mir, c):
    names = [m["name"] for m in mir.members(c)] or ["id"]
    allowed = set(names) | set(supergen.TECHNICAL)
    for _ in range(20):
        n = rng.choice(names)
        k = rng.random()
        t = n + "x" if k < 0.3 else (n[:-1] if k < 0.5 and len(n) > 1 else (n[1:] + n[0] if k < 0.7 else n.replace("_", "") + "_"))
        if t and t not in allowed and re.fullmatch(r"[A-Za-z_][A-Za-z0-9_]*", t) and t != "parent_object_":
            return t
    return "no_such_member_xyz"


# ------------------------------------------------------------------------------------------------ sessions
def make_sessions(ck, tab, T, mir, classes, exhaustive):
    rng = ck.rng
    vg = ValidGen(tab, T, rng)
    sessions = []
    # stored witnesses of the known finding, first on every run
    sessions.append({"ops": [{"op": "enable"},
                             {"op": "factory", "cls": "Annotation", "kw": [["__ANY__", {"s": "lost"}]], "validate": True, "form": "str",
                              "via": "classmethod", "kind": "typo", "key": "__ANY__"},
                             {"op": "factory", "cls": "Annotation", "kw": [["anytypeobjs_", None]], "validate": True, "form": "class",
                              "via": "utils", "kind": "ctor-keyword", "key": "anytypeobjs_"}]})
    for c in classes:
        valid = vg.kwargs(c)
        facet, fkey = vg.violate(c, valid)
        typo = misspell(rng, mir, c)
        with_typo = [list(x) for x in valid]
        with_typo.insert(rng.randrange(len(with_typo) + 1), [typo, {"s": "v"}])
        kinds = [("valid", valid, None), ("typo", with_typo, typo),
                 ("technical", valid + [[rng.choice(["extensiontype_", "gds_collector_", "parent_object_"]), None]], None)]
        if facet is not None:
            kinds.append(("facet", facet, fkey))
        else:
            ck.tally("class-without-facet-checked-string-member")
        if c in ANY6:
            kinds.append(("typo", valid + [["__ANY__", {"s": "lost"}]], "__ANY__"))
            kinds.append(("ctor-keyword", valid + [["anytypeobjs_", None]], "anytypeobjs_"))
        calls = []
        for kind, kw, key in kinds:
            if kind == "technical":
                key = kw[-1][0]
            combos = [(s, v, f) for s in (True, False) for v in (True, False) for f in ("str", "class")]
            if not exhaustive:
                combos = rng.sample(combos, 2)
            for s, v, f in combos:
                calls.append((s, {"op": "factory", "cls": c, "kw": kw, "validate": v, "form": f,
                                  "via": rng.choice(["classmethod", "classmethod", "utils"]),
                                  "host": rng.choice(["NeuroMLDocument", c]), "kind": kind, "key": key}))
        rng.shuffle(calls)
        ops = []
        for s, call in calls:
            how = rng.random()
            if how < 0.5:
                ops.append({"op": "enable" if s else "disable"})
            elif how < 0.8:
                ops.append({"op": "set", "value": s})
            else:   # reach the state through its opposite: re-enabling / re-disabling
                ops.append({"op": "disable" if s else "enable"})
                ops.append({"op": "enable" if s else "disable"})
            ops.append(call)
        sessions.append({"ops": ops})
    return sessions


def fcase_coq(op, r, enabled):
    dis = None if op["cls"] == "Cell" else r["disabled"]
    return ("{| fc_enabled := %s; fc_validate := %s; fc_cls := %s; fc_kw := %s; fc_vchild := %s; fc_cell := %s;\n"
            "   fc_code := %s; fc_ret := %s; fc_disabled := %s |}") % (
        supergen.b(enabled), supergen.b(op["validate"]), coq_str(op["cls"]),
        coq_list(["(%s, %s)" % (coq_str(k), gdsgen.cval(v)) for k, v in r["kw_dump"]]),
        supergen.b(r.get("vchild", False)), coq_opt(r.get("cell"), gdsgen.cobj), c10.code_coq(r["code"]),
        coq_opt(r.get("ret"), gdsgen.cobj), "None" if dis is None else "(Some %d%%nat)" % dis)


def evaluate(ck, sessions, results, initial):
    rows, meta = [], []
    traces = []
    for sess, res in zip(sessions, results):
        enabled = initial
        threaded = bool(sess.get("threads"))
        trace = []
        if threaded:
            traces.append((sess, trace))
        for idx, (op, r) in enumerate(zip(sess["ops"], res)):
            if "harness_error" in r:
                ck.disagree("harness", op, "session could not be run", r["harness_error"])
                break
            if op["op"] == "enable":
                enabled = True
            elif op["op"] == "disable":
                enabled = False
            elif op["op"] == "set":
                enabled = bool(op["value"])
            where = op.get("thread") or "main"
            so_far = [dict((k_, v_) for k_, v_ in o_.items() if k_ != "host") for o_ in sess["ops"][:idx + 1]]
            if threaded:
                # the model has one switch: every live thread must observe the position the operations so far determine,
                # whichever thread issued them
                seen = [(where, r.get("switch")), (where, r.get("getter"))]
                for w_, (a_, g_) in sorted((r.get("seen") or {}).items()):
                    seen += [(w_, a_), (w_, g_)]
                off = sorted(set(w_ for w_, v_ in seen if v_ is not enabled))
                if off:
                    ck.witness("C09:switch-differs-between-threads",
                               "after %s in thread %r the switch must be %s in the whole process, but thread(s) %s see %s "
                               "(module attribute / get_build_time_validation())"
                               % (op["op"] + ("(%s)" % op["value"] if op["op"] == "set" else ""), where, enabled, off,
                                  {w_: (r.get("seen") or {}).get(w_) for w_ in off}),
                               input={"thread_session": so_far}, expected=enabled, observed=r.get("seen"))
                trace.append((thread_no(where), {"enable": True, "disable": False}.get(op["op"], op.get("value") if op["op"] == "set" else None),
                              [(thread_no(w_), (v_ if isinstance(v_, bool) else (not enabled))) for w_, v_ in seen]))
                ck.tally("thread-op:%s:%s" % (op["op"], where.split(":")[0]))
            elif r.get("switch") != enabled or r.get("getter") != enabled:
                ck.witness("C09:switch-state", "after %s the switch is %s / get_build_time_validation() says %s, expected %s"
                           % (op["op"], r.get("switch"), r.get("getter"), enabled), input={"ops": sess["ops"][:idx + 1]})
                enabled = r.get("switch")
            if op["op"] == "validate":
                ck.tally("op:validate-directly")
                continue
            if op["op"] == "add":
                on = enabled and op["validate"]
                code = r["code"][0]
                inp = {"thread_session": so_far, "parent": op["parent"], "class": op["cls"], "kwargs": op["kw"], "switch": enabled,
                       "validate": op["validate"], "thread": where}
                ck.count(1, nontrivial_key=json.dumps(["add", op["cls"], enabled, where, idx]))
                ck.tally("thread-add:%s:%s" % ("on" if on else "off", "returns" if code == 0 else "raises"))
                if not r.get("switch_unchanged", True):
                    ck.witness("C09:call-changes-the-global-switch", "add() changed the global switch", input=inp)
                if op.get("typo"):
                    ck.tally("add:derived-only-keyword:%s" % ("raises" if code != 0 else "returns"))
                    if code == 0 or r.get("exc_type") != "ValueError":
                        ck.witness("C09:non-member-keyword-accepted", "%s().add(%r, .., %s=..): %s is no member of %s (only of a derived "
                                   "type used earlier in the process) but add() %s" % (op["parent"], op["cls"], op["typo"], op["typo"],
                                   op["cls"], "returns a component" if code == 0 else "raises " + str(r.get("exc"))),
                                   input=inp, expected="ValueError: not a permitted argument", observed=r.get("code"))
                elif "vchild" not in r:
                    ck.tally("thread-add:constructor-raises")
                elif on and not r["vchild"] and (code == 0 or r.get("exc_type") != "ValueError"):
                    ck.witness("C09:add-returns-with-invalid-component", "validation is on (switched by the operations so far, this "
                               "call in thread %r): %s().add(%s, ..) %s although validate() rejects the %s in a fresh process"
                               % (where, op["parent"], op["cls"], "returned" if code == 0 else "raised " + str(r.get("exc")), op["cls"]),
                               input=inp, expected="ValueError", observed=r.get("code"))
                elif not on and (code != 0 or not r.get("stored")):
                    ck.witness("C09:validation-off-but-refused:add", "validation is off for the whole process (this call in thread %r) "
                               "but add(<class>) %s" % (where, "raises " + str(r.get("exc")) if code != 0 else "did not store the component"),
                               input=inp, expected="the component, unvalidated", observed=r.get("code"))
                continue
            if op["op"] != "factory":
                ck.tally("op:switch")
                continue
            c, kind, key = op["cls"], op["kind"], op.get("key")
            on = enabled and op["validate"]
            code = r["code"][0]
            inp = {"class": c, "kwargs": op["kw"], "switch": enabled, "validate": op["validate"], "form": op["form"], "via": op["via"],
                   "kind": kind, "key": key}
            if threaded:
                inp["thread"] = where
                inp["thread_session"] = so_far
            if sess.get("pair"):
                inp["earlier_in_this_process"] = [{k_: o_.get(k_) for k_ in ("op", "cls", "kw", "validate")} for o_ in sess["ops"][:idx]]
                ck.tally("pair:%s:%s" % (kind, "derived-after-ancestor" if op.get("after") else "first"))
            ck.count(1, nontrivial_key=json.dumps([c, kind, enabled, op["validate"], op["form"]] + ([where, idx] if threaded else [])),
                     sample={"class": c, "kind": kind, "switch": enabled, "validate": op["validate"], "outcome": r["code"],
                             "explicit_validate": r.get("ret_valid")} if len(ck.samples) < 6 and kind in ("facet", "typo") else None)
            ck.tally("factory:%s:%s:%s" % (kind, "on" if on else "off", "returns" if code == 0 else "raises"))

            def bad(k, what, expected=None):
                ck.witness(k, what, input=inp, expected=expected, observed={x: r.get(x) for x in ("code", "exc", "ret_valid", "ret_validate_exc")})

            if not r.get("switch_unchanged", True):
                bad("C09:call-changes-the-global-switch", "the factory call changed neuroml.build_time_validation.ENABLED")
            if kind in ("typo", "technical"):
                if code == 0:
                    if key == "__ANY__":
                        bad("C09:any-keyword-silently-swallowed", "%s: the keyword __ANY__ passes the argument check and is silently ignored" % c,
                            expected="refused")
                    else:
                        bad("C09:non-member-keyword-accepted", "keyword %r is no member of %s but the factory returns a component" % (key, c),
                            expected="refused")
            elif kind == "ctor-keyword":
                if code != 0:
                    bad("C09:any-keyword-silently-swallowed", "%s: the constructor keyword anytypeobjs_ is refused by the argument check (%s)"
                        % (c, r.get("exc")), expected="accepted")
            elif "direct" not in r:
                # the constructor itself raises on these keywords: the factory must raise too (nothing to validate)
                ck.tally("factory:constructor-raises")
                if code == 0:
                    bad("C09:factory-returns-although-constructor-raises", "the constructor raises %s on these keywords" % r.get("direct_exc"))
            else:
                if on:
                    if code == 0 and not r.get("ret_valid"):
                        bad("C09:invalid-component-handed-back", "validation is on, the factory returned a %s that an explicit validate() "
                            "%s rejects%s" % (c, "in a fresh process" if r.get("ret_valid_in_process") else "(%s)" % r.get("ret_validate_exc"),
                                              " (%s; a %s was validated earlier in the process)" % (key, op["after"]) if op.get("after") else ""),
                            expected="ValueError or a valid component")
                    if code != 0 and r.get("exc_type") != "ValueError":
                        bad("C09:raises-other-than-ValueError", "validation is on and the factory raises %s" % r.get("exc"))
                    if "direct" in r and (code == 0) != bool(r.get("vchild")):
                        bad("C09:factory-verdict-differs-from-validate", "the factory %s although validate() on the same component says %s"
                            % ("returns" if code == 0 else "raises", r.get("vchild")))
                else:
                    if code != 0:
                        bad("C09:validation-off-but-refused", "validation is off (switch %s, flag %s) but the factory raises %s"
                            % (enabled, op["validate"], r.get("exc")), expected="the component, unvalidated")
                    elif "direct" in r and r.get("ret") != r["direct"]:
                        bad("C09:validation-off-different-component", "the component handed back differs from the constructor's")
                if code == 0 and r.get("ret_cls") != c:
                    bad("C09:wrong-class", "asked for %s, got %s" % (c, r.get("ret_cls")))
            try:
                if '"f": "!' not in json.dumps(r):
                    rows.append(fcase_coq(op, r, enabled))
                    meta.append((inp, r))
            except ValueError:
                ck.tally("skipped:raw-content")
    shard = 250
    texts = []
    for s in range(0, len(rows), shard):
        texts.append(("Cases_C09_%d.v" % (s // shard), s, HEADER + "Definition cases : list fcase := %s.\n" % coq_list(
            ["\n " + x for x in rows[s:s + shard]]) + "Eval vm_compute in (factory_mismatches Gen_Members.M Gen_Bindings.T 0 cases).\n"))
    with ThreadPoolExecutor(max_workers=8) as ex:
        evals = list(ex.map(lambda f: ck.coq_eval(f[0], f[2], timeout=1200), texts))
    for (name, s, _), (ok, results_, out) in zip(texts, evals):
        ck.oblige(name + ":evaluates", ok, out[-1500:], kind="correspondence")
        if not ok:
            continue
        for m in re.finditer(r"\((\d+)%nat, (\d+)%nat\)", results_[0] if results_ else ""):
            i, bits = int(m.group(1)), int(m.group(2))
            inp, r = meta[s + i]
            which = [nm for b_, nm in ((1, "outcome"), (2, "component"), (4, "log-records")) if bits & b_]
            ck.disagree("Super.component_factory[" + "+".join(which) + "]", inp, "model differs (bits %d)" % bits,
                        {k: r.get(k) for k in ("code", "exc", "vchild", "disabled", "ret_valid")})
    ck.extra["factory_calls_compared"] = len(rows)
    if traces:
        def step(t):
            return "{| ts_thread := %d; ts_op := %s; ts_seen := %s |}" % (
                t[0], "None" if t[1] is None else ("(Some SwEnable)" if t[1] else "(Some SwDisable)"),
                coq_list(["(%d%%nat, %s)" % (n_, supergen.b(v_)) for n_, v_ in t[2]]))
        text = HEADER + "Definition traces : list (nat * list tstep) := %s.\n" % coq_list(
            ["\n (%d%%nat, %s)" % (i, coq_list([step(t) for t in tr])) for i, (_, tr) in enumerate(traces)])
        text += ("Eval vm_compute in (flat_map (fun p => map (fun i => (fst p, i)) (switch_trace_mismatches %s 0 (snd p))) traces).\n"
                 % supergen.b(initial is True))
        ok, res_, out = ck.coq_eval("Cases_C09_threads.v", text, timeout=600)
        ck.oblige("Cases_C09_threads.v:evaluates", ok, out[-1500:], kind="correspondence")
        seen_sessions = set()
        for m in re.finditer(r"\((\d+)(?:%nat)?, (\d+)(?:%nat)?\)", res_[0] if ok and res_ else ""):
            i, j = int(m.group(1)), int(m.group(2))
            if i in seen_sessions:
                continue
            seen_sessions.add(i)
            sess_, tr = traces[i]
            ck.disagree("Super.switch_trace", {"thread_session": [dict((k_, v_) for k_, v_ in o_.items() if k_ != "host")
                                                                  for o_ in sess_["ops"][:j + 1]]},
                        "one switch for the whole process: after step %d every thread sees the same position" % j,
                        {"seen (thread no, value)": tr[j][2]})
        ck.extra["thread_steps_compared"] = sum(len(tr) for _, tr in traces)


def add_cases(ck, T, mir, classes, n):
    """add(<class or name>, **kwargs): the factory path inside add, through the C10 harness and model"""
    rng = ck.rng
    vg = ValidGen({"classes": list(mir.C.values())}, T, rng)
    pairs = [(p, c) for p in mir.order for c in classes if len(mir.targets(p, c)) == 1]
    cases = []
    # fixed: add(<class>) with validation on for components that own a not-valid child (see deep_sessions)
    if "Cell" in T.order and "NeuroMLDocument" in T.order:
        deep = [{"child": {"kind": "cls", "cls": "Cell", "kw": [["id", {"s": "c"}]], "form": f}, "hint": None, "force": False,
                 "validate": True, "typo": None, "mark": "deep"} for f in ("str", "class")]
        cases.append({"enabled": True, "parent": {"cls": "NeuroMLDocument", "kw": [["id", {"s": "doc"}]]}, "calls": deep})
    for p, c in (rng.sample(pairs, min(n, len(pairs))) if pairs else []):
        scal = [[k, v] for k, v in vg.kwargs(c, depth=0, optional=0.3) if v is None or "s" in v or "i" in v or "f" in v]
        typo = misspell(rng, mir, c)
        calls = []
        for kw in (scal, scal + [[typo, {"s": "v"}]]):
            calls.append({"child": {"kind": "cls", "cls": c, "kw": kw, "form": rng.choice(["str", "class"])}, "hint": None,
                          "force": rng.random() < 0.3, "validate": rng.random() < 0.6, "typo": typo if kw is not scal else None})
        rng.shuffle(calls)
        cases.append({"enabled": rng.random() < 0.6, "parent": {"cls": p, "kw": []}, "calls": calls})
    return cases


def add_predicate(ck, cases_res):
    for case, res in cases_res:
        if "harness_error" in res:
            continue
        for call, r in zip(case["calls"], res["calls"]):
            code = r["code"][0]
            on = case["enabled"] and call["validate"]
            inp = {"parent": case["parent"], "enabled": case["enabled"], "call": call}
            ck.count(1, nontrivial_key=json.dumps([case["parent"]["cls"], call["child"]["cls"], bool(call.get("typo")), on]))
            ck.tally("add:%s:%s:%s" % ("typo" if call.get("typo") else ("deep" if call.get("mark") == "deep" else "valid-keywords"),
                                       "on" if on else "off", "returns" if code == 0 else "raises"))
            if not r.get("switch_unchanged", True):
                ck.witness("C09:call-changes-the-global-switch", "add() changed the global switch", input=inp)
            if call.get("typo"):
                if code == 0 or r["changed"]:
                    ck.witness("C09:non-member-keyword-accepted:add", "add(<class>, %s=..) is accepted" % call["typo"],
                               input=inp, observed=r.get("code"))
                continue
            if on and code == 0 and not (r.get("vparent") and r.get("vchild")):
                ck.witness("C09:add-returns-with-invalid-component", "validation is on, add() returned although validate() rejects the %s"
                           % ("parent" if not r.get("vparent") else "child"), input=inp, observed=r.get("code"))
            if not on and code != 0 and code != 10:
                ck.witness("C09:validation-off-but-refused:add", "validation is off but add(<class>) raises %s" % r.get("exc"), input=inp)


def run(ck):
    ck.rule = ("for every binding class (both tiers: all 199) keyword sets {schema-valid (built from the facets and required members "
               "of the tables), one facet violated, one misspelt key, a technical key, and for xs:any classes __ANY__/anytypeobjs_} are "
               "given to the REAL component_factory (class method / neuroml.utils wrapper, class / string form) inside sessions that "
               "move the global switch by the helper functions or by assignment, also through its opposite (re-enabling); thorough: "
               "all switch x flag x form combinations; an explicit validate() is run on what comes back; outcomes and components are "
               "diffed against Model/Super.v inside Coq; add(<class>, **kwargs) goes through the C10 harness; the same operations are also "
               "spread over THREADS (main thread, threads started for one operation, long-lived pool workers; toggling in one, using "
               "factory/add in another, both directions): after every step every live thread must observe the one position the model's "
               "single switch has (trace checked inside Coq), and the factories must act on it; non-trivial = distinct "
               "(class, keyword kind, switch, flag, form)")
    ck.trusted = ["Coq 8.16.1 kernel + vm_compute", "translators/tr_bindings.py + lib/supergen.py", "translators/tr_supersig.py, translators/tr_switch.py",
                  "GeneratedsSuperSuper.validate() and Cell.setup_nml_cell() enter the model as oracles (Section variables): the answer of "
                  "validate() on the same class constructed directly", "impl/c09_impl.py, impl/c10_impl.py"]
    ck.assumptions = ["what validate() accepts is another property's business (C02/C03); here: the factory's verdict is validate()'s verdict"]
    ck.gate_static()
    bt = c10.build_tables(ck)
    if bt is None:
        return
    tab, S = bt
    T = bindings.Tables(tab)
    mir = supergen.Mirror(tab)
    inst = ck.gen_v("Inst_C09.v", INST)
    iok, _ = ck.compile_obligations(inst, kind="instance")
    if iok:
        ck.compile_props()
    else:
        ck.oblige("Props_C09.v", False, "instance obligations failed", kind="theorem")
    thorough = ck.tier == "thorough"
    sessions = make_sessions(ck, tab, T, mir, list(T.order), thorough)
    sessions = sessions[:1] + deep_sessions(ck, tab, T, mir) + thread_sessions(ck, tab, T, mir, thorough) + pair_sessions(ck, tab, T, mir, thorough) + sessions[1:]
    order = {c: T.field_order(c) for c in T.order}
    chunk = 25
    parts = [sessions[i:i + chunk] for i in range(0, len(sessions), chunk)]

    def one(part):
        return ck.impl("c09_impl.py", {"order": order, "sessions": part}, timeout=1500)
    results, initial = [], True
    with ThreadPoolExecutor(max_workers=6) as ex:
        for part, out in zip(parts, ex.map(one, parts)):
            results.extend(out["results"])
            initial = out["initial"]
            c10.check_class_attrs(ck, out.get("new_class_attrs") or {}, {"first_session": part[0]["ops"][:3] if part else None})
            for x in (out.get("member_cache") or [])[:1]:
                if not ck.extra.get("member_cache_problem"):
                    ck.extra["member_cache_problem"] = x
                    ck.witness("C09:member-cache-wrong-or-aliased", "after the calls the per-class cache of _get_members() (the list the "
                               "argument check consults) is wrong: %s" % x["problem"], input={"session": x["session"]},
                               expected="one list per class, holding the members of the class and its ancestors", observed=out["member_cache"][:6])
            ck.tally("member-cache-snapshots")
            rt = out.get("switch_runtime") or {}
            if rt != {"module_type_plain": True, "package_type_plain": True, "in_module_dict": "bool", "same_module": True,
                      "module_getattr": False} and not ck.extra.get("switch_runtime"):
                ck.extra["switch_runtime"] = rt
                ck.witness("C09:switch-is-not-a-plain-module-attribute", "at run time neuroml.build_time_validation.ENABLED is not a bool "
                           "in the dictionary of a plain module reached through the package attribute: %s" % rt, input={},
                           expected="a plain module-level bool", observed=rt)
    nsub = 6
    keys = ("code", "ret", "ret_cls", "ret_valid", "switch", "getter", "switch_unchanged", "disabled", "seen", "valid")
    c10.interpreter_configurations(
        ck, "c09_impl.py", {"order": order, "sessions": sessions[:nsub]}, {"results": results[:nsub]},
        lambda o: [[[c10.canon_code(r_.get(k)) if k == "code" else r_.get(k) for k in keys] + [r_.get("harness_error")] for r_ in sess_]
                   for sess_ in o["results"]],
        lambda i: {"session": [{k_: o_.get(k_) for k_ in ("op", "cls", "kw", "validate", "form", "via", "thread")} for o_ in sessions[i]["ops"]][:6]})
    if initial is not True:
        ck.witness("C09:default-switch-off", "build-time validation is not enabled by default", input={})
    evaluate(ck, sessions, results, initial)
    acases = add_cases(ck, T, mir, list(T.order), ck.n(60, 600))
    pairs = c10.run_cases(ck, T, acases, "C09add")
    add_predicate(ck, pairs)
    c10.coq_diff(ck, pairs, "Cases_C09_add", fixed=True)
    ck.extra["classes"] = len(T.order)
    ck.extra["exhaustive_switch_flag_form"] = thorough
    c10.debug(ck)


def replay(ck, data):
    bt = c10.build_tables(ck)
    if bt is None:
        return 2
    tab, S = bt
    T = bindings.Tables(tab)
    inp = data.get("input") or {}
    order = {c: T.field_order(c) for c in T.order}
    if inp.get("thread_session"):
        sess = {"isolate": True, "threads": True, "ops": [dict(o_, host="NeuroMLDocument") if o_.get("op") == "factory" else o_
                                                          for o_ in inp["thread_session"]]}
        out = ck.impl("c09_impl.py", {"order": order, "sessions": [sess]}, timeout=600)
        evaluate(ck, [sess], out["results"], out["initial"])
        last = out["results"][0][-1]
        print(json.dumps({"thread_session": [(o_["op"], o_.get("thread"), o_.get("value")) for o_ in sess["ops"]],
                          "implementation_last_step": {k_: last.get(k_) for k_ in ("code", "exc", "switch", "getter", "seen")},
                          "model_disagreements": [d_["model"] for d_ in ck.disagreements[:3]],
                          "property_violations": sorted(set(w["key"] for w in ck.witnesses))}, indent=1)[:6000])
    elif "class" in inp and "kwargs" in inp:
        op = {"op": "factory", "cls": inp["class"], "kw": inp["kwargs"], "validate": inp.get("validate", True), "form": inp.get("form", "str"),
              "via": inp.get("via", "classmethod"), "kind": inp.get("kind", "valid"), "key": inp.get("key")}
        earlier = []
        for o_ in inp.get("earlier_in_this_process") or []:
            if o_.get("op") == "factory":
                earlier.append({"op": "factory", "cls": o_["cls"], "kw": o_["kw"], "validate": o_.get("validate", True), "form": "str",
                                "via": "classmethod", "kind": "valid", "key": None})
            elif o_.get("op") == "validate":
                earlier.append({"op": "validate", "cls": o_["cls"], "kw": o_["kw"]})
        sess = {"isolate": True, "pair": [None, inp["class"]] if earlier else None,
                "ops": [{"op": "enable" if inp.get("switch", True) else "disable"}] + earlier + [op]}
        out = ck.impl("c09_impl.py", {"order": order, "sessions": [sess]}, timeout=600)
        evaluate(ck, [sess], out["results"], out["initial"])
        print(json.dumps({"input": inp, "implementation": out["results"][0][-1], "model_disagreements": ck.disagreements[:3],
                          "property_violations": [w["key"] for w in ck.witnesses]}, indent=1)[:6000])
    else:
        print(json.dumps({"stored": data}, indent=1)[:4000])
        return 1
    return 1 if ck.witnesses or ck.disagreements else 0
