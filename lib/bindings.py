"""shared by C01/C02/C03/C04/C09/C10/C11: run translators/tr_bindings.py on the tree under test, emit Gen_Bindings.v,
and mirror the model's flattening in python for the generators."""
import json
import os
import subprocess

from lib.vcommon import PY, VERIF, coq_list, coq_str, impl_env


def translate(ck):
    out = os.path.join(ck.build, "bindings.json")
    p = subprocess.run([PY, os.path.join(VERIF, "translators", "tr_bindings.py"), out], capture_output=True, text=True,
                       env=impl_env(), timeout=300)
    if p.returncode != 0 or not os.path.exists(out):
        ck.oblige("translate:tr_bindings", False, p.stderr[-2000:], kind="translate")
        return None
    tab = json.load(open(out))
    ck.oblige("translate:tr_bindings", not tab["errors"], "; ".join(tab["errors"][:20]), kind="translate")
    return tab


def dflt(v):
    if v is None:
        return "DNone"
    if isinstance(v, bool):
        return "(DStr %s)" % coq_str(str(v))
    if isinstance(v, int):
        return "(DInt (%d)%%Z)" % v
    if isinstance(v, float):
        return "(DDec %s)" % coq_str(repr(v))
    return "(DStr %s)" % coq_str(v)


KIND = {"str": "KStr", "int": "KInt", "float": "KFloat", "double": "KDouble", "bool": "KStr"}
CK = {"obj": "CObj", "objlist": "CObjList", "text": "CText", "textlist": "CText", "any": "CAny"}
POS = {"none": "SupNone", "first": "SupFirst", "last": "SupLast"}
CAST = {"raw": "CastRaw", "int": "CastInt", "float": "CastFloat", "bool": "CastRaw", "obj": "CastObj", "list": "CastList"}
RNG = {None: "RNone", "nonneg": "RNonNeg", "pos": "RPos"}


def params_of(c):
    return [p for p in c.get("init_params", []) if p["name"] != "extensiontype_"]


def emit_class(c):
    ps = params_of(c)
    sa = [a for a in (c.get("super_args") or []) if a != "extensiontype_"]
    asg = []
    for a in c.get("init_assign", []):
        cast = CAST[a["cast"]]
        if a["member"] == "anytypeobjs_":
            cast = "CastAnyList"
        asg.append("(%s, %s)" % (coq_str(a["member"]), cast))
    ea = ["{| ea_py := %s; ea_xml := %s; ea_kind := %s; ea_guard := %s |}" % (
        coq_str(a["py"]), coq_str(a["xml"]), KIND[a["kind"]],
        "GNotNone" if a["guard"] is None else "(GNe %s)" % dflt(a["guard"]["ne"])) for a in c.get("exp_attrs", [])]
    ba = ["{| ba_xml := %s; ba_py := %s; ba_kind := %s; ba_range := %s; ba_key := %s |}" % (
        coq_str(a["xml"]), coq_str(a["py"]), KIND[a["kind"]], RNG[a["range"]], coq_str(a["apkey"])) for a in c.get("bld_attrs", [])]
    ek = ["{| ek_py := %s; ek_tag := %s; ek_kind := %s |}" % (coq_str(a["py"]), coq_str(a["tag"]), CK[a["kind"]])
          for a in c.get("exp_kids", [])]
    bk = ["{| bk_tag := %s; bk_py := %s; bk_cls := %s; bk_kind := %s; bk_dispatch := %s |}" % (
        coq_str(a["tag"]), coq_str(a["py"]), coq_str(a["cls"] or ""), CK[a["kind"]], "true" if a.get("dispatch") else "false")
        for a in c.get("bld_kids", [])]
    sup = c["super"] if c["super"] not in (None, "GeneratedsSuper") else None
    return ("{| c_name := %s; c_super := %s;\n   c_params := %s;\n   c_super_args := %s;\n   c_assign := %s;\n"
            "   c_has_content := %s; c_hc_super := %s;\n   c_exp_attrs := %s; c_exp_attrs_super := %s;\n"
            "   c_bld_attrs := %s; c_bld_attrs_super := %s;\n   c_exp_kids := %s; c_exp_kids_super := %s;\n"
            "   c_bld_kids := %s; c_bld_kids_super := %s;\n   c_any_always := %s |}") % (
        coq_str(c["name"]), "None" if sup is None else "(Some %s)" % coq_str(sup),
        coq_list(["{| p_name := %s; p_default := %s |}" % (coq_str(p["name"]), dflt(p["default"])) for p in ps]),
        coq_list([coq_str(a) for a in sa]), coq_list(asg),
        coq_list([coq_str(m) for m in c.get("has_content", [])]), "true" if c.get("has_content_super") else "false",
        coq_list(ea), POS[c.get("exp_attrs_super", "none")], coq_list(ba), POS[c.get("bld_attrs_super", "none")],
        coq_list(ek), POS[c.get("exp_kids_super", "none")], coq_list(bk), POS[c.get("bld_kids_super", "none")],
        "true" if any(b.get("always") for b in c.get("bld_kids", [])) else "false")


def emit_gen(tab):
    lines = ["From Coq Require Import String List ZArith Bool.", "From LNML Require Import Lib.Dec Model.Gds.",
             "Import ListNotations.", "Open Scope string_scope.", ""]
    names = []
    for i, c in enumerate(tab["classes"]):
        lines.append("Definition cls_%d : cls :=\n %s." % (i, emit_class(c)))
        names.append("cls_%d" % i)
    lines.append("Definition T : tables := %s." % coq_list(names))
    return "\n".join(lines) + "\n"


def gen_bindings(ck, tab):
    g = ck.gen_v("Gen_Bindings.v", emit_gen(tab))
    ok, out = ck.coqc(g, timeout=600)
    ck.oblige("Gen_Bindings.v:compiles", ok, out[-1500:], kind="translate")
    return ok


# ------------------------------------------------------------------ python mirror of the model's flattening
class Tables:
    def __init__(self, tab):
        self.C = {c["name"]: c for c in tab["classes"]}
        self.order = [c["name"] for c in tab["classes"]]

    def sup(self, c):
        s = self.C[c]["super"]
        return s if s in self.C else None

    def inherited(self, c, key, poskey):
        k = self.C[c]
        own = list(k.get(key, []))
        s = self.sup(c)
        pos = k.get(poskey, "none") if poskey else "none"
        if pos == "none" or s is None:
            return own
        base = self.inherited(s, key, poskey)
        return base + own if pos == "first" else own + base

    def exp_attrs(self, c):
        return self.inherited(c, "exp_attrs", "exp_attrs_super")

    def bld_attrs(self, c):
        return self.inherited(c, "bld_attrs", "bld_attrs_super")

    def exp_kids(self, c):
        return self.inherited(c, "exp_kids", "exp_kids_super")

    def bld_kids(self, c):
        return self.inherited(c, "bld_kids", "bld_kids_super")

    def field_order(self, c):
        """names in the order init_fields produces them (base assignments first)"""
        s = self.sup(c)
        base = self.field_order(s) if s else []
        for a in self.C[c].get("init_assign", []):
            if a["member"] not in base:
                base = base + [a["member"]]
        return base

    def all_params(self, c):
        return [p["name"] for p in params_of(self.C[c])]

    def default_of(self, c, name):
        for p in params_of(self.C[c]):
            if p["name"] == name:
                return p["default"]
        return None

    def chain(self, c):
        out = []
        while c:
            out.append(c)
            c = self.sup(c)
        return out

    def default_of_chain(self, c, name):
        for k in self.chain(c):
            for p in params_of(self.C[k]):
                if p["name"] == name:
                    return p["default"]
        return None

    def mspec_type(self, c, member):
        for k in self.chain(c):
            for ms in self.C[k]["mspecs"]:
                if ms["name"] == member:
                    return ms["type"]
        return None

    def child_class(self, c, member, builder_cls):
        """the class a user puts under this member: what the MemberSpec (info(), add()) declares; falls back to the
        class the builder instantiates when the MemberSpec names no binding class"""
        t = self.mspec_type(c, member)
        return t if isinstance(t, str) and t in self.C else builder_cls

    def class_mismatches(self):
        """(class, member, MemberSpec type, builder class) where the two differ"""
        out = []
        for c in self.order:
            for b in self.C[c].get("bld_kids", []):
                if b.get("cls") and b["kind"] in ("obj", "objlist"):
                    t = self.mspec_type(c, b["py"])
                    if t is not None and t != b["cls"]:
                        out.append((c, b["py"], t, b["cls"]))
        return out
